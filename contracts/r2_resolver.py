"""Round 2 - the rest of jsonargparse/_parameter_resolvers.py under contract (C13).

Modelling (as in contracts/c13.py): an ast node is a record whose class is the node class (`Rec("Call", attrs=...)`, registered below `AST` in the
class table so that `isinstance(node, ast.Call)` is decided as CPython decides it); `ast.dump` is the canonical text of the record structure
(injective, includes the expression context), so two nodes "dump equal" exactly when they are structurally equal; ParamData is a record; the
visitor is a record with its state as attributes and the sibling methods as contract models.  The small `ast_*` classifiers are *inlined* (their
real bodies are interpreted), so the visitor units check them too.  Shapes (which statement form, which callee form) are enumerated exhaustively;
names are symbolic strings where the engine carries them (add_value, visit_Import, attribute search).

Clause of C13 behind every unit: the parameters offered for a callable that forwards *args/**kwargs are exactly those the code accepts; defaults
and origins come from the callee that really receives the value.

the visitor (what counts as a use of *args/**kwargs/self.attr - trusted by c13's get_parameters_args_and_kwargs / get_parameters_call_attr)
  ParametersVisitor.visit_Assign        `t = <value>` is one use (first key that matches, children not searched again); `t = dict(.., **value)` is a use
                                        of every value it unpacks; another dict assignment is remembered under its target (in Load context) and not
                                        searched; any other assignment is searched below
  ParametersVisitor.visit_AnnAssign     `t: T = v` is treated as `t = v`; `t: T` is nothing
  ParametersVisitor.visit_Call          a call that passes the value (positionally starred, as **, as keyword value) is a use - the remembered dict
                                        assignment instead when the call is a method of a remembered dict (d.update(**kwargs)); value.pop/get('name', d)
                                        is a use; the call's children are always searched (nested calls)
  ParametersVisitor.visit_If            `if GLOBAL:` / `if not GLOBAL:` with a module-level name: only the arm that runs is searched; any other test: both
  ParametersVisitor.visit_Import / visit_ImportFrom   every alias is remembered under the name it binds (asname, else name)
  ParametersVisitor.add_value           appends exactly (key, node, source): source is the local import statement that binds the name the call starts
                                        with, None otherwise
  ParametersVisitor.find_values_usage   a search starts from fresh state (earlier findings / dict assignments / imports are not carried over), visits the
                                        component's node and returns the findings
which callee receives the value
  ParametersVisitor.get_node_component  f(..) -> the module's f, else the locally imported f; cls(..) in a classmethod -> the class; self.m(..) ->
                                        (parent, m); K.m(..) with a class K -> (K, m); mod.f(..) -> (mod.f, None); anything else -> None (logged)
  ParametersVisitor.get_component_from_source  executes exactly the import statement given; the object it binds under the name, None if it fails
  ParametersVisitor.match_call_that_uses_attr  a call that unpacks **self.attr contributes the parameters of its callee minus what it hard-codes; every
                                        other form contributes nothing ([]); a node that is not a call is no match (None)
  ParametersVisitor.get_parameters_attr_use_in_members  the first public method / property of the parent whose body forwards self.attr decides
  ParametersVisitor.parse_source_tree   parsed once; component_node = the only statement of the dedented source; self_name = first argument of a method;
                                        every failure is SourceNotAvailable
  ParametersVisitor.get_node_origin / remove_ignore_parameters / log_debug / get_component_globals / get_call_class_type / get_default_nodes
  get_parameters_from_ast               visitor for (component, method, logger) -> its get_parameters()
reading the signature
  get_component_and_parent              which function is inspected for (class|function, method|None) - see the clauses in the obligation names
  get_signature_parameters_and_indexes  one ParamData per signature parameter (self dropped for members), indexes of *args/**kwargs in *that* list
  get_parameters_by_assumptions         *args/**kwargs of a method are replaced by the parameters of the next definer in the MRO, what is left of them is dropped
  get_parameters_from_stubs / add_stub_types / unpack_typed_dict_kwargs / replace_generic_type_vars
  is_param_subclass_instance_default / ParametersVisitor.replace_param_default_subclass_specs
  get_parameter_origins, has_dunder_new_method, is_staticmethod / is_method / is_property / is_method_or_property / is_classmethod / is_lambda
  ast_is_super_call, ast_is_attr_assign (own units); checked through their real bodies inside the units above (inlined): ast_is_assign_with_value,
  ast_is_dict_assign(_with_value), ast_get_assign_targets, ast_is_call_with_value, ast_is_kwargs_pop_or_get, ast_is_constant, ast_get_constant_value,
  ast_is_not, ast_variable_load, ast_attribute_load, ast_get_call_kwarg_with_value, get_arg_kind_index
not under contract: ast_get_name_and_attrs (names[::-1]: slice step outside the engine's subset; modelled by contract in get_call_class_type), ast_str (getattr(ast, ..)
  on the real module), log_debug (logging calls are dropped by the engine), UnknownDefault / ConditionalDefault (__repr__ only), pydantic/attrs extractors
refuted on the unchanged tree (real defects, reproduced natively - see the builder's report):
  visit_Call            kwargs.pop(<variable>, d) aborts the whole AST resolution with AssertionError (ast_get_constant_value asserts a constant)
  get_node_component    a function-local import that shadows a module-level name is ignored: the module's object is resolved instead of the one called
  get_default_nodes     keyword-only parameters are not looked at: a keyword-only class-instance default fails the assert in replace_param_default_subclass_specs
(each unit's clauses are spelled out in the obligation names)
"""
import z3

from pyvc.engine import ClassRef, ExcVal, Fn, PyRaise, Rec, SymMap, is_z3, lift
from contracts.adapt_arms import suppress_cm
from pyvc.units import Setup, Unit

MOD = "jsonargparse._parameter_resolvers"
PV = MOD + ":ParametersVisitor."

AST_CLASSES = ("Call", "Name", "Attribute", "Assign", "AnnAssign", "AugAssign", "Dict", "If", "Constant", "UnaryOp", "Not", "USub", "Starred", "keyword", "Load", "Store",
               "Module", "FunctionDef", "Import", "ImportFrom", "alias", "Expr", "BinOp", "Lambda", "arguments", "arg", "Return", "Subscript", "Compare")


def ast_classes(ctx):
    ctx.classes.add("AST", ["object"])
    for c in AST_CLASSES:
        ctx.classes.add(c, ["AST"])


AST_CONSTS = {"ast." + c: ClassRef(c) for c in AST_CLASSES}
AST_CONSTS["ast.AST"] = ClassRef("AST")
AST_CONSTS["ast_assign_type"] = (ClassRef("AnnAssign"), ClassRef("Assign"))


def _no_such_field(c, s_, a, k):
    raise PyRaise(ExcVal("AttributeError", args=(f"'{s_.cls}' object has no attribute {a[0]!r}",), origin=f"{s_.cls}.{a[0]}"))


def N(cls, **attrs):
    """An ast node: reading a field the node class does not have is AttributeError, as in CPython."""
    return Rec(cls, attrs=attrs, methods={"__getattr__": _no_such_field})


def LOAD():
    return N("Load")


def STORE():
    return N("Store")


def name(id_, ctx=None):
    return N("Name", id=id_, ctx=ctx or LOAD())


def attribute(value, attr, ctx=None):
    return N("Attribute", value=value, attr=attr, ctx=ctx or LOAD())


def const(v):
    c = N("Constant", value=v)
    c.attrs["__class__"] = ClassRef("Constant")
    return c


def kw(arg, value):
    return N("keyword", arg=arg, value=value)


def call(func, args=(), keywords=()):
    return N("Call", func=func, args=list(args), keywords=list(keywords))


def dump(v):
    """ast.dump: canonical text of the structure (positions excluded, as ast.dump does by default)."""
    if isinstance(v, Rec):
        return v.cls + "(" + ", ".join(f"{k}={dump(x)}" for k, x in sorted(v.attrs.items()) if k not in ("lineno", "col_offset", "tag", "__class__")) + ")"
    if isinstance(v, (list, tuple)):
        return "[" + ", ".join(dump(x) for x in v) + "]"
    return repr(v)


def copy_node(v):
    if isinstance(v, Rec):
        return Rec(v.cls, attrs={k: copy_node(x) for k, x in v.attrs.items()})
    if isinstance(v, list):
        return [copy_node(x) for x in v]
    return v


def ast_calls():
    """ast constructors / ast.dump / deepcopy as used by the module (trusted: they build the node they name; dump is injective on structure)."""
    return {
        "ast.dump": lambda c, a, k: dump(a[0]),
        "ast.Load": lambda c, a, k: LOAD(),
        "ast.Name": lambda c, a, k: Rec("Name", attrs=dict(k)),
        "ast.Attribute": lambda c, a, k: Rec("Attribute", attrs=dict(k)),
        "ast.If": lambda c, a, k: Rec("If", attrs=dict(k)),
        "ast.Constant": lambda c, a, k: Rec("Constant", attrs=dict(k)),
        "deepcopy": lambda c, a, k: copy_node(a[0]),
    }


AST_TRUST = "ast: node classes and fields as ast.parse produces them; ast.dump(a) == ast.dump(b) iff a and b are structurally equal (incl. ctx); deepcopy copies a node"
INL = {n: MOD + ":" + n for n in (
    "ast_is_assign_with_value", "ast_is_dict_assign_with_value", "ast_is_dict_assign", "ast_get_assign_targets", "ast_is_call_with_value", "ast_is_kwargs_pop_or_get",
    "ast_get_constant_value", "ast_is_constant", "ast_is_not", "ast_variable_load", "ast_attribute_load", "ast_get_call_kwarg_with_value", "ast_get_name_and_attrs",
    "is_staticmethod", "is_method", "is_property", "is_method_or_property", "is_lambda")}
DICT_AST = dump(name("dict"))
CONSTANT_ATTR = Rec("dict ast_constant_attr", methods={"__getitem__": lambda c, s_, a, k: {"Constant": "value"}[a[0].name]})
HELPER_CONSTS = dict(AST_CONSTS, dict_ast=DICT_AST, ast_constant_types=(ClassRef("Constant"),), ast_constant_attr=CONSTANT_ATTR)


def inl(*names):
    return {n: INL[n] for n in names}


def never(ctx, st, exc):
    ctx.oblige("raises", f"never-raises(got {exc.cls}@{exc.origin})", False)


def same_list(a, b):
    return isinstance(a, list) and len(a) == len(b) and all(x is y for x, y in zip(a, b))


# ============================================================================================================ the visitor
def visitor(**attrs):
    v = Rec("ParametersVisitor", attrs=attrs)
    v.methods["generic_visit"] = lambda c, s_, a, k: c.event("generic_visit", a[0])
    v.methods["add_value"] = lambda c, s_, a, k: c.event("add_value", a[0], a[1])
    v.methods["log_debug"] = lambda c, s_, a, k: c.event("log")
    return v


# ------------------------------------------------------------------------------------------------ visit_Assign / visit_AnnAssign
VALUE_SHAPES = ["the-first-value", "the-second-value", "dict(k=1, **first)", "dict(**first, **second)", "dict(k=first)", "dict(k=1)", "{'k': 1}", "{**first}", "f(**first)", "other-name"]


def va_setup(ctx):
    ast_classes(ctx)
    two = ctx.choose(2, "values-searched") == 1
    ann = ctx.choose(2, "annotated-assignment") == 1
    shape = VALUE_SHAPES[ctx.choose(len(VALUE_SHAPES), "assigned-expression")]
    target_kind = ["name", "self.attr"][ctx.choose(2, "target")]
    first, second = name("args"), name("kwargs")
    if not two:
        first, second = name("kwargs"), name("unrelated")
    find = {"args": first, "kwargs": second} if two else {"kwargs": first}
    value = {
        "the-first-value": lambda: copy_node(first), "the-second-value": lambda: copy_node(second),
        "dict(k=1, **first)": lambda: call(name("dict"), [], [kw("k", const(1)), kw(None, copy_node(first))]),
        "dict(**first, **second)": lambda: call(name("dict"), [], [kw(None, copy_node(first)), kw(None, copy_node(second))]),
        "dict(k=first)": lambda: call(name("dict"), [], [kw("k", copy_node(first))]),
        "dict(k=1)": lambda: call(name("dict"), [], [kw("k", const(1))]),
        "{'k': 1}": lambda: N("Dict", keys=[const("k")], values=[const(1)]),
        "{**first}": lambda: N("Dict", keys=[None], values=[copy_node(first)]),
        "f(**first)": lambda: call(name("f"), [], [kw(None, copy_node(first))]),
        "other-name": lambda: name("something"),
    }[shape]()
    tgt = name("t", STORE()) if target_kind == "name" else attribute(name("self"), "stored", STORE())
    n_targets = 1 if ann else 1 + ctx.choose(2, "chained-targets")
    if ann:
        node = N("AnnAssign", target=tgt, annotation=name("dict"), value=value, simple=1)
    else:
        node = N("Assign", targets=[tgt] + [name("u", STORE())] * (n_targets - 1), value=value)
    old_assign = Rec("Assign", attrs={"tag": "earlier"})
    dict_assigns = {"earlier-dump": old_assign}
    self = visitor(find_values=find, dict_assigns=dict_assigns)
    snapshot = dump(node)
    return Setup(env={"self": self, "node": node}, calls=ast_calls(), consts=HELPER_CONSTS,
                 inline=inl("ast_is_assign_with_value", "ast_is_dict_assign_with_value", "ast_is_dict_assign", "ast_get_assign_targets"),
                 data=dict(two=two, shape=shape, node=node, tgt=tgt, target_kind=target_kind, dict_assigns=dict_assigns, old_assign=old_assign, snapshot=snapshot, n_targets=n_targets, ann=ann))


def va_post(ctx, st, result):
    d = st.data
    tag = f"[{d['shape']};{'2 values' if d['two'] else '1 value'};{'ann' if d['ann'] else 'plain'};target:{d['target_kind']}x{d['n_targets']}]"
    shape, two = d["shape"], d["two"]
    first_key, second_key = ("args", "kwargs") if two else ("kwargs", None)
    added = [(e[1], e[2]) for e in ctx.events if e[0] == "add_value"]
    visited = [e[1] for e in ctx.events if e[0] == "generic_visit"]
    new_assigns = {k: v for k, v in d["dict_assigns"].items() if k != "earlier-dump"}
    want = None
    if shape == "the-first-value":
        want = [first_key]
    elif shape == "the-second-value" and two:
        want = [second_key]
    elif shape == "dict(k=1, **first)":
        want = [first_key]
    elif shape == "dict(**first, **second)":
        want = [first_key] + ([second_key] if two else [])
    elif shape == "dict(k=first)":
        want = [first_key]   # the value stored under a key of the dict: reported as a use (the caller decides what the form means)
    if want is not None:
        ctx.oblige("post", "an-assignment-of-the-value(or of a dict(...) call that contains it)-is-one-use-per-value-it-contains,reported-with-the-assignment-node;it-is-not-searched-again-below" + tag,
                   [k for k, _ in added] == want and all(n is d["node"] for _, n in added) and not visited)
        ctx.oblige("frame", "a-use-is-not-also-remembered-as-a-dict-assignment" + tag, not new_assigns)
    elif shape in ("dict(k=1)", "{'k': 1}", "{**first}"):
        load_target = copy_node(d["tgt"])
        load_target.attrs["ctx"] = LOAD()
        keys = {dump(load_target)} | ({dump(name("u"))} if d["n_targets"] == 2 else set())
        ctx.oblige("post", "a-dict-assignment-without-the-value-is-remembered-under-each-target-as-it-reads-when-loaded(self.d / d),and-is-no-use" + tag,
                   set(new_assigns) == keys and all(v is d["node"] for v in new_assigns.values()) and not added and not visited)
    else:
        ctx.oblige("post", "any-other-assignment-is-searched-below(its value may contain a forwarding call)-and-is-itself-no-use" + tag,
                   not added and len(visited) == 1 and visited[0] is d["node"] and not new_assigns)
    ctx.oblige("frame", "the-tree-is-not-modified(the target keeps its Store context);earlier-dict-assignments-are-kept" + tag,
               dump(d["node"]) == d["snapshot"] and d["dict_assigns"].get("earlier-dump") is d["old_assign"])


def vaa_setup(ctx):
    ast_classes(ctx)
    has_value = ctx.choose(2, "has-a-value") == 1
    node = N("AnnAssign", target=name("t", STORE()), annotation=name("int"), value=name("kwargs") if has_value else None, simple=1)
    self = Rec("ParametersVisitor", methods={"visit_Assign": lambda c, s_, a, k: c.event("visit_Assign", a[0]), "generic_visit": lambda c, s_, a, k: c.event("generic_visit", a[0])})
    return Setup(env={"self": self, "node": node}, consts=HELPER_CONSTS, data=dict(has_value=has_value, node=node))


def vaa_post(ctx, st, result):
    d = st.data
    ev = list(ctx.events)
    if d["has_value"]:
        ctx.oblige("post", "`t: T = v`-is-handled-exactly-as-`t = v`", len(ev) == 1 and ev[0][0] == "visit_Assign" and ev[0][1] is d["node"])
    else:
        ctx.oblige("post", "a-bare-annotation-`t: T`-assigns-nothing:no-use,no-search", not ev)


# ------------------------------------------------------------------------------------------------ visit_Call
CALL_SHAPES = ["f(**v)", "f(*v)", "f(k=v)", "f(v)", "obj.m(**v)", "d.update(**v)[d remembered]", "self.d.update(**v)[self.d remembered]", "v.pop('n', 1)", "v.get('n', None)", "v.pop('n')", "v.pop(7, 1)", "v.pop(name_var, 1)",
               "v.update('n', 1)", "w.pop('n', 1)", "f(**w)", "f(g(**v))", "f()"]


def vc_setup(ctx):
    ast_classes(ctx)
    two = ctx.choose(2, "values-searched") == 1
    shape = CALL_SHAPES[ctx.choose(len(CALL_SHAPES), "call")]
    attr_value = ctx.choose(2, "the-value-is-self.attr") == 1
    v = (lambda: attribute(name("self"), "stored")) if attr_value else (lambda: name("kwargs"))
    w = lambda: name("other")  # noqa: E731
    find = {"kwargs": v()} if not two else {"args": name("args"), "kwargs": v()}
    if attr_value:
        find = {"stored": v()} if not two else {"other_attr": attribute(name("self"), "other_attr"), "stored": v()}
    vkey = "stored" if attr_value else "kwargs"
    inner = None
    node = {
        "f(**v)": lambda: call(name("f"), [], [kw(None, v())]),
        "f(*v)": lambda: call(name("f"), [N("Starred", value=v(), ctx=LOAD())], []),
        "f(k=v)": lambda: call(name("f"), [], [kw("k", v())]),
        "f(v)": lambda: call(name("f"), [v()], []),
        "obj.m(**v)": lambda: call(attribute(name("obj"), "m"), [], [kw(None, v())]),
        "d.update(**v)[d remembered]": lambda: call(attribute(name("d"), "update"), [], [kw(None, v())]),
        "self.d.update(**v)[self.d remembered]": lambda: call(attribute(attribute(name("self"), "d"), "update"), [], [kw(None, v())]),
        "v.pop('n', 1)": lambda: call(attribute(v(), "pop"), [const("n"), const(1)], []),
        "v.get('n', None)": lambda: call(attribute(v(), "get"), [const("n"), const(None)], []),
        "v.pop('n')": lambda: call(attribute(v(), "pop"), [const("n")], []),
        "v.pop(7, 1)": lambda: call(attribute(v(), "pop"), [const(7), const(1)], []),
        "v.pop(name_var, 1)": lambda: call(attribute(v(), "pop"), [name("name_var"), const(1)], []),
        "v.update('n', 1)": lambda: call(attribute(v(), "update"), [const("n"), const(1)], []),
        "w.pop('n', 1)": lambda: call(attribute(w(), "pop"), [const("n"), const(1)], []),
        "f(**w)": lambda: call(name("f"), [], [kw(None, w())]),
        "f(g(**v))": lambda: call(name("f"), [call(name("g"), [], [kw(None, v())])], []),
        "f()": lambda: call(name("f"), [], []),
    }[shape]()
    d_assign, selfd_assign = Rec("Assign", attrs={"tag": "d = dict(..)"}), Rec("Assign", attrs={"tag": "self.d = dict(..)"})
    dict_assigns = {dump(name("d")): d_assign, dump(attribute(name("self"), "d")): selfd_assign}
    self = visitor(find_values=find, dict_assigns=dict_assigns)
    return Setup(env={"self": self, "node": node}, calls=ast_calls(), consts=HELPER_CONSTS,
                 inline=inl("ast_is_call_with_value", "ast_is_kwargs_pop_or_get", "ast_get_constant_value", "ast_is_constant"),
                 data=dict(two=two, shape=shape, node=node, vkey=vkey, d_assign=d_assign, selfd_assign=selfd_assign, snapshot=dump(node), attr_value=attr_value))


def vc_post(ctx, st, result):
    d = st.data
    shape = d["shape"]
    tag = f"[{shape};{'2 values' if d['two'] else '1 value'};value:{'self.stored' if d['attr_value'] else 'kwargs'}]"
    added = [(e[1], e[2]) for e in ctx.events if e[0] == "add_value"]
    visited = [e[1] for e in ctx.events if e[0] == "generic_visit"]
    if shape in ("f(**v)", "f(*v)", "f(k=v)", "obj.m(**v)", "v.pop('n', 1)", "v.get('n', None)"):
        want = [(d["vkey"], d["node"])]
        words = "a-call-that-passes-the-value(starred,unpacked,as-a-keyword)-or-pops/gets-a-named-entry-from-it-is-one-use-of-that-value,reported-with-the-call-node"
    elif shape == "d.update(**v)[d remembered]":
        want = [(d["vkey"], d["d_assign"])]
        words = "a-method-call-on-a-remembered-dict-that-passes-the-value-is-reported-as-a-use-at-the-dict's-assignment(d = dict(..); d.update(**kwargs))"
    elif shape == "self.d.update(**v)[self.d remembered]":
        # the receiver `self.d` is an Attribute: the remembered assignment is the one stored under its loaded form
        want = [(d["vkey"], d["selfd_assign"])]
        words = "a-method-call-on-a-remembered-dict-attribute-that-passes-the-value-is-reported-at-that-attribute's-assignment(self.d = dict(..); self.d.update(**kwargs))"
    else:
        want = []
        words = "a-call-that-does-not-pass-the-value(plain positional use,another variable,pop without default,non-constant name,other method)-is-no-use"
    ctx.oblige("post", words + tag, len(added) == len(want) and all(a[0] == b[0] and a[1] is b[1] for a, b in zip(added, want)), note=f"want {[(k, getattr(n, 'attrs', {}).get('tag', 'node')) for k, n in want]} got {[(k, getattr(n, 'attrs', {}).get('tag', 'node')) for k, n in added]}")
    ctx.oblige("post", "the-call's-children-are-always-searched,once(a forwarding call may be nested in an argument)" + tag, len(visited) == 1 and visited[0] is d["node"])
    ctx.oblige("frame", "the-tree-is-not-modified" + tag, dump(d["node"]) == d["snapshot"])


# ------------------------------------------------------------------------------------------------ visit_If
IF_TESTS = ["GLOBAL", "not GLOBAL", "local_name", "not local_name", "a == b", "not (a == b)", "obj.flag"]


def vi_setup(ctx):
    ast_classes(ctx)
    test_kind = IF_TESTS[ctx.choose(len(IF_TESTS), "test")]
    gval = z3.Int("value-of-GLOBAL")
    comp = N("Compare", left=name("a"), right=name("b"))
    test = {"GLOBAL": lambda: name("GLOBAL"), "not GLOBAL": lambda: N("UnaryOp", op=N("Not"), operand=name("GLOBAL")),
            "local_name": lambda: name("flag"), "not local_name": lambda: N("UnaryOp", op=N("Not"), operand=name("flag")),
            "a == b": lambda: comp, "not (a == b)": lambda: N("UnaryOp", op=N("Not"), operand=comp), "obj.flag": lambda: attribute(name("GLOBAL"), "flag")}[test_kind]()
    has_else = ctx.choose(2, "has-else") == 1
    body, orelse = [N("Expr", value=call(name("first"), [], [kw(None, name("kwargs"))]))], ([N("Expr", value=call(name("second"), [], [kw(None, name("kwargs"))]))] if has_else else [])
    node = N("If", test=test, body=body, orelse=orelse)
    self = visitor()
    self.methods["get_component_globals"] = lambda c, s_, a, k: {"GLOBAL": gval, "OTHER": 1}
    return Setup(env={"self": self, "node": node}, calls=ast_calls(), consts=HELPER_CONSTS, inline=inl("ast_is_not"),
                 data=dict(test_kind=test_kind, gval=gval, node=node, body=body, orelse=orelse, has_else=has_else, snapshot=dump(node)), watch={"GLOBAL": gval})


def vi_post(ctx, st, result):
    d = st.data
    tag = f"[if {d['test_kind']};{'else' if d['has_else'] else 'no else'}]"
    visited = [e[1] for e in ctx.events if e[0] == "generic_visit"]
    ctx.oblige("post", "exactly-one-search-below-the-if" + tag, len(visited) == 1)
    if len(visited) != 1:
        return
    seen = visited[0]
    if d["test_kind"] in ("GLOBAL", "not GLOBAL"):
        truthy = d["gval"] != 0
        runs_body = truthy if d["test_kind"] == "GLOBAL" else z3.Not(truthy)
        is_if = isinstance(seen, Rec) and seen.cls == "If" and seen is not d["node"]
        ctx.oblige("post", "a-test-on-a-module-level-constant-is-decided-now:only-the-arm-that-will-run-is-searched(the other arm's callee never receives the value)" + tag,
                   z3.If(runs_body, same_list(seen.attrs["body"], d["body"]), same_list(seen.attrs["body"], d["orelse"])) if is_if else False)
        ctx.oblige("post", "nothing-of-the-arm-that-does-not-run-is-searched:the-node-searched-has-no-else-and-a-constant-test" + tag,
                   is_if and seen.attrs.get("orelse") == [] and isinstance(seen.attrs.get("test"), Rec) and seen.attrs["test"].cls == "Constant")
    else:
        ctx.oblige("post", "a-test-that-cannot-be-decided(local name,expression,attribute)-keeps-both-arms:the-if-itself-is-searched(union of the arms,first arm first)" + tag, seen is d["node"])
    ctx.oblige("frame", "the-tree-is-not-modified" + tag, dump(d["node"]) == d["snapshot"] and d["node"].attrs["body"] is d["body"] and d["node"].attrs["orelse"] is d["orelse"])


# ------------------------------------------------------------------------------------------------ visit_Import / visit_ImportFrom
def vim_setup(ctx):
    ast_classes(ctx)
    n = 1 + ctx.choose(2, "n-aliases")
    aliases, binds = [], []
    for i in range(n):
        nm = z3.String(f"name{i}")
        ctx.assume(z3.Length(nm) > 0)
        if ctx.choose(2, f"alias{i}-has-asname") == 1:
            asn = z3.String(f"asname{i}")
            ctx.assume(z3.Length(asn) > 0)
            aliases.append(N("alias", name=nm, asname=asn))
            binds.append(asn)
        else:
            aliases.append(N("alias", name=nm, asname=None))
            binds.append(nm)
    node = N("Import", names=aliases)
    store = []
    names = Rec("dict", methods={"__setitem__": lambda c, s_, a, k: store.append((a[0], a[1]))})
    self = visitor(import_names=names)
    self.methods["visit_Import"] = lambda c, s_, a, k: c.event("visit_Import", a[0])
    return Setup(env={"self": self, "node": node}, consts=HELPER_CONSTS, data=dict(node=node, binds=binds, store=store, n=n))


def vim_post(ctx, st, result):
    d = st.data
    ok = len(d["store"]) == d["n"] and all(v is d["node"] for _, v in d["store"])
    ctx.oblige("post", "every-alias-is-remembered-once,with-the-import-statement", ok)
    if ok:
        ctx.oblige("post", "under-the-name-it-binds:`import a as b`/`from m import a as b`-bind-b,otherwise-a",
                   z3.And(*[(k == b) if is_z3(k) else z3.BoolVal(False) for (k, _), b in zip(d["store"], d["binds"])]))
    ctx.oblige("post", "an-import-contains-no-use:nothing-is-searched-or-reported", not ctx.events)


def vif_post(ctx, st, result):
    ev = list(ctx.events)
    ctx.oblige("post", "`from m import a`-is-remembered-exactly-as-`import a`", len(ev) == 1 and ev[0][0] == "visit_Import" and ev[0][1] is st.data["node"] and not st.data["store"])


# ------------------------------------------------------------------------------------------------ add_value
FUNC_SHAPES = ["name(..)", "name.attr(..)", "name.a.b(..)", "f()(..)", "not-a-call:assignment"]


def av_setup(ctx):
    ast_classes(ctx)
    shape = FUNC_SHAPES[ctx.choose(len(FUNC_SHAPES), "node")]
    nm = z3.String("first-name-of-the-callee")
    ctx.assume(z3.Length(nm) > 0)
    at = z3.String("attribute-of-the-callee")
    ctx.assume(z3.Length(at) > 0)
    func = {"name(..)": lambda: name(nm), "name.attr(..)": lambda: attribute(name(nm), at), "name.a.b(..)": lambda: attribute(attribute(name(nm), "a"), at),
            "f()(..)": lambda: call(name(nm)), "not-a-call:assignment": lambda: None}[shape]()
    node = call(func, [], [kw(None, name("kwargs"))]) if func is not None else N("Assign", targets=[name(nm, STORE())], value=name("kwargs"))
    imports = SymMap(ctx, "import_names", z3.StringSort(), z3.IntSort())
    import_names = Rec("dict", methods={"__contains__": lambda c, s_, a, k: imports.has(lift(a[0])), "__getitem__": lambda c, s_, a, k: imports.get(lift(a[0]))})
    earlier = ("earlier-key", Rec("earlier node"), None)
    found = [earlier]
    key = z3.String("key")
    self = Rec("ParametersVisitor", attrs={"import_names": import_names, "values_found": found})
    return Setup(env={"self": self, "key": key, "node": node}, consts=HELPER_CONSTS, data=dict(shape=shape, nm=nm, node=node, imports=imports, found=found, earlier=earlier, key=key))


def av_post(ctx, st, result):
    d = st.data
    tag = f"[{d['shape']}]"
    found = d["found"]
    ok = len(found) == 2 and found[0] is d["earlier"] and isinstance(found[1], tuple) and len(found[1]) == 3
    ctx.oblige("post", "exactly-one-finding-is-appended;earlier-findings-are-kept-in-order" + tag, ok)
    if not ok:
        return
    k, n, src = found[1]
    ctx.oblige("post", "it-carries-the-key-and-the-node-given" + tag, z3.And(k == d["key"]) if is_z3(k) else False)
    ctx.oblige("post", "it-carries-the-node-given" + tag, n is d["node"])
    if d["shape"] in ("name(..)", "name.attr(..)"):
        imported = d["imports"].has(d["nm"])
        if src is None:
            ctx.oblige("post", "the-call-starts-with-a-name-bound-by-a-local-import=>the-source-is-that-import-statement" + tag, z3.Not(imported))
        else:
            ctx.oblige("post", "the-source-is-the-local-import-statement-that-binds-the-name-the-call-starts-with,and-only-then" + tag, z3.And(imported, src == d["imports"].get(d["nm"])) if is_z3(src) else False)
    else:
        ctx.oblige("post", "a-node-that-is-no-call(or whose callee does not start with name / name.attr)-has-no-source" + tag, src is None)


# ------------------------------------------------------------------------------------------------ find_values_usage
def fvu_setup(ctx):
    comp_node = Rec("FunctionDef")
    old = dict(find_values={"old": 1}, values_found=[("old", None, None)], dict_assigns={"old": 1}, import_names={"old": 1})
    first_search = ctx.choose(2, "a-search-was-made-before") == 0
    self = Rec("ParametersVisitor", attrs=dict(component_node=comp_node, **({} if first_search else dict(old))))
    seen = {}

    def visit(c, s_, a, k):
        seen.update(node=a[0], state={n: s_.attrs.get(n) for n in ("find_values", "values_found", "dict_assigns", "import_names")})
        for n in ("values_found", "dict_assigns", "import_names"):
            if n not in s_.attrs:  # the visit methods read these attributes
                raise PyRaise(ExcVal("AttributeError", args=(n,), origin="visit: self." + n))
        s_.attrs["values_found"].append(("kwargs", Rec("Call"), None))
        s_.attrs["dict_assigns"]["x"] = 1
        s_.attrs["import_names"]["y"] = 2

    self.methods["visit"] = visit
    values = {"kwargs": Rec("Name")}
    return Setup(env={"self": self, "values": values}, data=dict(self_=self, comp_node=comp_node, seen=seen, values=values, old=old, first_search=first_search))


def fvu_post(ctx, st, result):
    d = st.data
    s = d["seen"].get("state") or {}
    tag = f"[{'first search' if d['first_search'] else 'second search'}]"
    ctx.oblige("post", "the-component's-node-is-visited-once,searching-for-the-values-given" + tag, d["seen"].get("node") is d["comp_node"] and s.get("find_values") is d["values"])
    ctx.oblige("post", "a-search-starts-from-empty-findings,dict-assignments-and-imports:objects-of-their-own(nothing of an earlier search - another member's body - is carried over)" + tag,
               all(isinstance(s.get(n), t) and s.get(n) is not d["old"][n] for n, t in (("values_found", list), ("dict_assigns", dict), ("import_names", dict)))
               and d["old"]["values_found"] == [("old", None, None)] and d["old"]["dict_assigns"] == {"old": 1} and d["old"]["import_names"] == {"old": 1}
               and isinstance(result, list) and len(result) == 1)
    ctx.oblige("post", "the-result-is-what-the-visit-found" + tag, result is d["self_"].attrs.get("values_found") and isinstance(result, list) and len(result) == 1 and result[0][0] == "kwargs")


def vc_raises(ctx, st, exc):
    ctx.oblige("raises", f"a-call-that-is-no-use-must-not-abort-the-search-of-the-body(got {exc.cls}@{exc.origin})[{st.data['shape']}]", False)


VISITOR_TRUST = "ast.NodeVisitor: visit(node) calls visit_<Class>(node) when defined, else generic_visit(node), which visits the child nodes in field order (source order)"


def units_visitor(prop):
    return [
        Unit(prop, PV + "visit_Assign", va_setup, va_post, never, max_paths=4000, trusted=[AST_TRUST, VISITOR_TRUST, "add_value: its own unit"]),
        Unit(prop, PV + "visit_AnnAssign", vaa_setup, vaa_post, never, trusted=["visit_Assign: its own unit"]),
        Unit(prop, PV + "visit_Call", vc_setup, vc_post, vc_raises, max_paths=4000, trusted=[AST_TRUST, VISITOR_TRUST, "add_value: its own unit"]),
        Unit(prop, PV + "visit_If", vi_setup, vi_post, never, trusted=[AST_TRUST, VISITOR_TRUST, "get_component_globals: the globals of the module that defines the component (the namespace the test is evaluated in at run time)"]),
        Unit(prop, PV + "visit_Import", vim_setup, vim_post, never, trusted=["ast.alias: asname is None or a non-empty identifier; name is non-empty"]),
        Unit(prop, PV + "visit_ImportFrom", vim_setup, vif_post, never, trusted=["visit_Import: its own unit"]),
        Unit(prop, PV + "add_value", av_setup, av_post, never, trusted=["identifiers are non-empty strings"]),
        Unit(prop, PV + "find_values_usage", fvu_setup, fvu_post, never, trusted=[VISITOR_TRUST]),
    ]




# ============================================================================================================ which callee receives the value
# ------------------------------------------------------------------------------------------------ get_node_component
NC_FORMS = ["f(..)[module global]", "f(..)[local import only]", "f(..)[module global shadowed by a local import]", "f(..)[unknown,no import]", "f(..)[local import fails]",
            "SELF(..)", "SELF.m(..)", "K.m(..)[class in module]", "K.m(..)[class imported locally]", "K.m(..)[module class shadowed by a local import]", "obj.f(..)[module object with f]",
            "obj.f(..)[module object without f]", "unknown.f(..)", "a.b.f(..)", "f()(..)"]


def gnc_setup(ctx):
    ast_classes(ctx)
    context = ["function", "method", "classmethod"][ctx.choose(3, "component-is-a")]
    form = NC_FORMS[ctx.choose(len(NC_FORMS), "callee")]
    parent = Rec("class Parent") if context != "function" else None
    self_name = {"function": None, "method": "self", "classmethod": "cls"}[context]
    sname = self_name or "self"
    F, Fimp, K, Kimp, OBJF = Rec("function f of the module"), Rec("function f imported locally"), Rec("class K of the module"), Rec("class K imported locally"), Rec("obj.f")
    OBJ = Rec("module-level object")
    mod_attrs = {}
    if "module global" in form:
        mod_attrs["f"] = F
    if "class in module" in form or "module class" in form:
        mod_attrs["K"] = K
    if form.startswith("obj.f"):
        mod_attrs["obj"] = OBJ
        if "with f" in form:
            OBJ.attrs["f"] = OBJF
    module = Rec("module", attrs=mod_attrs)
    has_source = "local import" in form or "imported locally" in form
    source = N("ImportFrom", module="elsewhere", names=[N("alias", name="x", asname=None)]) if has_source else None
    builders = [("f(..)", lambda: name("f")), ("SELF(..)", lambda: name(sname)), ("SELF.m", lambda: attribute(name(sname), "m")), ("K.m", lambda: attribute(name("K"), "m")), ("obj.f", lambda: attribute(name("obj"), "f")),
                ("unknown.f", lambda: attribute(name("unknown"), "f")), ("a.b.f", lambda: attribute(attribute(name("a"), "b"), "f")), ("f()(..)", lambda: call(name("f")))]
    func = next(b for pfx, b in builders if form.startswith(pfx))()
    node = call(func, [], [kw(None, name("kwargs"))])
    component = Rec("component")

    def from_source(c, s_, a, k):
        c.event("from-source", a[0], a[1])
        if "fails" in form:
            return None
        return {"f": Fimp, "K": Kimp}.get(a[0])

    self = visitor(component=component, parent=parent, self_name=self_name)
    self.methods["get_component_from_source"] = from_source
    calls = dict(ast_calls())
    calls.update({"inspect.getmodule": lambda c, a, k: (c.event("getmodule", a[0]), module)[1], "is_classmethod": lambda c, a, k: (c.event("is_classmethod", a[0], a[1]), context == "classmethod")[1],
                  "inspect.isclass": lambda c, a, k: isinstance(a[0], Rec) and a[0].cls.startswith("class "), "ast_str": lambda c, a, k: "text"})
    return Setup(env={"self": self, "node": node, "source": source}, calls=calls, consts=HELPER_CONSTS, inline=inl("ast_variable_load"),
                 data=dict(context=context, form=form, parent=parent, F=F, Fimp=Fimp, K=K, Kimp=Kimp, OBJF=OBJF, component=component, source=source, node=node, snapshot=dump(node)))


def gnc_post(ctx, st, result):
    d = st.data
    form, context = d["form"], d["context"]
    tag = f"[{form};in a {context}]"
    want = None
    words = "a-callee-that-cannot-be-determined-statically(unknown name,failed import,instance call,chained attribute,call result)-is-not-followed:None"
    if form == "f(..)[module global]":
        want, words = (d["F"], None), "f(..)-calls-the-module's-f"
    elif form in ("f(..)[local import only]", "f(..)[module global shadowed by a local import]"):
        want, words = (d["Fimp"], None), "f(..)-after-a-local-`from x import f`-calls-the-imported-f(a local import shadows the module's name)"
    elif form == "SELF(..)" and context == "classmethod":
        want, words = (d["parent"], None), "cls(..)-in-a-classmethod-instantiates-the-class"
    elif form == "SELF.m(..)" and context != "function":
        want, words = (d["parent"], "m"), "self.m(..)/cls.m(..)-calls-method-m-of-the-class"
    elif form == "K.m(..)[class in module]":
        want, words = (d["K"], "m"), "K.m(..)-with-a-class-K-of-the-module-calls-K's-m"
    elif form in ("K.m(..)[class imported locally]", "K.m(..)[module class shadowed by a local import]"):
        want, words = (d["Kimp"], "m"), "K.m(..)-after-a-local-import-of-K-calls-the-imported-K's-m"
    elif form == "obj.f(..)[module object with f]":
        want, words = (d["OBJF"], None), "obj.f(..)-with-a-module-level-object(or module)-calls-its-attribute-f"
    if want is None:
        ctx.oblige("post", words + tag, result is None)
        ctx.oblige("post", "an-unresolved-callee-is-logged-once" + tag, len([e for e in ctx.events if e[0] == "log"]) == 1)
    else:
        ctx.oblige("post", words + tag, isinstance(result, tuple) and len(result) == 2 and result[0] is want[0] and result[1] == want[1])
    gm = [e for e in ctx.events if e[0] == "getmodule"]
    ctx.oblige("post", "names-are-looked-up-in-the-module-that-defines-the-component" + tag, all(e[1] is d["component"] for e in gm) and len(gm) == 1)
    fs = [e for e in ctx.events if e[0] == "from-source"]
    ctx.oblige("post", "a-local-import-is-consulted-only-with-the-statement-that-binds-the-first-name-of-the-callee" + tag, all(e[2] is d["source"] and e[1] == form[0] for e in fs) and (not fs or d["source"] is not None))
    ctx.oblige("frame", "the-tree-is-not-modified" + tag, dump(d["node"]) == d["snapshot"])


# ------------------------------------------------------------------------------------------------ get_component_from_source
def gcfs_setup(ctx):
    ast_classes(ctx)
    fate = ["binds-the-name", "binds-another-name-only", "ImportError", "ModuleNotFoundError", "AttributeError", "SyntaxError", "RuntimeError"][ctx.choose(7, "executing-the-import")]
    has_logger = ctx.choose(2, "logger") == 1
    source = N("ImportFrom", module="elsewhere", names=[N("alias", name="foo", asname=None)])
    obj, other = Rec("the imported object"), Rec("another object")
    tree = Rec("Module", attrs={"body": [], "type_ignores": []})

    def do_exec(c, a, k):
        code, g, l = a[0], a[1], a[2] if len(a) > 2 else a[1]
        c.event("exec", code, g, l)
        if fate == "binds-the-name":
            l.update({"foo": obj, "bar": other})
        elif fate == "binds-another-name-only":
            l["bar"] = other
        else:
            raise PyRaise(ExcVal(fate, args=("cannot import",), origin="exec"))

    calls = {"ast.parse": lambda c, a, k: (c.event("parse", a[0]), tree)[1], "compile": lambda c, a, k: ("code", a[0], list(a[0].attrs["body"]), k.get("mode")), "exec": do_exec, "ast_str": lambda c, a, k: "text"}
    self = visitor(logger=Rec("logger") if has_logger else None)
    return Setup(env={"self": self, "name": "foo", "source": source}, calls=calls, consts=HELPER_CONSTS, data=dict(fate=fate, source=source, obj=obj, tree=tree, has_logger=has_logger))


def gcfs_post(ctx, st, result):
    d = st.data
    tag = f"[{d['fate']};{'logger' if d['has_logger'] else 'no logger'}]"
    ex = [e for e in ctx.events if e[0] == "exec"]
    ok = len(ex) == 1 and ex[0][1][0] == "code" and ex[0][1][1] is d["tree"] and len(ex[0][1][2]) == 1 and ex[0][1][2][0] is d["source"] and ex[0][1][3] == "exec"
    ctx.oblige("post", "exactly-the-import-statement-given-is-executed(a module whose only statement it is),once" + tag, ok)
    ctx.oblige("post", "it-runs-in-a-fresh-namespace-of-its-own(nothing of the library or the user's module is visible or overwritten)" + tag,
               len(ex) == 1 and isinstance(ex[0][2], dict) and ex[0][2] is ex[0][3] and set(ex[0][2]) <= {"foo", "bar"})
    if d["fate"] == "binds-the-name":
        ctx.oblige("post", "the-object-the-import-binds-under-the-name-is-returned" + tag, result is d["obj"])
    else:
        ctx.oblige("post", "an-import-that-fails(for whatever reason)-or-does-not-bind-the-name-gives-None" + tag, result is None)


def gcfs_raises(ctx, st, exc):
    ctx.oblige("raises", f"a-failing-local-import-never-escapes(got {exc.cls}@{exc.origin})[{st.data['fate']}]", False)


# ------------------------------------------------------------------------------------------------ match_call_that_uses_attr
MC_FORMS = ["f(**self.stored)", "f(1, k=2, **self.stored)", "f(k=self.stored)", "f(self.stored)", "f(**self.other)", "f(**stored)", "not-a-call:assignment"]


def mc_setup(ctx):
    ast_classes(ctx)
    form = MC_FORMS[ctx.choose(len(MC_FORMS), "node")]
    known = ctx.choose(2, "callee-known") == 1
    sig_ok = ctx.choose(2, "its-signature-resolves") == 1 if known else True
    sv = lambda a="stored": attribute(name("self"), a)  # noqa: E731
    node = {"f(**self.stored)": lambda: call(name("f"), [], [kw(None, sv())]), "f(1, k=2, **self.stored)": lambda: call(name("f"), [const(1)], [kw("k", const(2)), kw(None, sv())]),
            "f(k=self.stored)": lambda: call(name("f"), [], [kw("k", sv())]), "f(self.stored)": lambda: call(name("f"), [sv()], []), "f(**self.other)": lambda: call(name("f"), [], [kw(None, sv("other"))]),
            "f(**stored)": lambda: call(name("f"), [], [kw(None, name("stored"))]), "not-a-call:assignment": lambda: N("Assign", targets=[name("t", STORE())], value=sv())}[form]()
    comp_args = (Rec("class Callee"), "method")
    sig_params = [Rec("ParamData", attrs={"name": "p0"}), Rec("ParamData", attrs={"name": "k"})]
    remaining = [sig_params[0]]
    logger, source = Rec("logger"), Rec("source")
    self = visitor(self_name="self", logger=logger)
    self.methods["get_node_component"] = lambda c, s_, a, k: (c.event("node-component", a[0], a[1]), comp_args if known else None)[1]

    def gsp(c, a, k):
        c.event("signature", tuple(a), dict(k))
        if not sig_ok:
            raise PyRaise(ExcVal("ValueError", args=("no source",), origin="get_signature_parameters"))
        return sig_params

    def rgp(c, a, k):
        c.event("remove-given", a[0], a[1], len(a))
        return remaining if a[1] is sig_params else list(a[1])

    calls = dict(ast_calls())
    calls.update({"get_signature_parameters": gsp, "remove_given_parameters": rgp, "ast_str": lambda c, a, k: "text"})
    return Setup(env={"self": self, "node": node, "source": source, "attr_name": "stored"}, calls=calls, consts=HELPER_CONSTS, inline=inl("ast_attribute_load", "ast_variable_load", "ast_get_call_kwarg_with_value"),
                 data=dict(form=form, known=known, sig_ok=sig_ok, node=node, comp_args=comp_args, sig_params=sig_params, remaining=remaining, logger=logger, source=source, snapshot=dump(node)))


def mc_post(ctx, st, result):
    d = st.data
    form = d["form"]
    tag = f"[{form};callee {'known' if d['known'] else 'unknown'};signature {'ok' if d['sig_ok'] else 'fails'}]"
    sig = [e for e in ctx.events if e[0] == "signature"]
    nc = [e for e in ctx.events if e[0] == "node-component"]
    if form == "not-a-call:assignment":
        ctx.oblige("post", "a-use-of-the-attribute-that-is-no-call-is-no-match(None):nothing-is-resolved" + tag, result is None and not sig and not nc)
        return
    forwards = form in ("f(**self.stored)", "f(1, k=2, **self.stored)")
    if forwards and d["known"] and d["sig_ok"]:
        rg = [e for e in ctx.events if e[0] == "remove-given"]
        ctx.oblige("post", "a-call-that-unpacks-**self.attr-contributes-the-parameters-of-the-callee-of-that-very-call(get_node_component of the node and its import),resolved-with-the-visitor's-logger" + tag,
                   len(nc) == 1 and nc[0][1] is d["node"] and nc[0][2] is d["source"] and len(sig) == 1 and len(sig[0][1]) == 2 and sig[0][1][0] is d["comp_args"][0] and sig[0][1][1] == "method" and sig[0][2].get("logger") is d["logger"] and set(sig[0][2]) == {"logger"})
        ctx.oblige("post", "minus-what-the-call-hard-codes(remove_given_parameters of this node over the callee's parameters)" + tag, result is d["remaining"] and len(rg) == 1 and rg[0][1] is d["node"] and rg[0][2] is d["sig_params"])
    else:
        ctx.oblige("post", "every-other-call(attribute given as a keyword value or positionally,another attribute,a local of that name,unknown callee,unresolvable signature)-contributes-nothing:an-empty-list" + tag, result == [] and isinstance(result, list))
        ctx.oblige("post", "a-callee-is-resolved-only-for-a-call-that-unpacks-**self.attr" + tag, (not nc and not sig) if not forwards else (len(nc) == 1 and len(sig) == (1 if d["known"] else 0)))
    ctx.oblige("frame", "the-tree-is-not-modified" + tag, dump(d["node"]) == d["snapshot"])


def mc_raises(ctx, st, exc):
    ctx.oblige("raises", f"a-callee-whose-signature-cannot-be-resolved-contributes-nothing,it-does-not-abort(got {exc.cls}@{exc.origin})", False)


# ------------------------------------------------------------------------------------------------ get_parameters_attr_use_in_members
MEMBER_KINDS = ["method", "property", "staticmethod", "classmethod", "cython-method", "class-attribute"]


def member_obj(kind):
    cls = {"method": "function", "property": "property", "staticmethod": "staticmethod", "classmethod": "classmethod", "cython-method": "cython_function_or_method", "class-attribute": "int"}[kind]
    return Rec(cls, attrs={"__class__": Rec("type", attrs={"__name__": cls})})


def aum_setup(ctx):
    ast_classes(ctx)
    n = ctx.choose(3, "n-members")
    names = [z3.String(f"member{i}") for i in range(n)]
    kinds = [MEMBER_KINDS[ctx.choose(len(MEMBER_KINDS), f"member{i}-is-a")] for i in range(n)]
    uses = [ctx.choose(2, f"member{i}-forwards-self.attr") == 1 if kinds[i] in ("method", "property", "cython-method") else False for i in range(n)]
    objs = [member_obj(k) for k in kinds]
    results = [[Rec("ParamData", attrs={"name": f"from-member{i}"})] for i in range(n)]
    parent, logger = Rec("class Parent"), Rec("logger")
    created = []

    def idx_of(term):
        return next(i for i, t in enumerate(names) if t is term or (is_z3(term) and t.eq(term)))

    def new_visitor(c, a, k):
        i = idx_of(a[1])
        created.append((i, a[0], dict(k)))
        return Rec("ParametersVisitor", methods={"get_parameters_call_attr": lambda c2, s_, a2, k2: (c2.event("call-attr", i, a2[0], a2[1]), results[i] if uses[i] else None)[1]})

    calls = dict(ast_calls())
    calls.update({"inspect.getmembers": lambda c, a, k: (c.event("getmembers", a[0]), [(names[i], Rec("bound member")) for i in range(n)])[1],
                  "inspect.getattr_static": lambda c, a, k: (c.event("getattr_static", a[0]), objs[idx_of(a[1])])[1],
                  "inspect.isfunction": lambda c, a, k: isinstance(a[0], Rec) and a[0].cls == "function", "ParametersVisitor": new_visitor})
    self = visitor(self_name="self", parent=parent, logger=logger, component=Rec("component (__init__)"))
    return Setup(env={"self": self, "attr_name": "stored"}, calls=calls, consts=HELPER_CONSTS, inline=inl("ast_attribute_load", "is_method_or_property", "is_method", "is_property", "is_staticmethod"),
                 data=dict(n=n, names=names, kinds=kinds, uses=uses, results=results, parent=parent, logger=logger, created=created), watch={f"member{i}": names[i] for i in range(n)})


def aum_post(ctx, st, result):
    d = st.data
    n = d["n"]
    tag = f"[{[(k, 'forwards' if u else '-') for k, u in zip(d['kinds'], d['uses'])]}]"
    public = [z3.Not(z3.PrefixOf(z3.StringVal("__"), nm)) for nm in d["names"]]
    searchable = [k in ("method", "property", "cython-method") for k in d["kinds"]]
    wins = [z3.And(public[i]) if (searchable[i] and d["uses"][i]) else z3.BoolVal(False) for i in range(n)]
    winner = z3.IntVal(-1)
    for i in reversed(range(n)):
        winner = z3.If(wins[i], z3.IntVal(i), winner)
    got = next((i for i in range(n) if result is d["results"][i]), -1)
    ctx.oblige("post", "the-parameters-are-those-found-in-the-first-public(no leading __)-method-or-property-of-the-class,in-member-order,whose-body-forwards-self.attr;none=>empty-list" + tag,
               z3.And(winner == got, z3.BoolVal(got >= 0 or (isinstance(result, list) and result == []))))
    created_idx = [c[0] for c in d["created"]]
    ctx.oblige("post", "members-are-searched-in-order,each-at-most-once,stopping-at-the-first-that-forwards-the-attribute;private(__x)-members,static/class-methods-and-plain-attributes-are-not-searched" + tag,
               z3.And(z3.BoolVal(created_idx == sorted(set(created_idx))), *[z3.BoolVal(i in created_idx) == z3.And(z3.BoolVal(searchable[i]), public[i], z3.Or(winner == -1, winner >= i)) for i in range(n)]))
    ctx.oblige("post", "each-is-searched-by-a-visitor-of(the same class,that member,the same logger)" + tag, all(c[1] is d["parent"] and c[2].get("logger") is d["logger"] and set(c[2]) == {"logger"} for c in d["created"]))
    ca = [e for e in ctx.events if e[0] == "call-attr"]
    ctx.oblige("post", "asked-for-the-uses-of-exactly-self.<attr>(the attribute loaded from the method's own self)" + tag,
               [e[1] for e in ca] == created_idx and all(e[2] == "stored" and dump(e[3]) == dump(attribute(name("self"), "stored")) for e in ca))
    ctx.oblige("post", "the-members-are-those-of-the-class-being-resolved" + tag, all(e[1] is d["parent"] for e in ctx.events if e[0] in ("getmembers", "getattr_static")))
    ctx.oblige("post", "when-no-member-uses-the-attribute-this-is-logged" + tag, z3.BoolVal(len([e for e in ctx.events if e[0] == "log"]) == (1 if got < 0 else 0)))


# ------------------------------------------------------------------------------------------------ parse_source_tree
PST = ["already-parsed", "function", "method", "method-without-arguments", "source-not-available(OSError)", "builtin(TypeError)", "syntax-error-after-dedent", "two-statements", "lambda-expression-statement"]


def pst_setup(ctx):
    ast_classes(ctx)
    case = PST[ctx.choose(len(PST), "case")]
    has_parent = case in ("method", "method-without-arguments") or (case not in ("function",) and ctx.choose(2, "inside-a-class") == 1)
    fdef = N("FunctionDef", name="f", args=N("arguments", args=[N("arg", arg="this")] if case != "method-without-arguments" else [], vararg=None, kwarg=None))
    body = {"two-statements": [fdef, N("Expr", value=const(1))], "lambda-expression-statement": [Rec("Expr", attrs={"value": N("Lambda")}, methods={"__getattr__": lambda c, s_, a, k: (_ for _ in ()).throw(PyRaise(ExcVal("AttributeError", args=(a[0],), origin="Expr." + a[0])))})]}.get(case, [fdef])
    tree = Rec("Module", attrs={"body": body})
    component = Rec("component")
    old_node = Rec("FunctionDef", attrs={"tag": "parsed earlier"})
    self = visitor(component=component, parent=Rec("class Parent") if has_parent else None)
    if case == "already-parsed":
        self.attrs.update(component_node=old_node, self_name="earlier-self")

    def getsource(c, a, k):
        c.event("getsource", a[0])
        if case.startswith("source-not-available"):
            raise PyRaise(ExcVal("OSError", args=("could not get source code",), origin="inspect.getsource"))
        if case.startswith("builtin"):
            raise PyRaise(ExcVal("TypeError", args=("is a built-in",), origin="inspect.getsource"))
        return "    indented source"

    def parse(c, a, k):
        c.event("parse", a[0])
        if case == "syntax-error-after-dedent":
            raise PyRaise(ExcVal("SyntaxError", origin="ast.parse"))
        return tree

    calls = {"inspect.getsource": getsource, "textwrap.dedent": lambda c, a, k: ("dedented", a[0]), "ast.parse": parse}
    return Setup(env={"self": self}, calls=calls, consts=HELPER_CONSTS, data=dict(case=case, has_parent=has_parent, fdef=fdef, self_=self, component=component, old_node=old_node))


def pst_post(ctx, st, result):
    d = st.data
    a = d["self_"].attrs
    tag = f"[{d['case']};{'in a class' if d['has_parent'] else 'no class'}]"
    if d["case"] == "already-parsed":
        ctx.oblige("post", "a-component-is-parsed-once:a-second-call-reads-nothing-and-keeps-node-and-self-name" + tag, a.get("component_node") is d["old_node"] and a.get("self_name") == "earlier-self" and not ctx.events)
        return
    ok_case = d["case"] in ("function", "method") or (d["case"] == "lambda-expression-statement")
    ctx.oblige("post", "only-a-source-that-parses-to-exactly-one-statement-is-accepted" + tag, ok_case)
    ctx.oblige("post", "the-node-is-the-only-statement-of-the-dedented-source-of-the-component" + tag,
               a.get("component_node") is (d["fdef"] if d["case"] != "lambda-expression-statement" else a.get("component_node")) and [e for e in ctx.events if e[0] == "getsource"][0][1] is d["component"]
               and [e for e in ctx.events if e[0] == "parse"][0][1] == ("dedented", "    indented source"))
    ctx.oblige("post", "self_name-is-the-first-argument-of-a-member(self / cls as the author spelled it),None-for-a-plain-function" + tag, a.get("self_name") == ("this" if d["has_parent"] else None) and "self_name" in a)


def pst_raises(ctx, st, exc):
    d = st.data
    tag = f"[{d['case']};{'in a class' if d['has_parent'] else 'no class'}]"
    ctx.oblige("raises", f"every-failure-to-obtain-the-node-is-SourceNotAvailable(got {exc.cls}@{exc.origin})" + tag, exc.cls == "SourceNotAvailable")
    expected = d["case"] in ("source-not-available(OSError)", "builtin(TypeError)", "syntax-error-after-dedent", "two-statements", "method-without-arguments") or (d["case"] == "lambda-expression-statement" and d["has_parent"])
    ctx.oblige("raises", "it-is-raised-only-when-the-source-is-missing,does-not-parse,is-not-one-statement-or-a-member-has-no-self-argument" + tag, expected)
    ctx.oblige("raises", "a-failed-parse-leaves-no-self_name-without-node-pretending-success" + tag, not ("self_name" in d["self_"].attrs and "component_node" not in d["self_"].attrs))


# ------------------------------------------------------------------------------------------------ small visitor methods
def gno_setup(ctx):
    line = z3.Int("lineno")
    ctx.assume(line >= 1)
    origin = z3.String("origin-of-component")
    comp, parent = Rec("component"), Rec("parent")
    self = visitor(component=comp, parent=parent)
    calls = {"get_parameter_origins": lambda c, a, k: (c.event("origins", a[0], a[1]), origin)[1]}
    return Setup(env={"self": self, "node": N("Call", lineno=line)}, calls=calls, data=dict(line=line, origin=origin, comp=comp, parent=parent))


def gno_post(ctx, st, result):
    d = st.data
    ev = [e for e in ctx.events if e[0] == "origins"]
    ctx.oblige("post", "the-origin-of-a-node-is-<origin of (component, parent)>:<line of the node>", z3.And(result == z3.Concat(d["origin"], z3.StringVal(":"), z3.IntToStr(d["line"]))) if is_z3(result) else False)
    ctx.oblige("post", "the-origin-is-that-of-this-visitor's-component-and-parent(in that order)", len(ev) == 1 and ev[0][1] is d["comp"] and ev[0][2] is d["parent"])


def ignore_table():
    """The real ignore_params table, read from the source under verification."""
    import ast as _ast
    from pyvc.units import load_module
    _, tree, _ = load_module(MOD)
    for node in tree.body:
        if isinstance(node, _ast.Assign) and any(isinstance(t, _ast.Name) and t.id == "ignore_params" for t in node.targets):
            return _ast.literal_eval(node.value)
    return {}


def rip_setup(ctx):
    table = ignore_table()
    path = z3.String("import-path-of-component")
    n = ctx.choose(4, "n-params")
    names = [z3.String(f"name{i}") for i in range(n)]
    params = [Rec("ParamData", attrs={"name": nm}) for nm in names]

    def getitem(c, s_, a, k):
        for key in table:
            if c.branch(a[0] == z3.StringVal(key), f"path-is-{key}"):
                return set(table[key])
        raise PyRaise(ExcVal("KeyError", origin="ignore_params[]"))

    ign = Rec("dict ignore_params", methods={"__contains__": lambda c, s_, a, k: z3.Or(*[a[0] == z3.StringVal(key) for key in table]) if table else False, "__getitem__": getitem})
    comp = Rec("component")
    self = visitor(component=comp)
    calls = {"get_import_path": lambda c, a, k: (c.event("import-path", a[0]), path)[1]}
    return Setup(env={"self": self, "params": list(params)}, calls=calls, consts={"ignore_params": ign}, data=dict(table=table, path=path, names=names, params=params, comp=comp), watch={"path": path})


def rip_post(ctx, st, result):
    d = st.data
    ok = isinstance(result, list) and all(any(r is p for p in d["params"]) for r in result)
    ctx.oblige("post", "the-result-consists-of-parameters-of-the-input,each-at-most-once,in-order", ok and [i for r in result for i, p in enumerate(d["params"]) if p is r] == sorted({i for r in result for i, p in enumerate(d["params"]) if p is r}))
    if not ok:
        return
    kept = [any(r is p for r in result) for p in d["params"]]
    ignored = lambda nm: z3.Or(*[z3.And(d["path"] == z3.StringVal(k), z3.Or(*[nm == z3.StringVal(x) for x in v])) for k, v in d["table"].items()]) if d["table"] else z3.BoolVal(False)  # noqa: E731
    ctx.oblige("post", "a-parameter-is-dropped-exactly-when-the-ignore-table-lists-its-name-for-this-component's-import-path;every-other-parameter-is-kept", z3.And(*[z3.BoolVal(kept[i]) == z3.Not(ignored(d["names"][i])) for i in range(len(kept))]) if kept else True)
    ctx.oblige("frame", "the-input-list-is-not-modified", same_list(st.env["params"], d["params"]))
    ctx.oblige("post", "the-table-is-consulted-for-this-visitor's-component", all(e[1] is d["comp"] for e in ctx.events if e[0] == "import-path"))


def gcg_setup(ctx):
    ns = {"GLOBAL": 1}
    module = Rec("module", attrs={"__dict__": ns})
    comp = Rec("component", attrs={"__module__": "pkg.mod_of_component"})
    parent = Rec("class Parent", attrs={"__module__": "pkg.mod_of_parent"})
    self = visitor(component=comp, parent=parent)
    calls = {"import_module": lambda c, a, k: (c.event("import", a[0]), module)[1]}
    return Setup(env={"self": self}, calls=calls, data=dict(ns=ns))


def gcg_post(ctx, st, result):
    ev = [e for e in ctx.events if e[0] == "import"]
    ctx.oblige("post", "the-globals-are-the-namespace-of-the-module-that-defines-the-component(where its body's names are looked up at run time),not-the-parent-class's-module", result is st.data["ns"] and len(ev) == 1 and ev[0][1] == "pkg.mod_of_component")


CCT = ["K(..)", "mod.K(..)", "mod.sub.K(..)", "f(..)[a function]", "unknown(..)", "mod.unknown(..)", "f()(..)", "no-call:constant"]


def cct_setup(ctx):
    ast_classes(ctx)
    form = CCT[ctx.choose(len(CCT), "default-expression")]
    K, K2, K3, F = Rec("class K"), Rec("class mod.K"), Rec("class mod.sub.K"), Rec("function f")
    mod = Rec("module mod", attrs={"K": K2, "sub": Rec("module mod.sub", attrs={"K": K3})})
    globs = {"K": K, "mod": mod, "f": F}
    func = {"K(..)": lambda: name("K"), "mod.K(..)": lambda: attribute(name("mod"), "K"), "mod.sub.K(..)": lambda: attribute(attribute(name("mod"), "sub"), "K"), "f(..)[a function]": lambda: name("f"),
            "unknown(..)": lambda: name("unknown"), "mod.unknown(..)": lambda: attribute(name("mod"), "unknown"), "f()(..)": lambda: call(name("K")), "no-call:constant": lambda: None}[form]()
    node = call(func, [], [kw("x", const(1))]) if func is not None else const(3)
    self = visitor()
    self.methods["get_component_globals"] = lambda c, s_, a, k: globs
    def name_and_attrs(c, a, k):  # (the real helper reverses with names[::-1]: a slice step, outside the engine's subset)
        names, nd = [], a[0]
        while isinstance(nd, Rec) and nd.cls == "Attribute":
            names.append(nd.attrs["attr"])
            nd = nd.attrs["value"]
        if isinstance(nd, Rec) and nd.cls == "Name":
            names.append(nd.attrs["id"])
        return names[::-1]

    calls = {"inspect.isclass": lambda c, a, k: isinstance(a[0], Rec) and a[0].cls.startswith("class "), "ast_get_name_and_attrs": name_and_attrs}
    return Setup(env={"self": self, "node": node}, calls=calls, consts=HELPER_CONSTS, data=dict(form=form, want={"K(..)": K, "mod.K(..)": K2, "mod.sub.K(..)": K3}.get(form)))


def cct_post(ctx, st, result):
    d = st.data
    ctx.oblige("post", f"the-class-a-default-expression-instantiates-is-the-object-its-dotted-name-denotes-in-the-component's-module;anything-that-is-no-class(function,unknown name,call result,no call)-gives-None[{d['form']}]", result is d["want"])


def gdn_setup(ctx):
    ast_classes(ctx)
    n_pos, n_args, n_kwonly = ctx.choose(2, "n-positional-only"), ctx.choose(3, "n-args"), ctx.choose(2, "n-keyword-only")
    total = n_pos + n_args
    n_def = ctx.choose(total + 1, "n-defaults")
    kw_has_default = ctx.choose(2, "kwonly-has-default") == 1 if n_kwonly else False
    pos = [N("arg", arg=f"q{i}") for i in range(n_pos)]
    args = [N("arg", arg=f"a{i}") for i in range(n_args)]
    kwonly = [N("arg", arg=f"k{i}") for i in range(n_kwonly)]
    defaults = [N("Constant", value=i) for i in range(n_def)]
    kw_defaults = [N("Constant", value="kwdefault") if kw_has_default else None for _ in kwonly]
    all_names = [a.attrs["arg"] for a in pos + args + kwonly]
    mask = ctx.choose(2 ** len(all_names), "names-asked-for")
    asked = {nm for i, nm in enumerate(all_names) if mask >> i & 1}
    # precondition of the only caller: the names are parameters whose default is a class instance, so every name asked for has a default
    default_of = {}
    for i, a in enumerate(pos + args):
        j = i - (total - n_def)
        default_of[a.attrs["arg"]] = defaults[j] if j >= 0 else None
    for a, dn in zip(kwonly, kw_defaults):
        default_of[a.attrs["arg"]] = dn
    ctx.assume(all(default_of[nm] is not None for nm in asked))
    arguments = N("arguments", posonlyargs=pos, args=args, kwonlyargs=kwonly, defaults=defaults, kw_defaults=kw_defaults, vararg=None, kwarg=None)
    self = visitor(component_node=N("FunctionDef", args=arguments))
    return Setup(env={"self": self, "param_names": set(asked)}, consts=HELPER_CONSTS, data=dict(asked=asked, all_names=all_names, default_of=default_of, n_kwonly=n_kwonly))


def gdn_post(ctx, st, result):
    d = st.data
    want = [d["default_of"][nm] for nm in d["all_names"] if nm in d["asked"]]
    kwonly_asked = any(nm.startswith("k") for nm in d["asked"])
    ctx.oblige("post", "one-default-node-per-parameter-asked-for,in-signature-order:the-expression-written-after-`=`-for-that-parameter" + ("[a keyword-only parameter is asked for]" if kwonly_asked else "[positional parameters]"),
               same_list(result, want), note=f"asked {sorted(d['asked'])} of {d['all_names']}")


def gpfa_setup(ctx):
    fc, logger = Rec("class K"), Rec("logger")
    params = [Rec("ParamData")]
    made = []

    def new_visitor(c, a, k):
        made.append((tuple(a), dict(k)))
        return Rec("ParametersVisitor", methods={"get_parameters": lambda c2, s_, a2, k2: (c2.event("get_parameters"), params)[1]})

    return Setup(env={"function_or_class": fc, "method_or_property": "run", "logger": logger}, calls={"ParametersVisitor": new_visitor}, data=dict(fc=fc, logger=logger, params=params, made=made))


def gpfa_post(ctx, st, result):
    d = st.data
    ctx.oblige("post", "the-AST-resolver's-answer-is-get_parameters()-of-a-visitor-for(the component,the method,the logger)",
               result is d["params"] and len(d["made"]) == 1 and len(d["made"][0][0]) == 2 and d["made"][0][0][0] is d["fc"] and d["made"][0][0][1] == "run" and d["made"][0][1] == {"logger": d["logger"]})


def units_callee(prop):
    T_INSPECT = "inspect.getmodule / getmembers / getattr_static / isclass / isfunction / getsource answer for the live objects as documented"
    return [
        Unit(prop, PV + "get_node_component", gnc_setup, gnc_post, never, trusted=[AST_TRUST, T_INSPECT, "is_classmethod, get_component_from_source: their own units"]),
        Unit(prop, PV + "get_component_from_source", gcfs_setup, gcfs_post, gcfs_raises, trusted=["exec(compile(module)) runs the statements of the module in the namespace given; ast.parse('') is an empty module"]),
        Unit(prop, PV + "match_call_that_uses_attr", mc_setup, mc_post, mc_raises, trusted=[AST_TRUST, "get_node_component, get_signature_parameters, remove_given_parameters: their own units"]),
        Unit(prop, PV + "get_parameters_attr_use_in_members", aum_setup, aum_post, never, max_paths=40000, trusted=[T_INSPECT, "get_parameters_call_attr: its own unit (c13): None when the member does not forward the attribute",
                                                                                                                    "inspect.getmembers lists the members in one fixed order (sorted by name)"]),
        Unit(prop, PV + "parse_source_tree", pst_setup, pst_post, pst_raises, expect_cover=("return", "raise:SourceNotAvailable"), trusted=[T_INSPECT, "ast.parse / textwrap.dedent"]),
        Unit(prop, PV + "get_node_origin", gno_setup, gno_post, never, trusted=["node.lineno >= 1", "get_parameter_origins: its own unit"]),
        Unit(prop, PV + "remove_ignore_parameters", rip_setup, rip_post, never, trusted=["get_import_path: its own unit (import_paths.py)"]),
        Unit(prop, PV + "get_component_globals", gcg_setup, gcg_post, never, trusted=["import_module(name) returns the module of that name; vars(module) is its namespace"]),
        Unit(prop, PV + "get_call_class_type", cct_setup, cct_post, never, trusted=[AST_TRUST, T_INSPECT, "ast_get_name_and_attrs(a.b.c) == ['a', 'b', 'c'], [] for an expression that is no dotted name (by contract: its body uses a slice step)"]),
        Unit(prop, PV + "get_default_nodes", gdn_setup, gdn_post, never, max_paths=20000, trusted=["ast.arguments: defaults align with the last positional parameters, kw_defaults with kwonlyargs"]),
        Unit(prop, MOD + ":get_parameters_from_ast", gpfa_setup, gpfa_post, never, trusted=["ParametersVisitor.__init__ / get_parameters: their own units"]),
    ]




# ============================================================================================================ reading the signature
KIND_CONSTS = {"kinds." + k: k for k in ("POSITIONAL_ONLY", "POSITIONAL_OR_KEYWORD", "VAR_POSITIONAL", "KEYWORD_ONLY", "VAR_KEYWORD")}
KIND_CONSTS["inspect._ParameterKind.KEYWORD_ONLY"] = "KEYWORD_ONLY"
EMPTY = Rec("inspect._empty")
KIND_CONSTS["inspect._empty"] = EMPTY


def param_data(c, a, k):
    fields = ["name", "annotation", "default", "kind", "doc", "component", "parent", "origin"]
    attrs = {"default": EMPTY, "kind": None, "doc": None, "component": None, "parent": None, "origin": None}
    attrs.update(dict(zip(fields, a)))
    attrs.update(k)
    return Rec("ParamData", attrs=attrs)


def unknown_default(c, a, k):
    return Rec("UnknownDefault", attrs={"resolver": a[0] if a else k.get("resolver")})


# ------------------------------------------------------------------------------------------------ get_component_and_parent
FOC = ["class", "generic-alias-of-a-class", "function", "non-callable-object", "class-from-function(function)", "class-from-function(bound classmethod)"]
MOP = ["None", "'__init__'", "'run'", "the-callable-run"]
ATTRS = ["missing", "staticmethod", "method", "property", "classmethod", "object.__init__", "other-attribute"]
OBJ_INIT = Rec("object.__init__")


def gcp_setup(ctx):
    ctx.classes.add("MethodType", ["object"])
    fk = FOC[ctx.choose(len(FOC), "function_or_class")]
    mk = MOP[ctx.choose(len(MOP), "method_or_property")]
    ak = ATTRS[ctx.choose(len(ATTRS), "the-attribute-is")]
    has_new = ctx.choose(2, "class-defines-its-own-__new__") == 1

    def container(label):
        c = Rec(label, attrs={"kind": label})
        c.attrs.update({"__init__": Rec(f"getattr({label}, __init__)"), "run": Rec(f"getattr({label}, run)"), "make": Rec(f"getattr({label}, make)"), "__new__": Rec(f"{label}.__new__")})
        return c

    foc = container(fk)
    origin_cls = container("origin class") if fk == "generic-alias-of-a-class" else None
    wrapped_fn, owner = Rec("wrapped function", attrs={"kind": "function"}), container("class owning the wrapped classmethod")
    if fk == "class-from-function(function)":
        foc.attrs["wrapped_function"] = wrapped_fn
    if fk == "class-from-function(bound classmethod)":
        foc.attrs["wrapped_function"] = Rec("MethodType", attrs={"__name__": "make", "__self__": owner})
    mop = {"None": None, "'__init__'": "__init__", "'run'": "run", "the-callable-run": Rec("function run", attrs={"__name__": "run"})}[mk]
    fget = Rec("fget")
    attr = {"missing": None, "staticmethod": Rec("staticmethod"), "method": member_obj("method"), "property": Rec("property", attrs={"fget": fget, "__class__": Rec("type", attrs={"__name__": "property"})}),
            "classmethod": Rec("classmethod", attrs={"__class__": Rec("type", attrs={"__name__": "classmethod"})}), "object.__init__": OBJ_INIT, "other-attribute": member_obj("class-attribute")}[ak]
    if isinstance(attr, Rec) and "__class__" not in attr.attrs:
        attr.attrs["__class__"] = Rec("type", attrs={"__name__": attr.cls})

    def getattr_static(c, a, k):
        c.event("getattr_static", a[0], a[1])
        if attr is None:
            raise PyRaise(ExcVal("AttributeError", args=(a[1],), origin="inspect.getattr_static"))
        return attr

    is_class = lambda x: isinstance(x, Rec) and x.attrs.get("kind") in ("class", "origin class", "class-from-function(function)", "class-from-function(bound classmethod)", "class owning the wrapped classmethod")  # noqa: E731
    calls = {"is_subclass": lambda c, a, k: isinstance(a[0], Rec) and str(a[0].attrs.get("kind", "")).startswith("class-from-function") and a[1].name == "ClassFromFunctionBase",
             "get_generic_origin": lambda c, a, k: origin_cls if (a[0] is foc and origin_cls is not None) else a[0], "inspect.isclass": lambda c, a, k: is_class(a[0]),
             "inspect.getattr_static": getattr_static, "inspect.isfunction": lambda c, a, k: isinstance(a[0], Rec) and a[0].cls == "function",
             "callable": lambda c, a, k: not (isinstance(a[0], Rec) and a[0].attrs.get("kind") == "non-callable-object"),
             "has_dunder_new_method": lambda c, a, k: (c.event("has_new", a[0], a[1]), has_new and a[1] == "__init__")[1]}
    consts = {"MethodType": ClassRef("MethodType"), "object.__init__": OBJ_INIT, "ClassFromFunctionBase": ClassRef("ClassFromFunctionBase")}
    return Setup(env={"function_or_class": foc, "method_or_property": mop}, calls=calls, consts=consts, inline=inl("is_staticmethod", "is_method", "is_property"),
                 data=dict(fk=fk, mk=mk, ak=ak, has_new=has_new, foc=foc, origin_cls=origin_cls, wrapped_fn=wrapped_fn, owner=owner, attr=attr, fget=fget))


def gcp_expect(d):
    """What is inspected, in the words of the documentation: -> (outcome, component, parent, name)."""
    foc, name = d["foc"], {"None": None, "'__init__'": "__init__", "'run'": "run", "the-callable-run": "run"}[d["mk"]]
    lookup_in = d["origin_cls"] or foc
    if d["fk"].startswith("class-from-function") and name in (None, "__init__"):
        if d["fk"].endswith("(function)"):
            return ("ok", d["wrapped_fn"], None, None, "a-class-made-from-a-function-stands-for-that-function")
        foc, name, lookup_in = d["owner"], "make", d["owner"]   # made from a bound classmethod: that method of its class
    elif name is None:
        if d["fk"] in ("class", "generic-alias-of-a-class"):
            name = "__init__"
        elif d["fk"] == "function":
            return ("ok", foc, None, None, "a-function-is-inspected-itself,without-parent")
        else:
            return ("ValueError", None, None, None, "something-that-cannot-be-called-is-refused-with-ValueError")
    ak = d["ak"]
    if ak == "missing":
        return ("AttributeError", None, None, None, "a-method-the-class-does-not-have-is-AttributeError")
    if ak == "staticmethod":
        return ("ok", foc.attrs[name], None, name, "a-static-method-is-inspected-as-the-plain-function-it-is:no-parent(no self to drop)")
    if d["has_new"] and name == "__init__":
        return ("ok", foc.attrs["__new__"], foc, name, "a-class-that-defines-its-own-__new__-is-constructed-through-it")
    if ak == "method":
        return ("ok", d["attr"], foc, name, "a-method-is-the-function-found-in-the-class,with-the-class-as-parent")
    if ak == "property":
        return ("ok", d["fget"], foc, name, "a-property-is-its-getter")
    if ak == "classmethod":
        return ("ok", foc.attrs[name], foc, name, "a-class-method-is-the-bound-method-of-the-class")
    if ak == "object.__init__":
        return ("ok", None, foc, name, "a-class-without-constructor-of-its-own(object.__init__)-has-no-component-to-inspect")
    return ("ValueError", None, None, None, "an-attribute-that-is-no-method/property-is-refused-with-ValueError")


def gcp_tag(d):
    return f"[{d['fk']};{d['mk']};attribute:{d['ak']};{'own __new__' if d['has_new'] else 'no own __new__'}]"


def gcp_post(ctx, st, result):
    d = st.data
    out, comp, parent, name, words = gcp_expect(d)
    ctx.oblige("post", words + gcp_tag(d), out == "ok" and isinstance(result, tuple) and len(result) == 3 and result[0] is comp and result[1] is parent and result[2] == name)
    lookups = [e for e in ctx.events if e[0] == "getattr_static"]
    want_in = d["owner"] if (d["fk"].endswith("(bound classmethod)") and d["mk"] in ("None", "'__init__'")) else (d["origin_cls"] or d["foc"])
    ctx.oblige("post", "the-attribute-is-looked-up-statically(no descriptor runs),in-the-class(for a generic alias: its origin),at-most-once" + gcp_tag(d), len(lookups) <= 1 and all(e[1] is want_in for e in lookups))


def gcp_raises(ctx, st, exc):
    d = st.data
    out, _, _, _, words = gcp_expect(d)
    ctx.oblige("raises", words + f"(got {exc.cls}@{exc.origin})" + gcp_tag(d), exc.cls == out)


# ------------------------------------------------------------------------------------------------ get_signature_parameters_and_indexes
def spi_setup(ctx):
    where = ["function", "method", "classmethod"][ctx.choose(3, "component-is-a")]
    n_plain = ctx.choose(3, "n-named")
    has_args, has_kwargs = ctx.choose(2, "*args") == 1, ctx.choose(2, "**kwargs") == 1
    args_first = ctx.choose(2, "*args-before-the-named") == 1 if has_args and n_plain else False
    def sp(nm, kind):
        return Rec("Parameter", attrs={"name": nm, "kind": kind, "default": z3.Int(f"default({nm})"), "annotation": Rec(f"annotation({nm})")})
    plain = [sp(f"p{i}", "KEYWORD_ONLY" if args_first else "POSITIONAL_OR_KEYWORD") for i in range(n_plain)]
    own = ([sp("args", "VAR_POSITIONAL")] if has_args and args_first else []) + plain + ([sp("args", "VAR_POSITIONAL")] if has_args and not args_first else []) + ([sp("kwargs", "VAR_KEYWORD")] if has_kwargs else [])
    sig_params = ([sp("self", "POSITIONAL_OR_KEYWORD")] if where != "function" else []) + own
    func = Rec("underlying function of the classmethod")
    component = Rec("component", attrs={"__func__": func, "__name__": "comp"})
    parent = Rec("class Parent") if where != "function" else None
    logger, doc, stubs = Rec("logger"), Rec("doc_params", methods={"get": lambda c, s_, a, k: ("doc-of", a[0])}), Rec("stubs")
    snap = {}

    def snapshot(tag):
        def f(c, a, k):
            snap[tag] = (a[0], [x for x in a[0]] if isinstance(a[0], list) else None, tuple(a[1:]))
            c.event(tag)
            return stubs if tag == "stubs" else None
        return f

    calls = {"is_classmethod": lambda c, a, k: (c.event("is_classmethod", a[0], a[1]), where == "classmethod")[1],
             "inspect.signature": lambda c, a, k: (c.event("signature", a[0]), Rec("Signature", attrs={"parameters": Rec("mapping", methods={"values": lambda c2, s_, a2, k2: list(sig_params)})}))[1],
             "parse_docs": lambda c, a, k: (c.event("docs", tuple(a)), doc)[1], "ParamData": param_data,
             "evaluate_postponed_annotations": snapshot("postponed"), "get_stub_types": snapshot("stubs"), "replace_generic_type_vars": snapshot("generic")}
    consts = dict(KIND_CONSTS, parameter_attributes=["name", "kind", "default", "annotation"])
    return Setup(env={"component": component, "parent": parent, "logger": logger}, calls=calls, consts=consts, inline={"get_arg_kind_index": MOD + ":get_arg_kind_index"},
                 data=dict(where=where, own=own, sig_params=sig_params, func=func, component=component, parent=parent, logger=logger, doc=doc, stubs=stubs, snap=snap, has_args=has_args, has_kwargs=has_kwargs))


def spi_post(ctx, st, result):
    d = st.data
    own = d["own"]
    tag = f"[{d['where']};({', '.join(p.attrs['name'] for p in d['sig_params'])})]"
    ok = isinstance(result, tuple) and len(result) == 5 and isinstance(result[0], list)
    ctx.oblige("post", "returns(parameters,index of *args,index of **kwargs,docstring parameters,stubs)" + tag, ok and result[3] is d["doc"] and result[4] is d["stubs"])
    if not ok:
        return
    params = result[0]
    same = len(params) == len(own) and all(isinstance(p, Rec) and p.cls == "ParamData" and p.attrs["name"] == o.attrs["name"] and p.attrs["kind"] == o.attrs["kind"] and p.attrs["default"] is o.attrs["default"]
                                            and p.attrs["annotation"] is o.attrs["annotation"] for p, o in zip(params, own))
    ctx.oblige("post", "one-parameter-per-parameter-of-the-signature,in-order,with-its-name,kind,default-and-annotation;the-self/cls-of-a-member-is-not-a-parameter" + tag, same,
               note=f"got {[getattr(p, 'attrs', {}).get('name') for p in params]}")
    ctx.oblige("post", "each-carries-its-docstring-entry(by its own name),the-component-and-the-parent" + tag,
               all(isinstance(p, Rec) and p.attrs.get("doc") == ("doc-of", p.attrs.get("name")) and p.attrs.get("component") is d["component"] and p.attrs.get("parent") is d["parent"] for p in params))
    names = [getattr(p, "attrs", {}).get("name") for p in params]
    ctx.oblige("post", "the-indexes-locate-*args-and-**kwargs-in-the-list-returned(-1 when absent)" + tag,
               result[1] == (names.index("args") if d["has_args"] and "args" in names else -1) and result[2] == (names.index("kwargs") if d["has_kwargs"] and "kwargs" in names else -1)
               and (result[1] < 0 or params[result[1]].attrs.get("kind") == "VAR_POSITIONAL") and (result[2] < 0 or params[result[2]].attrs.get("kind") == "VAR_KEYWORD"))
    src = d["func"] if d["where"] == "classmethod" else d["component"]
    sig = [e for e in ctx.events if e[0] == "signature"]
    ctx.oblige("post", "the-signature-read-is-that-of-the-component(of the underlying function for a class method:its cls is then the first parameter)" + tag, len(sig) == 1 and sig[0][1] is src)
    snap = d["snap"]
    order = [e[0] for e in ctx.events if e[0] in ("postponed", "stubs", "generic")]
    ctx.oblige("post", "postponed-annotations-are-evaluated,stubs-looked-up-and-type-variables-replaced-on-the-list-returned(already ParamData,self dropped),in-that-order,for-the-same-source/parent/logger" + tag,
               order == ["postponed", "stubs", "generic"] and all(snap[t][0] is params and len(snap[t][1]) == len(own) and all(x.cls == "ParamData" for x in snap[t][1]) for t in order)
               and snap["postponed"][2] == (src, d["parent"], d["logger"]) and snap["stubs"][2] == (src, d["parent"], d["logger"]) and snap["generic"][2] == (d["parent"],))
    docs = [e for e in ctx.events if e[0] == "docs"]
    ctx.oblige("post", "the-docstring-is-that-of(component,parent)" + tag, len(docs) == 1 and docs[0][1] == (d["component"], d["parent"], d["logger"]))


# ------------------------------------------------------------------------------------------------ get_parameters_by_assumptions
def gba_setup(ctx):
    has_parent = ctx.choose(2, "method-of-a-class") == 1
    has_args, has_kwargs = ctx.choose(2, "*args") == 1, ctx.choose(2, "**kwargs") == 1
    sub_found = ctx.choose(2, "next-definer-in-the-MRO-has-parameters") == 1
    component, parent, logger, stubs = Rec("component"), (Rec("class Parent") if has_parent else None), Rec("logger"), Rec("stubs")
    sig_params, sub, replaced, final = [Rec("ParamData", attrs={"name": "own"})], [Rec("ParamData", attrs={"name": "inherited"})], [Rec("ParamData", attrs={"name": "after-mro"})], [Rec("ParamData", attrs={"name": "final"})]
    open_cms = []
    me = Rec("get_parameters_by_assumptions")

    def replace(c, a, k):
        c.event("replace", a[0], a[1], a[2])
        return final if (a[1] == [] and a[2] == []) else replaced

    calls = {"get_component_and_parent": lambda c, a, k: (c.event("cap", tuple(a)), (component, parent, "resolved-name"))[1],
             "get_signature_parameters_and_indexes": lambda c, a, k: (c.event("sig", tuple(a)), (sig_params, 1 if has_args else -1, 2 if has_kwargs else -1, Rec("doc"), stubs))[1],
             "get_mro_parameters": lambda c, a, k: (c.event("mro", tuple(a), list(open_cms)), sub if sub_found else [])[1],
             "split_args_and_kwargs": lambda c, a, k: (c.event("split", a[0]), (("args-of", a[0]), ("kwargs-of", a[0])))[1], "replace_args_and_kwargs": replace,
             "add_stub_types": lambda c, a, k: c.event("stub-types", tuple(a))}
    cms = {"mro_context": (lambda c, a, k: open_cms.append(a[0]), lambda c, t, e: (open_cms.pop(), False)[1])}
    foc = Rec("function_or_class")
    return Setup(env={"function_or_class": foc, "method_name": "given-name", "logger": logger}, calls=calls, cms=cms, consts={"get_parameters_by_assumptions": me, "get_signature_parameters": Rec("get_signature_parameters"), "get_parameters_from_ast": Rec("get_parameters_from_ast")},
                 data=dict(has_parent=has_parent, has_var=has_args or has_kwargs, sub_found=sub_found, component=component, parent=parent, logger=logger, stubs=stubs, sig_params=sig_params, sub=sub, replaced=replaced, final=final,
                           me=me, foc=foc, open_cms=open_cms))


def gba_post(ctx, st, result):
    d = st.data
    tag = f"[{'method' if d['has_parent'] else 'function'};{'has' if d['has_var'] else 'no'} *args/**kwargs;MRO {'gives parameters' if d['sub_found'] else 'gives nothing'}]"
    ev = ctx.events
    cap, sig, mro, rep, stb = ([e for e in ev if e[0] == t] for t in ("cap", "sig", "mro", "replace", "stub-types"))
    ctx.oblige("post", "the-signature-read-is-that-of-the-component-and-parent-resolved-from-the-input" + tag, len(cap) == 1 and cap[0][1] == (d["foc"], "given-name") and len(sig) == 1 and sig[0][1] == (d["component"], d["parent"], d["logger"]))
    inherit = d["has_parent"] and d["has_var"]
    if inherit:
        ctx.oblige("post", "a-method-with-*args/**kwargs-is-assumed-to-forward-them-to-the-next-class-of-the-MRO-that-defines-the-method(by its resolved name),resolved-the-same-way,with-the-cursor-at-the-parent" + tag,
                   len(mro) == 1 and mro[0][1] == ("resolved-name", d["me"], d["logger"]) and len(mro[0][2]) == 1 and mro[0][2][0] is d["parent"])
    else:
        ctx.oblige("post", "a-function,or-a-method-without-*args/**kwargs,assumes-nothing:the-MRO-is-not-consulted" + tag, not mro)
    took = inherit and d["sub_found"]
    first = [e for e in rep if not (e[2] == [] and e[3] == [])]
    if took:
        ctx.oblige("post", "the-inherited-parameters-replace-*args/**kwargs(split into positional and keyword)" + tag, len(first) == 1 and first[0][1] is d["sig_params"] and first[0][2] == ("args-of", d["sub"]) and first[0][3] == ("kwargs-of", d["sub"]))
    else:
        ctx.oblige("post", "nothing-inherited=>nothing-is-put-in-place-of-*args/**kwargs" + tag, not first)
    last = [e for e in rep if e[2] == [] and e[3] == []]
    before = d["replaced"] if took else d["sig_params"]
    ctx.oblige("post", "whatever-*args/**kwargs-is-left-is-dropped(never offered as a parameter):the-result-is-the-list-without-them" + tag, len(last) == 1 and last[0][1] is before and result is d["final"] and rep[-1] is last[0])
    ctx.oblige("post", "stub-types-are-added-to-the-final-list,for-the-component;the-MRO-cursor-is-released" + tag, len(stb) == 1 and stb[0][1] == (d["stubs"], d["final"], d["component"]) and not d["open_cms"] and ev[-1] is stb[0])


# ------------------------------------------------------------------------------------------------ get_parameters_from_stubs
def gfs_setup(ctx):
    has_stub = ctx.choose(2, "a-stub-exists") == 1
    has_parent = ctx.choose(2, "method-of-a-class") == 1
    n_args, n_kwonly = ctx.choose(3, "n-args"), ctx.choose(2, "n-kwonly")
    fails = ctx.choose(2 ** (n_args + n_kwonly), "annotations-that-cannot-be-resolved") if has_stub else 0
    args = [N("arg", arg=f"a{i}", annotation=Rec(f"annotation(a{i})")) for i in range(n_args)]
    kwonly = [N("arg", arg=f"k{i}", annotation=Rec(f"annotation(k{i})")) for i in range(n_kwonly)]
    all_args = args + kwonly
    failing = {id(a.attrs["annotation"]) for i, a in enumerate(all_args) if fails >> i & 1}
    component, parent = Rec("component"), (Rec("class Parent") if has_parent else None)
    aliases, origin = Rec("aliases"), z3.String("origin")
    stub_import = Rec("stub import", attrs={"info": Rec("info", attrs={"ast": N("FunctionDef", args=N("arguments", args=args, kwonlyargs=kwonly))})})
    resolver = Rec("StubsResolver", methods={"get_component_imported_info": lambda c, s_, a, k: (c.event("info", tuple(a)), stub_import if has_stub else None)[1], "get_aliases": lambda c, s_, a, k: (c.event("aliases", a[0]), aliases)[1]})

    def get_arg_type(c, a, k):
        c.event("arg-type", a[0], a[1])
        if id(a[0]) in failing:
            raise PyRaise(ExcVal("NameError", origin="get_arg_type"))
        return ("type-of", a[0])

    foc = Rec("function_or_class")
    calls = {"get_component_and_parent": lambda c, a, k: (c.event("cap", tuple(a)), (component, parent, "m"))[1], "get_stubs_resolver": lambda c, a, k: resolver, "get_parameter_origins": lambda c, a, k: (c.event("origins", tuple(a)), origin)[1],
             "get_arg_type": get_arg_type, "UnknownDefault": unknown_default, "ParamData": param_data}
    return Setup(env={"function_or_class": foc, "method_or_property": "m", "logger": Rec("logger")}, calls=calls, consts=KIND_CONSTS,
                 data=dict(has_stub=has_stub, has_parent=has_parent, all_args=all_args, failing=failing, component=component, parent=parent, aliases=aliases, origin=origin, foc=foc))


def gfs_post(ctx, st, result):
    d = st.data
    tag = f"[{'stub' if d['has_stub'] else 'no stub'};{'method' if d['has_parent'] else 'function'};({', '.join(a.attrs['arg'] for a in d['all_args'])});unresolvable:{len(d['failing'])}]"
    info = [e for e in ctx.events if e[0] == "info"]
    ctx.oblige("post", "the-stub-is-looked-up-for-the-component-and-parent-resolved-from-the-input" + tag, len(info) == 1 and info[0][1] == (d["component"], d["parent"]) and [e[1] for e in ctx.events if e[0] == "cap"] == [(d["foc"], "m")])
    if not d["has_stub"]:
        ctx.oblige("post", "no-stub=>the-resolver-does-not-apply(None,not an empty list:the next resolver is tried)" + tag, result is None)
        return
    want = d["all_args"][1:] if d["has_parent"] else d["all_args"]
    ok = isinstance(result, list) and len(result) == len(want)
    ctx.oblige("post", "one-parameter-per-argument-of-the-stub(positional then keyword-only),in-order;the-self/cls-of-a-member-is-skipped" + tag, ok and all(p.attrs["name"] == a.attrs["arg"] for p, a in zip(result, want)))
    if not ok:
        return
    ctx.oblige("post", "its-type-is-the-stub's-annotation-resolved-with-the-stub's-aliases;an-annotation-that-cannot-be-resolved-leaves-the-parameter-untyped(it is still offered)" + tag,
               all((p.attrs["annotation"] is EMPTY) if id(a.attrs["annotation"]) in d["failing"] else (p.attrs["annotation"] == ("type-of", a.attrs["annotation"])) for p, a in zip(result, want))
               and all(e[2] is d["aliases"] for e in ctx.events if e[0] == "arg-type"))
    ctx.oblige("post", "a-stub-knows-no-defaults:every-parameter-is-keyword-only-with-an-unknown-default(optional),of-this-component/parent/origin" + tag,
               all(p.attrs["kind"] == "KEYWORD_ONLY" and isinstance(p.attrs["default"], Rec) and p.attrs["default"].cls == "UnknownDefault" and p.attrs["default"].attrs["resolver"] == "stubs-resolver"
                   and p.attrs["component"] is d["component"] and p.attrs["parent"] is d["parent"] and p.attrs["origin"] is d["origin"] for p in result)
               and len({id(p.attrs["default"]) for p in result}) == len(result))


# ------------------------------------------------------------------------------------------------ add_stub_types
def ast_setup(ctx):
    n = ctx.choose(3, "n-params")
    typed = [ctx.choose(2, f"p{i}-has-an-annotation") == 1 for i in range(n)]
    stubs_kind = ["None", "empty", "given"][ctx.choose(3, "stubs")]
    mask = ctx.choose(2 ** n, "stub-entries-for-params") if stubs_kind == "given" else 0
    n_extra = ctx.choose(3, "stub-entries-for-other-names") if stubs_kind == "given" else 0
    if stubs_kind == "given" and mask == 0 and n_extra == 0:
        ctx.assume(False)
    own_types = [Rec(f"own type of p{i}") if typed[i] else EMPTY for i in range(n)]
    params = [Rec("ParamData", attrs={"name": f"p{i}", "annotation": own_types[i], "default": z3.Int(f"default{i}"), "kind": "POSITIONAL_OR_KEYWORD", "component": Rec("own component")}) for i in range(n)]
    snapshot = [dict(p.attrs) for p in params]
    stubs = None if stubs_kind == "None" else {}
    if stubs_kind == "given":
        for i in range(n):
            if mask >> i & 1:
                stubs[f"p{i}"] = Rec(f"stub type of p{i}")
        for j in range(n_extra):
            stubs[f"x{j}"] = Rec(f"stub type of x{j}")
    component = Rec("component")
    lst = list(params)
    return Setup(env={"stubs": stubs, "params": lst, "component": component}, calls={"UnknownDefault": unknown_default, "ParamData": param_data}, consts=KIND_CONSTS,
                 data=dict(n=n, typed=typed, stubs=stubs, stubs_before=dict(stubs) if stubs else stubs, params=params, snapshot=snapshot, lst=lst, component=component, n_extra=n_extra))


def ast_post(ctx, st, result):
    d = st.data
    lst, stubs, n = d["lst"], d["stubs"] or {}, d["n"]
    tag = f"[typed:{d['typed']};stubs:{sorted(stubs) if d['stubs'] is not None else None}]"
    ctx.oblige("post", "the-parameters-of-the-signature-stay,in-order,the-same-objects" + tag, len(lst) >= n and all(lst[i] is d["params"][i] for i in range(n)))
    ctx.oblige("post", "an-untyped-parameter-takes-the-stub's-type;a-typed-one-keeps-its-own;name,default,kind-and-component-never-change" + tag,
               all(p.attrs["annotation"] is (stubs[f"p{i}"] if (not d["typed"][i] and f"p{i}" in stubs) else d["snapshot"][i]["annotation"]) and all(p.attrs[k] is d["snapshot"][i][k] for k in ("name", "default", "kind", "component"))
                   for i, p in enumerate(d["params"])))
    extra = lst[n:]
    want = [k for k in stubs if k.startswith("x")]
    ctx.oblige("post", "a-name-only-the-stub-knows-is-offered-once,after-the-others:keyword-only,typed-by-the-stub,unknown-default,of-this-component" + tag,
               [p.attrs["name"] for p in extra] == want and all(p.attrs["annotation"] is stubs[p.attrs["name"]] and p.attrs["kind"] == "KEYWORD_ONLY" and p.attrs["component"] is d["component"]
                                                                 and isinstance(p.attrs["default"], Rec) and p.attrs["default"].cls == "UnknownDefault" and p.attrs["default"].attrs["resolver"] == "stubs-resolver" for p in extra))
    ctx.oblige("frame", "the-stubs-are-not-modified;nothing-is-returned" + tag, result is None and (d["stubs"] is None or d["stubs"] == d["stubs_before"]))


# ------------------------------------------------------------------------------------------------ unpack_typed_dict_kwargs
def utd_setup(ctx):
    n_before = ctx.choose(3, "params-before-**kwargs")
    kind = ["untyped", "plain-annotation(**kwargs: int)", "Unpack[TypedDict]", "Unpack-with-two-arguments", "Unpack-without-arguments"][ctx.choose(5, "annotation-of-**kwargs")]
    n_keys = ctx.choose(3, "keys-of-the-TypedDict") if kind == "Unpack[TypedDict]" else 0
    clash = ctx.choose(2, "a-key-named-like-an-existing-parameter") == 1 if (n_keys and n_before) else False
    before = [Rec("ParamData", attrs={"name": f"p{i}", "annotation": EMPTY, "kind": "POSITIONAL_OR_KEYWORD"}) for i in range(n_before)]
    key_names = [("p0" if (clash and j == 0) else f"key{j}") for j in range(n_keys)]
    td = Rec("class TD", attrs={"__annotations__": {k: Rec(f"type of {k}") for k in key_names}})
    annotation = {"untyped": EMPTY, "plain-annotation(**kwargs: int)": Rec("int"), "Unpack[TypedDict]": Rec("Unpack[TD]", attrs={"__args__": (td,)}), "Unpack-with-two-arguments": Rec("Unpack[..]", attrs={"__args__": (td, td)}),
                  "Unpack-without-arguments": Rec("Unpack")}[kind]
    kwp = Rec("ParamData", attrs={"name": "kwargs", "annotation": annotation, "kind": "VAR_KEYWORD", "component": Rec("component"), "parent": Rec("parent"), "origin": Rec("origin"), "default": EMPTY, "doc": "doc of kwargs"})
    params = before + [kwp]
    calls = {"is_unpack_typehint": lambda c, a, k: isinstance(a[0], Rec) and a[0].cls.startswith("Unpack"), "ParamData": param_data}
    return Setup(env={"params": params, "kwargs_idx": n_before}, calls=calls, consts=KIND_CONSTS, data=dict(kind=kind, before=before, kwp=kwp, params=params, td=td, key_names=key_names, n_before=n_before))


def utd_post(ctx, st, result):
    d = st.data
    params = d["params"]
    tag = f"[{d['n_before']} before;{d['kind']};keys:{d['key_names']}]"
    if d["kind"] != "Unpack[TypedDict]":
        ctx.oblige("post", "a-**kwargs-that-is-not-Unpack[..]-stays:same-index,list-untouched" + tag, d["kind"] in ("untyped", "plain-annotation(**kwargs: int)") and result == d["n_before"] and same_list(params, d["before"] + [d["kwp"]]))
        return
    ctx.oblige("post", "**kwargs: Unpack[TD]-is-gone:-1(nothing left to resolve through the body)" + tag, result == -1)
    new = params[d["n_before"]:]
    ctx.oblige("post", "the-other-parameters-stay-in-place" + tag, same_list(params[:d["n_before"]], d["before"]) and all(p is not d["kwp"] for p in params))
    anns = d["td"].attrs["__annotations__"]
    ctx.oblige("post", "in-its-place:one-keyword-only-parameter-per-key-of-TD,in-TD's-order,typed-as-TD-says,of-the-**kwargs'-component/parent/origin" + tag,
               [p.attrs["name"] for p in new] == d["key_names"] and all(p.attrs["annotation"] is anns[p.attrs["name"]] and p.attrs["kind"] == "KEYWORD_ONLY" and p.attrs["component"] is d["kwp"].attrs["component"]
                                                                        and p.attrs["parent"] is d["kwp"].attrs["parent"] and p.attrs["origin"] is d["kwp"].attrs["origin"] and p.attrs["default"] is EMPTY and p.attrs["doc"] is None for p in new))


def utd_raises(ctx, st, exc):
    d = st.data
    ctx.oblige("raises", f"only-a-malformed-Unpack(not exactly one argument)-is-refused,with-AssertionError(got {exc.cls}@{exc.origin})[{d['kind']}]", exc.cls == "AssertionError" and d["kind"] in ("Unpack-with-two-arguments", "Unpack-without-arguments"))


# ------------------------------------------------------------------------------------------------ replace_generic_type_vars
def rgv_setup(ctx):
    pk = ["not-generic(plain class)", "no-parent", "generic-alias-without-arguments", "origin-without-type-variables", "Parent[int, str]"][ctx.choose(5, "parent")]
    py = [(3, 9), (3, 12)][ctx.choose(2, "python-version")]
    T, U, V = Rec("TypeVar T"), Rec("TypeVar U"), Rec("TypeVar V (of another class)")
    INT, STR = Rec("class int"), Rec("class str")
    made = []

    def origin(label, module="typing"):
        o = Rec(label, attrs={"__module__": module, "__name__": label.split()[-1]})
        o.methods["__getitem__"] = lambda c, s_, a, k: (made.append((s_, a[0])), Rec(f"{label}[...]", attrs={"__origin__": s_, "__args__": a[0], "made": True}))[1]
        return o

    LIST, DICT, builtin_list = origin("typing List"), origin("typing Dict"), origin("builtins list", module="builtins")
    typing_mod = Rec("module typing", attrs={"List": LIST, "Dict": DICT})
    shapes = {"T": T, "U": U, "V(foreign type variable)": V, "int": INT, "untyped": EMPTY,
              "List[T]": Rec("List[T]", attrs={"__origin__": LIST, "__args__": (T,)}), "Dict[str, List[U]]": Rec("Dict[..]", attrs={"__origin__": DICT, "__args__": (STR, Rec("List[U]", attrs={"__origin__": LIST, "__args__": (U,)}))}),
              "list[T](builtin generic)": Rec("list[T]", attrs={"__origin__": builtin_list, "__args__": (T,)}), "List[int](nothing to replace)": Rec("List[int]", attrs={"__origin__": LIST, "__args__": (INT,)})}
    keys = list(shapes)
    picks = [keys[ctx.choose(len(keys), "annotation-of-p0")], keys[ctx.choose(len(keys), "annotation-of-p1")] if ctx.choose(2, "two-params") == 1 else None]
    picks = [p for p in picks if p]
    params = [Rec("ParamData", attrs={"name": f"p{i}", "annotation": shapes[p], "default": z3.Int(f"d{i}")}) for i, p in enumerate(picks)]
    origin_cls = Rec("class Parent", attrs={"__parameters__": (T, U) if pk != "origin-without-type-variables" else ()})
    parent = {"not-generic(plain class)": Rec("class Plain"), "no-parent": None, "generic-alias-without-arguments": Rec("Parent[]", attrs={"__origin__": origin_cls, "__args__": ()}),
              "origin-without-type-variables": Rec("Other[int]", attrs={"__origin__": origin_cls, "__args__": (INT,)}), "Parent[int, str]": Rec("Parent[int, str]", attrs={"__origin__": origin_cls, "__args__": (INT, STR)})}[pk]
    calls = {"is_generic_class": lambda c, a, k: isinstance(a[0], Rec) and "__origin__" in a[0].attrs, "dict": lambda c, a, k: dict(a[0]), "__import__": lambda c, a, k: typing_mod}
    return Setup(env={"params": params, "parent": parent}, calls=calls, consts={"sys.version_info": py},
                 data=dict(pk=pk, py=py, picks=picks, params=params, shapes=shapes, T=T, U=U, V=V, INT=INT, STR=STR, LIST=LIST, DICT=DICT, builtin_list=builtin_list, lst=list(params)))


def rgv_post(ctx, st, result):
    d = st.data
    tag = f"[{d['pk']};{d['picks']};py{d['py'][0]}.{d['py'][1]}]"
    active = d["pk"] == "Parent[int, str]"
    sub = {id(d["T"]): d["INT"], id(d["U"]): d["STR"]}

    def matches(got, orig):
        """got is orig with T->int, U->str, structure and origins kept"""
        if id(orig) in sub:
            return got is sub[id(orig)]
        if isinstance(orig, Rec) and orig.attrs.get("__args__"):
            o = orig.attrs["__origin__"]
            allowed = [o] + ([d["LIST"]] if (o is d["builtin_list"] and d["py"] < (3, 10)) else [])   # before 3.10 a builtin generic is rebuilt through its typing twin
            return isinstance(got, Rec) and any(got.attrs.get("__origin__") is x for x in allowed) and len(got.attrs.get("__args__", ())) == len(orig.attrs["__args__"]) and all(matches(g, a) for g, a in zip(got.attrs["__args__"], orig.attrs["__args__"]))
        return got is orig

    if not active:
        ctx.oblige("post", "a-parent-that-is-no-subscripted-generic-with-type-variables-changes-nothing" + tag, all(p.attrs["annotation"] is d["shapes"][k] for p, k in zip(d["params"], d["picks"])))
    else:
        ctx.oblige("post", "in-Parent[int, str]-every-occurrence-of-the-class's-type-variables(at any depth)-reads-as-the-argument-given;everything-else(other variables,classes,origins,untyped)-is-kept" + tag,
                   all(matches(p.attrs["annotation"], d["shapes"][k]) for p, k in zip(d["params"], d["picks"])))
    ctx.oblige("frame", "only-annotations-change:the-list,the-parameters'-other-fields-and-the-hints-given-are-not-modified" + tag,
               same_list(st.env["params"], d["lst"]) and all(p.attrs["name"] == f"p{i}" and is_z3(p.attrs["default"]) for i, p in enumerate(d["params"]))
               and all("made" in v.attrs or len(v.attrs.get("__args__", ())) == (2 if k.startswith("Dict") else 1) for k, v in d["shapes"].items() if isinstance(v, Rec) and "__args__" in v.attrs))


def units_signature(prop):
    return [
        Unit(prop, MOD + ":get_component_and_parent", gcp_setup, gcp_post, gcp_raises, expect_cover=("return", "raise:ValueError", "raise:AttributeError"), max_paths=2000,
             trusted=["inspect.getattr_static / inspect.isclass / callable / get_generic_origin / is_subclass answer for the live objects as documented", "has_dunder_new_method, is_staticmethod/is_method/is_property (inlined): their own units"]),
        Unit(prop, MOD + ":get_signature_parameters_and_indexes", spi_setup, spi_post, never, max_paths=2000,
             trusted=["inspect.signature(f).parameters lists f's parameters in order (self/cls first for the plain function of a member)", "parse_docs, evaluate_postponed_annotations, get_stub_types by contract; replace_generic_type_vars: its own unit"]),
        Unit(prop, MOD + ":get_parameters_by_assumptions", gba_setup, gba_post, never,
             trusted=["get_component_and_parent, get_signature_parameters_and_indexes, add_stub_types: their own units (this module); get_mro_parameters, mro_context, split_args_and_kwargs, replace_args_and_kwargs: units of c13"]),
        Unit(prop, MOD + ":get_parameters_from_stubs", gfs_setup, gfs_post, never, max_paths=4000, trusted=["the stubs resolver (typeshed) by contract: the imported stub of (component, parent) or None; get_arg_type resolves an annotation or raises"]),
        Unit(prop, MOD + ":add_stub_types", ast_setup, ast_post, never, max_paths=4000, trusted=["UnknownDefault only records its resolver"]),
        Unit(prop, MOD + ":unpack_typed_dict_kwargs", utd_setup, utd_post, utd_raises, expect_cover=("return", "raise:AssertionError"), trusted=["is_unpack_typehint: Unpack[..] and nothing else; TD.__annotations__ lists the keys in order"]),
        Unit(prop, MOD + ":replace_generic_type_vars", rgv_setup, rgv_post, never, max_paths=4000, trusted=["typing: alias.__origin__ / __args__ / origin.__parameters__; origin[args] builds the alias; before 3.10 typing.<Name> is the subscriptable twin of a builtin generic"]),
    ]




# ============================================================================================================ predicates and small helpers
PRED_KINDS = ["method", "property", "staticmethod", "classmethod", "cython-method", "class-attribute"]


def pred_setup(ctx):
    kind = PRED_KINDS[ctx.choose(len(PRED_KINDS), "attr")]
    attr = member_obj(kind)
    calls = {"inspect.isfunction": lambda c, a, k: isinstance(a[0], Rec) and a[0].cls == "function"}
    return Setup(env={"attr": attr}, calls=calls, inline=inl("is_staticmethod", "is_method", "is_property"), data=dict(kind=kind))


def pred_post(words, true_for):
    def post(ctx, st, result):
        ctx.oblige("post", words + f"[{st.data['kind']}]", result is (st.data["kind"] in true_for))
    return post


def icm_setup(ctx):
    has_parent = ctx.choose(2, "parent") == 1
    kind = (PRED_KINDS + ["missing"])[ctx.choose(len(PRED_KINDS) + 1, "static-attribute-of-that-name")]
    parent = Rec("class Parent") if has_parent else None
    component = Rec("component", attrs={"__name__": "make"})

    def getattr_static(c, a, k):
        c.event("lookup", a[0], a[1])
        if kind == "missing":
            raise PyRaise(ExcVal("AttributeError", args=(a[1],), origin="getattr_static"))
        return member_obj(kind)

    return Setup(env={"parent": parent, "component": component}, calls={"inspect.getattr_static": getattr_static}, cms={"suppress": suppress_cm()}, data=dict(has_parent=has_parent, kind=kind, parent=parent))


def icm_post(ctx, st, result):
    d = st.data
    ctx.oblige("post", f"true-exactly-for-a-component-whose-name-is-bound-to-a-classmethod-object-in-its-class(looked up statically);a-plain-function-or-a-name-the-class-lacks-is-not[{'member' if d['has_parent'] else 'function'};{d['kind']}]",
               result is (d["has_parent"] and d["kind"] == "classmethod"))
    ctx.oblige("post", "the-lookup-is-by-the-component's-own-name,in-the-parent", all(e[1] is d["parent"] and e[2] == "make" for e in ctx.events) and len(ctx.events) == (1 if d["has_parent"] else 0))


def il_setup(ctx):
    kind = ["callable-with-a-name", "callable-without-__name__(partial)", "non-callable-with-a-name", "None"][ctx.choose(4, "value")]
    nm = z3.String("__name__")
    value = {"callable-with-a-name": Rec("function", attrs={"__name__": nm}), "callable-without-__name__(partial)": Rec("partial"), "non-callable-with-a-name": Rec("object", attrs={"__name__": nm, "nc": True}), "None": None}[kind]
    return Setup(env={"value": value}, calls={"callable": lambda c, a, k: isinstance(a[0], Rec) and "nc" not in a[0].attrs}, data=dict(kind=kind, nm=nm), watch={"name": nm})


def il_post(ctx, st, result):
    d = st.data
    want = (d["nm"] == z3.StringVal("<lambda>")) if d["kind"] == "callable-with-a-name" else z3.BoolVal(False)
    ctx.oblige("post", f"a-lambda-is-a-callable-whose-__name__-is-'<lambda>';nothing-else-is[{d['kind']}]", (result == want) if is_z3(result) else (z3.BoolVal(bool(result)) == want))


def hdn_setup(ctx):
    attr_name = ["__init__", "run"][ctx.choose(2, "attr_name")]
    new = ["object.__new__", "its-own", "inherited-from-first-base", "inherited-from-second-base"][ctx.choose(4, "cls.__new__-is")]
    generic = ctx.choose(2, "cls-is-a-generic-alias") == 1
    OBJ_NEW, OWN, B1, B2 = Rec("object.__new__"), Rec("own __new__"), Rec("base1 __new__"), Rec("base2 __new__")
    the_new = {"object.__new__": OBJ_NEW, "its-own": OWN, "inherited-from-first-base": B1, "inherited-from-second-base": B2}[new]
    base1, base2, obj = Rec("class Base1", attrs={"__new__": B1}), Rec("class Base2", attrs={"__new__": B2}), Rec("class object", attrs={"__new__": OBJ_NEW})
    origin = Rec("class K", attrs={"__new__": the_new})
    cls = Rec("K[int]", attrs={"__new__": the_new, "__origin__": origin}) if generic else origin
    calls = {"get_generic_origin": lambda c, a, k: a[0].attrs.get("__origin__", a[0]), "inspect.getmro": lambda c, a, k: (c.event("mro", a[0]), (origin, base1, base2, obj))[1]}
    return Setup(env={"cls": cls, "attr_name": attr_name}, calls=calls, consts={"object.__new__": OBJ_NEW}, data=dict(attr_name=attr_name, new=new, origin=origin, generic=generic))


def hdn_post(ctx, st, result):
    d = st.data
    ctx.oblige("post", f"true-exactly-when-the-constructor-is-asked-for(__init__)-and-the-class-defines-__new__-itself(not object's,not one inherited from a base)[{d['attr_name']};{d['new']};{'generic alias' if d['generic'] else 'class'}]",
               result is (d["attr_name"] == "__init__" and d["new"] == "its-own"))
    ctx.oblige("post", "the-bases-are-those-of-the-class(of the origin of a generic alias)", all(e[1] is d["origin"] for e in ctx.events))


# ------------------------------------------------------------------------------------------------ get_parameter_origins
PO = ["function", "method", "pair-of-functions", "pair-of-methods", "pair-with-parents-of-other-length", "List[Union[A, B]]-typehint"]


def gpo_setup(ctx):
    case = PO[ctx.choose(len(PO), "component")]
    seq_origin = Rec("list origin")

    def comp(i):
        return Rec(f"component{i}", attrs={"__name__": z3.String(f"name{i}")})

    c0, c1, p0, p1 = comp(0), comp(1), Rec("class P0"), Rec("class P1")
    paths = {id(x): z3.String(f"import_path({x.cls})") for x in (c0, c1, p0, p1)}
    hint = Rec("List[Union[A, B]]", attrs={"origin": seq_origin})
    component, parent = {"function": (c0, None), "method": (c0, p0), "pair-of-functions": ((c0, c1), None), "pair-of-methods": ((c0, c1), (p0, p1)), "pair-with-parents-of-other-length": ((c0, c1), (p0,)),
                         "List[Union[A, B]]-typehint": (hint, None)}[case]
    calls = {"get_typehint_origin": lambda c, a, k: a[0].attrs.get("origin") if isinstance(a[0], Rec) else None, "get_subclass_types": lambda c, a, k: (c.event("subclass-types", a[0], dict(k)), (c0, c1))[1],
             "get_import_path": lambda c, a, k: paths[id(a[0])] if id(a[0]) in paths else _no_such_field(c, Rec("NoneType"), ("__module__",), {}), "iter_to_set_str": lambda c, a, k: ("set-str", list(a[0]))}
    return Setup(env={"component": component, "parent": parent}, calls=calls, consts={"sequence_origin_types": (seq_origin,)}, inline={"get_parameter_origins": MOD + ":get_parameter_origins"},
                 data=dict(case=case, c0=c0, c1=c1, p0=p0, p1=p1, paths=paths))


def gpo_post(ctx, st, result):
    d = st.data
    P = lambda x: d["paths"][id(x)]  # noqa: E731
    meth = lambda p, c: z3.Concat(P(p), z3.StringVal("."), c.attrs["__name__"])  # noqa: E731
    case = d["case"]
    if case == "function":
        ctx.oblige("post", "a-function's-origin-is-its-import-path", result == P(d["c0"]) if is_z3(result) else False)
    elif case == "method":
        ctx.oblige("post", "a-method's-origin-is-<import path of its class>.<name of the method>", result == meth(d["p0"], d["c0"]) if is_z3(result) else False)
    else:
        ok = isinstance(result, tuple) and result[0] == "set-str" and len(result[1]) == 2 and all(is_z3(x) for x in result[1])
        want = [meth(d["p0"], d["c0"]), meth(d["p1"], d["c1"])] if case == "pair-of-methods" else [P(d["c0"]), P(d["c1"])]
        ctx.oblige("post", f"several-components(a tuple,or the classes of a list type hint)-give-the-set-of-their-origins,each-with-its-own-parent[{case}]", z3.And(*[g == w for g, w in zip(result[1], want)]) if ok else False)
        ctx.oblige("post", f"a-pair-that-was-given-as-such-is-not-expanded-again[{case}]", (len(ctx.events) == 1 and ctx.events[0][2] == {"also_lists": True}) if case.startswith("List") else not ctx.events)


def gpo_raises(ctx, st, exc):
    ctx.oblige("raises", f"only-components-and-parents-of-different-length-are-refused(AssertionError)[{st.data['case']}](got {exc.cls}@{exc.origin})", exc.cls == "AssertionError" and st.data["case"] == "pair-with-parents-of-other-length")


# ------------------------------------------------------------------------------------------------ ast_is_super_call / ast_is_attr_assign
SUPER_FORMS = ["super().__init__(..)", "super(K, self).m(..)", "sup().__init__(..)", "base.__init__(..)", "super.__init__(..)", "super()(..)", "f(..)", "mod.super().m(..)", "not-a-call:assignment"]


def isc_setup(ctx):
    ast_classes(ctx)
    form = SUPER_FORMS[ctx.choose(len(SUPER_FORMS), "node")]
    node = {"super().__init__(..)": lambda: call(attribute(call(name("super")), "__init__")), "super(K, self).m(..)": lambda: call(attribute(call(name("super"), [name("K"), name("self")]), "m")),
            "sup().__init__(..)": lambda: call(attribute(call(name("sup")), "__init__")), "base.__init__(..)": lambda: call(attribute(name("base"), "__init__")), "super.__init__(..)": lambda: call(attribute(name("super"), "__init__")),
            "super()(..)": lambda: call(call(name("super"))), "f(..)": lambda: call(name("f")), "mod.super().m(..)": lambda: call(attribute(call(attribute(name("mod"), "super")), "m")),
            "not-a-call:assignment": lambda: N("Assign", targets=[name("t", STORE())], value=call(attribute(call(name("super")), "__init__")))}[form]()
    return Setup(env={"node": node}, consts=HELPER_CONSTS, data=dict(form=form))


def isc_post(ctx, st, result):
    f = st.data["form"]
    ctx.oblige("post", f"a-super-call-is-exactly-a-call-of-an-attribute-of-a-call-of-the-plain-name-super:super(..).m(..)[{f}]", result is (f in ("super().__init__(..)", "super(K, self).m(..)")))


ATTR_ASSIGN = ["self.x = v", "self.x: T = v", "x = v", "other.x = v", "self.a.x = v", "y = self.x = v", "self.x, y = v", "not-an-assignment:call", "self.x += v"]


def iaa_setup(ctx):
    ast_classes(ctx)
    form = ATTR_ASSIGN[ctx.choose(len(ATTR_ASSIGN), "node")]
    at = z3.String("attribute-name")
    sx = lambda: attribute(name("self"), at, STORE())  # noqa: E731
    node = {"self.x = v": lambda: N("Assign", targets=[sx()], value=name("v")), "self.x: T = v": lambda: N("AnnAssign", target=sx(), annotation=name("T"), value=name("v")),
            "x = v": lambda: N("Assign", targets=[name("x", STORE())], value=name("v")), "other.x = v": lambda: N("Assign", targets=[attribute(name("other"), at, STORE())], value=name("v")),
            "self.a.x = v": lambda: N("Assign", targets=[attribute(attribute(name("self"), "a"), at, STORE())], value=name("v")), "y = self.x = v": lambda: N("Assign", targets=[name("y", STORE()), sx()], value=name("v")),
            "self.x, y = v": lambda: N("Assign", targets=[Rec("Tuple", attrs={"elts": [sx(), name("y", STORE())]})], value=name("v")), "not-an-assignment:call": lambda: call(name("f"), [sx()]),
            "self.x += v": lambda: N("AugAssign", target=sx(), value=name("v"))}[form]()
    ctx.classes.add("Tuple", ["AST"])
    return Setup(env={"node": node, "container": "self"}, consts=HELPER_CONSTS, inline=inl("ast_get_assign_targets"), data=dict(form=form, at=at))


def iaa_post(ctx, st, result):
    d = st.data
    if d["form"] in ("self.x = v", "self.x: T = v", "y = self.x = v"):
        ctx.oblige("post", f"an-assignment(plain,annotated,chained)-with-a-target-self.<name>-gives-that-name[{d['form']}]", (result == d["at"]) if is_z3(result) else False)
    else:
        ctx.oblige("post", f"anything-else(local target,another object's attribute,nested attribute,unpacking,augmented assignment,no assignment)-is-no-attribute-assignment:False[{d['form']}]", result is False)


# ------------------------------------------------------------------------------------------------ is_param_subclass_instance_default
DEFAULTS = ["instance-of-the-annotated-class", "instance-of-a-subclass", "instance-of-an-unrelated-class", "dataclass-instance-of-the-annotated-class", "None", "lambda", "named-function"]
ANNOTS = ["Base", "Optional[Base]", "Callable[[int], Base]", "Optional[Callable[[int], Base]]", "Callable[[int], int]", "bare-Callable", "int", "untyped"]


def psd_setup(ctx):
    for c_, b in (("Base", ["object"]), ("Child", ["Base"]), ("Unrelated", ["object"]), ("DataBase", ["Base"]), ("function", ["object"])):
        ctx.classes.add(c_, b)
    dk, ak = DEFAULTS[ctx.choose(len(DEFAULTS), "default")], ANNOTS[ctx.choose(len(ANNOTS), "annotation")]
    default = {"instance-of-the-annotated-class": Rec("Base"), "instance-of-a-subclass": Rec("Child"), "instance-of-an-unrelated-class": Rec("Unrelated"), "dataclass-instance-of-the-annotated-class": Rec("DataBase"), "None": None,
               "lambda": Rec("function", attrs={"__name__": "<lambda>"}), "named-function": Rec("function", attrs={"__name__": "make"})}[dk]
    BASE, INT = Rec("hint Base", attrs={"classes": (ClassRef("Base"),)}), Rec("hint int", attrs={"classes": ()})
    call_base, call_int, bare = Rec("Callable[[int], Base]", attrs={"__args__": (INT, BASE), "callable": True, "classes": (ClassRef("Base"),)}), Rec("Callable[[int], int]", attrs={"__args__": (INT, INT), "callable": True, "classes": ()}), Rec("Callable", attrs={"callable": True, "classes": ()})
    inner = {"Base": BASE, "Optional[Base]": BASE, "Callable[[int], Base]": call_base, "Optional[Callable[[int], Base]]": call_base, "Callable[[int], int]": call_int, "bare-Callable": bare, "int": INT, "untyped": EMPTY}[ak]
    annotation = Rec(ak, attrs={"optional-of": inner}) if ak.startswith("Optional") else inner
    calls = {"is_dataclass_like": lambda c, a, k: a[0].name == "DataBase", "get_optional_arg": lambda c, a, k: a[0].attrs.get("optional-of", a[0]) if isinstance(a[0], Rec) else a[0],
             "get_subclass_types": lambda c, a, k: (c.event("subclass-types", dict(k)), (a[0].attrs.get("classes") or None) if isinstance(a[0], Rec) else None)[1],
             "ActionTypeHint.is_callable_typehint": lambda c, a, k: isinstance(a[0], Rec) and bool(a[0].attrs.get("callable")),
             "ActionTypeHint.is_subclass_typehint": lambda c, a, k: (c.event("is-subclass-hint", dict(k)), a[0] is BASE)[1], "callable": lambda c, a, k: isinstance(a[0], Rec) and a[0].cls == "function"}
    param = Rec("ParamData", attrs={"name": "p", "default": default, "annotation": annotation})
    return Setup(env={"param": param}, calls=calls, inline=inl("is_lambda"), data=dict(dk=dk, ak=ak))


def psd_post(ctx, st, result):
    d = st.data
    dk, ak = d["dk"], d["ak"]
    instance = dk in ("instance-of-the-annotated-class", "instance-of-a-subclass") and ak in ("Base", "Optional[Base]", "Callable[[int], Base]", "Optional[Callable[[int], Base]]")
    lam = dk == "lambda" and ak in ("Callable[[int], Base]", "Optional[Callable[[int], Base]]")
    ctx.oblige("post", f"a-default-is-rewritten-as-a-class-specification-exactly-when-it-is-an-instance-of(a subclass of)-the-class-the-annotation-asks-for(Optional stripped;the return class of a Callable)-and-no-dataclass,or-a-lambda-for-a-Callable-that-returns-a-class[{dk};{ak}]",
               result is (instance or lam))
    ctx.oblige("post", "the-classes-asked-for-include-a-Callable's-return-class", all(e[1] == {"callable_return": True} for e in ctx.events if e[0] == "subclass-types"))


# ------------------------------------------------------------------------------------------------ ParametersVisitor.__init__
def init_setup(ctx):
    comp, parent = Rec("component"), Rec("parent")
    self = Rec("ParametersVisitor")
    sup = Rec("super()", methods={"__init__": lambda c, s_, a, k: c.event("super-init", tuple(a), dict(k))})
    logger, foc = Rec("logger"), Rec("function_or_class")
    calls = {"super": lambda c, a, k: sup, "get_component_and_parent": lambda c, a, k: (c.event("cap", tuple(a)), (comp, parent, "resolved"))[1]}
    return Setup(env={"self": self, "function_or_class": foc, "method_or_property": "run", "kwargs": {"logger": logger}}, calls=calls, data=dict(self_=self, comp=comp, parent=parent, logger=logger, foc=foc))


def init_post(ctx, st, result):
    d = st.data
    a = d["self_"].attrs
    ctx.oblige("post", "the-visitor-works-on-the-component-and-parent-resolved-from(function_or_class,method_or_property)", a.get("component") is d["comp"] and a.get("parent") is d["parent"] and [e[1] for e in ctx.events if e[0] == "cap"] == [(d["foc"], "run")])
    ctx.oblige("post", "the-logger-goes-to-the-logger-base-class;no-parse-state-exists-yet(component_node is set by parse_source_tree only)", [(e[1], e[2]) for e in ctx.events if e[0] == "super-init"] == [((), {"logger": d["logger"]})] and "component_node" not in a)


# ------------------------------------------------------------------------------------------------ replace_param_default_subclass_specs
RPD = ["K(x=1, y='a')", "K()", "K(x=var)", "K(**d)", "K(x=1, **None)", "K(1)", "lambda a: K(a, x=1)", "lambda a: K(a, 2)", "lambda a: K()", "factory(x=1)[not a class]", "Other(x=1)[not a subclass of the annotation]"]


def dict_rec(c, a, k):
    store = dict(k)
    r = Rec("dict", attrs={"store": store})
    r.methods.update({"__getitem__": lambda c2, s_, a2, k2: store[a2[0]], "__setitem__": lambda c2, s_, a2, k2: store.__setitem__(a2[0], a2[1]), "__delitem__": lambda c2, s_, a2, k2: store.__delitem__(a2[0]),
                      "clear": lambda c2, s_, a2, k2: store.clear(), "__bool__": lambda c2, s_, a2, k2: bool(store)})
    return r


def plain(v):
    return {k: plain(x) for k, x in v.attrs["store"].items()} if isinstance(v, Rec) and v.cls == "dict" else v


def rpd_setup(ctx):
    ast_classes(ctx)
    n_flagged = ctx.choose(3, "params-with-a-class-instance-default")
    form = RPD[ctx.choose(len(RPD), "default-expression")] if n_flagged else None
    K, OTHER, K2 = Rec("class K"), Rec("class Other"), Rec("class K2")
    cls_of = {"K": K, "Other": OTHER, "K2": K2}
    is_lam = bool(form) and form.startswith("lambda")
    node = {None: lambda: None, "K(x=1, y='a')": lambda: call(name("K"), [], [kw("x", const(1)), kw("y", const("a"))]), "K()": lambda: call(name("K")), "K(x=var)": lambda: call(name("K"), [], [kw("x", name("var"))]),
            "K(**d)": lambda: call(name("K"), [], [kw("x", const(1)), kw(None, name("d"))]), "K(x=1, **None)": lambda: call(name("K"), [], [kw("x", const(1)), kw(None, const(None))]), "K(1)": lambda: call(name("K"), [const(1)]), "lambda a: K(a, x=1)": lambda: call(name("K"), [name("a")], [kw("x", const(1))]),
            "lambda a: K(a, 2)": lambda: call(name("K"), [name("a"), const(2)]), "lambda a: K()": lambda: call(name("K")), "factory(x=1)[not a class]": lambda: call(name("factory"), [], [kw("x", const(1))]),
            "Other(x=1)[not a subclass of the annotation]": lambda: call(name("Other"), [], [kw("x", const(1))])}[form]()
    default_node = N("Lambda", body=node) if is_lam else node
    BASE = Rec("hint Base")
    annotation = Rec("Callable[[int], Base]", attrs={"__args__": (Rec("int"), BASE)}) if is_lam else BASE
    inst0, inst1, plain_default = Rec("instance (default of p0)"), Rec("instance (default of p2)"), z3.Int("default of p1")
    p0 = Rec("ParamData", attrs={"name": "p0", "default": inst0, "annotation": annotation, "flag": n_flagged >= 1, "lambda": is_lam})
    p1 = Rec("ParamData", attrs={"name": "p1", "default": plain_default, "annotation": Rec("int"), "flag": False, "lambda": False})
    p2 = Rec("ParamData", attrs={"name": "p2", "default": inst1, "annotation": BASE, "flag": n_flagged >= 2, "lambda": False})
    node2 = call(name("K2"), [], [kw("z", const(True))])
    params = [p0, p1, p2]
    self = visitor()
    self.methods.update({"parse_source_tree": lambda c, s_, a, k: c.event("parse"),
                         "get_default_nodes": lambda c, s_, a, k: (c.event("default-nodes", tuple(a[0])), [n_ for p_, n_ in ((p0, default_node), (p2, node2)) if p_.attrs["flag"]])[1],
                         "get_call_class_type": lambda c, s_, a, k: cls_of.get(a[0].attrs["func"].attrs.get("id")) if isinstance(a[0], Rec) and a[0].cls == "Call" else None})
    calls = {"is_param_subclass_instance_default": lambda c, a, k: a[0].attrs["flag"], "is_lambda": lambda c, a, k: a[0] is inst0 and is_lam, "get_subclass_types": lambda c, a, k: (c.event("subclass-types", a[0], dict(k)), ("Base-classes",))[1],
             "is_subclass": lambda c, a, k: a[0] in (K, K2) and a[1] == ("Base-classes",), "get_import_path": lambda c, a, k: "pkg." + a[0].cls.split()[-1], "dict": dict_rec, "ast_str": lambda c, a, k: "text"}
    return Setup(env={"self": self, "params": params}, calls=calls, consts=HELPER_CONSTS, inline=inl("ast_is_constant", "ast_get_constant_value"),
                 data=dict(n_flagged=n_flagged, form=form, params=params, p0=p0, p1=p1, p2=p2, inst0=inst0, inst1=inst1, plain_default=plain_default, lst=list(params)))


def rpd_post(ctx, st, result):
    d = st.data
    form, n = d["form"], d["n_flagged"]
    tag = f"[{n} such params;{form}]"
    ctx.oblige("frame", "a-parameter-whose-default-is-no-class-instance-is-never-touched;the-list-keeps-its-parameters" + tag, d["p1"].attrs["default"] is d["plain_default"] and same_list(st.env["params"], d["lst"]) and (n >= 2 or d["p2"].attrs["default"] is d["inst1"]))
    if n == 0:
        ctx.oblige("post", "without-class-instance-defaults-the-source-is-not-needed(a component without source keeps resolving)" + tag, not ctx.events and d["p0"].attrs["default"] is d["inst0"])
        return
    want = {"K(x=1, y='a')": {"class_path": "pkg.K", "init_args": {"x": 1, "y": "a"}}, "K()": {"class_path": "pkg.K"}, "lambda a: K(a, x=1)": {"class_path": "pkg.K", "init_args": {"x": 1}}, "lambda a: K()": {"class_path": "pkg.K"}}.get(form)
    got = plain(d["p0"].attrs["default"])
    if want is not None:
        ctx.oblige("post", "a-default-written-as-a-call-of-a-subclass-with-constant-keyword-arguments(for a lambda: after the lambda's own positionals)-becomes{class_path, init_args}-with-exactly-those-arguments(init_args omitted when there are none)" + tag,
                   got == want, note=f"got {got!r}")
    else:
        ctx.oblige("post", "any-other-default-expression(non-constant or ** argument,positional argument,more positionals than the lambda passes on,no class,a class outside the annotation)-keeps-the-default-object-as-it-is" + tag, d["p0"].attrs["default"] is d["inst0"])
        if not form.startswith(("factory", "Other")):
            ctx.oblige("post", "an-unsupported-class-instance-default-is-logged" + tag, len([e for e in ctx.events if e[0] == "log"]) == 1)
    if n >= 2:
        ctx.oblige("post", "each-parameter-is-rewritten-from-its-own-default-expression(the nodes are matched to the parameters in order)" + tag, plain(d["p2"].attrs["default"]) == {"class_path": "pkg.K2", "init_args": {"z": True}})
    dn = [e for e in ctx.events if e[0] == "default-nodes"]
    ctx.oblige("post", "the-source-is-parsed-first;the-default-expressions-asked-for-are-those-of-exactly-the-parameters-concerned" + tag,
               ctx.events[0][0] == "parse" and len(dn) == 1 and sorted(dn[0][1]) == (["p0", "p2"] if n >= 2 else ["p0"]))


def rpd_raises(ctx, st, exc):
    ctx.oblige("raises", f"never-raises-for-parameters-whose-default-nodes-are-found(got {exc.cls}@{exc.origin})[{st.data['form']}]", False)


def units_small(prop):
    T = "inspect.isfunction / getattr_static / getmro, callable: as documented; isinstance by the class of the object"
    return [
        Unit(prop, MOD + ":is_staticmethod", pred_setup, pred_post("a-staticmethod-object,nothing-else", ("staticmethod",)), never, trusted=[T]),
        Unit(prop, MOD + ":is_method", pred_setup, pred_post("a-plain-function(or cython method)-found-in-a-class:not-a-staticmethod/classmethod-object,property-or-attribute", ("method", "cython-method")), never, trusted=[T]),
        Unit(prop, MOD + ":is_property", pred_setup, pred_post("a-property-object,nothing-else", ("property",)), never, trusted=[T]),
        Unit(prop, MOD + ":is_method_or_property", pred_setup, pred_post("what-has-a-self-and-a-body-to-search:methods-and-properties", ("method", "cython-method", "property")), never, trusted=[T]),
        Unit(prop, MOD + ":is_classmethod", icm_setup, icm_post, never, trusted=[T, "contextlib.suppress(AttributeError) swallows exactly AttributeError"]),
        Unit(prop, MOD + ":is_lambda", il_setup, il_post, never, trusted=[T]),
        Unit(prop, MOD + ":has_dunder_new_method", hdn_setup, hdn_post, never, trusted=[T, "cls.__new__ is the very function object of the class that defines it"]),
        Unit(prop, MOD + ":get_parameter_origins", gpo_setup, gpo_post, gpo_raises, expect_cover=("return", "raise:AssertionError"), trusted=["get_import_path (import_paths.py), get_subclass_types, iter_to_set_str (r2_typehelpers): their own units"]),
        Unit(prop, MOD + ":ast_is_super_call", isc_setup, isc_post, never, trusted=[AST_TRUST]),
        Unit(prop, MOD + ":ast_is_attr_assign", iaa_setup, iaa_post, never, trusted=[AST_TRUST]),
        Unit(prop, MOD + ":is_param_subclass_instance_default", psd_setup, psd_post, never, trusted=["get_optional_arg, get_subclass_types, is_dataclass_like, ActionTypeHint.is_callable_typehint / is_subclass_typehint: their own units (r2_typehelpers / c02)"]),
        Unit(prop, PV + "__init__", init_setup, init_post, never, trusted=["LoggerProperty.__init__(logger=..)"]),
        Unit(prop, PV + "replace_param_default_subclass_specs", rpd_setup, rpd_post, rpd_raises, trusted=[AST_TRUST, "is_param_subclass_instance_default, get_default_nodes, get_call_class_type, parse_source_tree: their own units (this module); get_subclass_types, is_subclass, get_import_path by contract",
                                                                                                          "precondition: get_default_nodes returns one node per name asked for (its own unit: refuted for keyword-only parameters - see there)"]),
    ]


def units(prop):
    return units_visitor(prop) + units_callee(prop) + units_signature(prop) + units_small(prop)


CARRIES = {"C13": ["ParametersVisitor.visit_Assign", "ParametersVisitor.visit_AnnAssign", "ParametersVisitor.visit_Call", "ParametersVisitor.visit_If", "ParametersVisitor.visit_Import", "ParametersVisitor.visit_ImportFrom",
                   "ParametersVisitor.add_value", "ParametersVisitor.find_values_usage", "ParametersVisitor.get_node_component", "ParametersVisitor.get_component_from_source", "ParametersVisitor.match_call_that_uses_attr",
                   "ParametersVisitor.get_parameters_attr_use_in_members", "ParametersVisitor.parse_source_tree", "ParametersVisitor.get_node_origin", "ParametersVisitor.remove_ignore_parameters",
                   "ParametersVisitor.get_component_globals", "ParametersVisitor.get_call_class_type", "ParametersVisitor.get_default_nodes", ":get_parameters_from_ast", ":get_component_and_parent",
                   ":get_signature_parameters_and_indexes", ":get_parameters_by_assumptions", ":get_parameters_from_stubs", ":add_stub_types", ":unpack_typed_dict_kwargs", ":replace_generic_type_vars",
                   ":is_staticmethod", ":is_method", ":is_property", ":is_method_or_property", ":is_classmethod", ":is_lambda", ":has_dunder_new_method", ":get_parameter_origins", ":ast_is_super_call", ":ast_is_attr_assign",
                   ":is_param_subclass_instance_default", "ParametersVisitor.__init__", "ParametersVisitor.replace_param_default_subclass_specs"]}
