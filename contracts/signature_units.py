"""SignatureArguments.add_class_arguments (jsonargparse/_signatures.py): the class / dataclass style of declaring a group (C07, C12).

  * not a class -> ValueError; a default that is not None / dict / Namespace / a lazy instance of the class / a (non-final)
    dataclass-like instance of the class -> ValueError, before anything is declared;
  * the parameters are declared by _add_signature_arguments with every argument in its role (class, no method, nested key, group /
    positional flags, skip set, fail_untyped, sub_configs, instantiate, linked targets, help);
  * a default dict / Namespace / instance then becomes the defaults of the declared members: *every* member it holds - a None as much as
    any other value, which is what makes a declared-by-instance group equal to the same group declared member by member - under
    nested_key + '.', except the skipped ones and (for instances) the fields that were not declared (init=False);
  * the result is the list of declared keys.
"""
import z3

from pyvc.engine import ClassRef, Rec
from pyvc.units import Setup, Unit

DEFAULTS = ["none", "dict", "empty-dict", "namespace", "lazy-instance", "lazy-instance-of-another-class", "dataclass-instance", "dataclass-instance-of-another-class",
            "final-class-instance", "plain-object"]


def aca2_setup(ctx):
    is_class = ctx.choose(2, "theclass-is-a-class") == 1
    dk = DEFAULTS[ctx.choose(len(DEFAULTS), "default")]
    nested_key = [None, "g"][ctx.choose(2, "nested_key")]
    skip_given = ctx.choose(2, "skip-given") == 1
    for n, bases in (("TheClass", []), ("OtherClass", []), ("Namespace", []), ("LazyInitBaseClass", []), ("LazyTheClass", ["LazyInitBaseClass", "TheClass"]), ("LazyOther", ["LazyInitBaseClass", "OtherClass"])):
        ctx.classes.add(n, bases)
    theclass = ClassRef("TheClass") if is_class else Rec("not a class")
    # the members a default may hold: a plain value, a skipped one, an explicit None, and a field that is not a constructor parameter
    content = {"a": z3.Int("default_a"), "b": z3.Int("default_b"), "c": None, "nf": z3.Int("init_false_field")}
    meta = Rec("class-of-default", attrs={"kind": dk})
    if dk == "none":
        default = None
    elif dk == "dict":
        default = {k: v for k, v in content.items() if k != "nf"}
    elif dk == "empty-dict":
        default = {}
    elif dk == "namespace":
        default = Rec("Namespace", attrs={"__class__": Rec("class-of-default", attrs={"kind": "namespace"})}, methods={"as_dict": lambda c, s_, a, k: {k2: v for k2, v in content.items() if k2 != "nf"}, "__bool__": lambda c, s_, a, k: True})
    elif dk.startswith("lazy"):
        init = Rec("Namespace(lazy init args)", methods={"as_dict": lambda c, s_, a, k: {k2: v for k2, v in content.items() if k2 != "nf"}})
        default = Rec("LazyTheClass" if dk == "lazy-instance" else "LazyOther", attrs={"__class__": meta}, methods={"lazy_get_init_args": lambda c, s_, a, k: init, "__bool__": lambda c, s_, a, k: True})
    elif dk.startswith("dataclass") or dk == "final-class-instance":
        default = Rec("OtherClass" if dk.endswith("another-class") else "TheClass", attrs={"__class__": meta}, methods={"__bool__": lambda c, s_, a, k: True})
    else:
        default = Rec("OtherClass", attrs={"__class__": meta}, methods={"__bool__": lambda c, s_, a, k: True})
    skip = {"b"} if skip_given else None
    prefix = nested_key + "." if nested_key else ""
    added = [prefix + "a", prefix + "b", prefix + "c"]
    flags = {"as_group": Rec("as_group"), "as_positional": Rec("as_positional"), "instantiate": Rec("instantiate"), "fail_untyped": Rec("fail_untyped"), "sub_configs": Rec("sub_configs")}
    lt, hlp = Rec("linked_targets"), Rec("help")
    # the keys the declaration made required (parameters without default); a group-level default gives them a value, it does not make them optional
    required = {prefix + "a", prefix + "b", "other"}
    self = Rec("ArgumentParser", attrs={"required_args": set(required)})
    self.methods["_add_signature_arguments"] = lambda c, s_, a, k: (c.event("declare", list(a), dict(k), None if skip is None else set(skip)), list(added))[1]
    self.methods["set_defaults"] = lambda c, s_, a, k: c.event("set_defaults", list(a), dict(k))
    calls = {"get_unaliased_type": lambda c, a, k: a[0], "get_generic_origin": lambda c, a, k: a[0], "inspect.isclass": lambda c, a, k: isinstance(a[0], ClassRef),
             "is_final_class": lambda c, a, k: isinstance(a[0], Rec) and a[0].attrs["kind"] == "final-class-instance",
             "is_dataclass_like": lambda c, a, k: isinstance(a[0], Rec) and a[0].attrs["kind"] in ("dataclass-instance", "dataclass-instance-of-another-class", "final-class-instance"),
             "dataclass_to_dict": lambda c, a, k: dict(content),
             "get_private_kwargs": lambda c, a, k: (a[0].pop("linked_targets", None), a[0].pop("help", None), a[0].pop("required", None))}
    consts = {"NoneType": ClassRef("NoneType"), "Namespace": ClassRef("Namespace"), "LazyInitBaseClass": ClassRef("LazyInitBaseClass")}
    env = {"self": self, "theclass": theclass, "nested_key": nested_key, "default": default, "skip": skip, "kwargs": {"linked_targets": lt, "help": hlp, "required": True}, **flags}
    return Setup(env=env, calls=calls, consts=consts,
                 data=dict(self_rec=self, required=required, is_class=is_class, dk=dk, nested_key=nested_key, skip=skip, skip_given=skip_given, content=content, default=default, added=added, flags=flags, lt=lt, hlp=hlp, theclass=theclass, prefix=prefix))


ACCEPTED = ("none", "dict", "empty-dict", "namespace", "lazy-instance", "dataclass-instance")


def aca2_post(ctx, st, result):
    d = st.data
    tag = f"[default={d['dk']},nested_key={d['nested_key']},skip={'given' if d['skip_given'] else 'None'}]"
    ctx.oblige("post", "accepted=>a-class-and-a-default-that-is-None/dict/Namespace/a-lazy-instance-of-the-class/a-non-final-dataclass-like-instance-of-the-class" + tag, d["is_class"] and d["dk"] in ACCEPTED)
    dec = [e for e in ctx.events if e[0] == "declare"]
    f = d["flags"]
    ok = len(dec) == 1
    if ok:
        a, k, skip_then = dec[0][1], dec[0][2], dec[0][3]
        ok = (len(a) == 7 and a[0] is d["theclass"] and a[1] is None and a[2] == d["nested_key"] and a[3] is f["as_group"] and a[4] is f["as_positional"] and a[5] is d["skip"] and a[6] is f["fail_untyped"]
              and set(k) == {"sub_configs", "instantiate", "linked_targets", "help"} and k["sub_configs"] is f["sub_configs"] and k["instantiate"] is f["instantiate"] and k["linked_targets"] is d["lt"] and k["help"] is d["hlp"]
              and skip_then == (None if not d["skip_given"] else {"b"}))
    ctx.oblige("post", "the-parameters-are-declared-once-by-_add_signature_arguments,every-argument-in-its-role(class,no method,nested key,flags,the caller's skip set,linked targets,help)" + tag, ok)
    ctx.oblige("post", "the-result-is-the-list-of-declared-keys" + tag, result == d["added"])
    ctx.oblige("frame", "a-group-level-default-does-not-change-which-keys-are-required(a required key set to null is still refused by check_required)" + tag,
               set(d["self_rec"].attrs) == {"required_args"} and d["self_rec"].attrs["required_args"] == d["required"])
    sd = [e for e in ctx.events if e[0] == "set_defaults"]
    if d["dk"] in ("none", "empty-dict"):
        ctx.oblige("post", "no-default-given=>no-default-is-set" + tag, not sd)
        return
    skipped = {"b"} if d["skip_given"] else set()
    members = [m for m in ("a", "b", "c", "nf") if not (m == "nf" and d["dk"] != "dataclass-instance")]
    want = {d["prefix"] + m: d["content"][m] for m in members if m not in skipped and m != "nf"}
    got = sd[0][2] if len(sd) == 1 and not sd[0][1] else None
    ok = got is not None and list(got) == list(want) and all(got[x] is want[x] for x in want)
    ctx.oblige("post", "every-member-the-default-holds(a None like any other value)-becomes-the-default-of-the-declared-member-under-the-nested-key,except-the-skipped-ones-and-fields-that-were-not-declared" + tag, ok,
               note=f"want {list(want)}, got {None if got is None else list(got)}")
    ctx.oblige("post", "the-declaration-saw-the-caller's-skip-set-before-undeclared-fields-were-added-to-it" + tag, len(dec) == 1 and [e[0] for e in ctx.events if e[0] in ("declare", "set_defaults")] == ["declare", "set_defaults"])


def aca2_raises(ctx, st, exc):
    d = st.data
    tag = f"[default={d['dk']}]"
    ctx.oblige("raises", "refused=>ValueError:not-a-class,or-a-default-of-an-unsupported-kind" + tag, exc.cls == "ValueError" and (not d["is_class"] or d["dk"] not in ACCEPTED))
    ctx.oblige("frame", "refused-before-anything-is-declared" + tag, not ctx.events)


def add_class_arguments_unit(prop):
    return Unit(prop, "jsonargparse._signatures:SignatureArguments.add_class_arguments", aca2_setup, aca2_post, aca2_raises, expect_cover=("return", "raise:ValueError"),
                trusted=["_add_signature_arguments: its own unit", "set_defaults: its own unit (C04)", "dataclass_to_dict / lazy_get_init_args / Namespace.as_dict return the members of the instance as a dict",
                         "is_dataclass_like / is_final_class / inspect.isclass classify the class (A4)", "get_private_kwargs pops the private keywords"])


UNITS = [add_class_arguments_unit("C07")]


# ------------------------------------------------------------------------------------- add_method_arguments / add_function_arguments
def ama_setup(ctx):
    is_class = ctx.choose(2, "theclass-is-a-class") == 1
    member = ["callable-member", "non-callable-member", "no-such-member"][ctx.choose(3, "themethod")]
    theclass = ClassRef("TheClass") if is_class else Rec("not a class")
    ctx.classes.add("TheClass", [])
    method = Rec("function run")
    flags = {k: Rec(k) for k in ("nested_key", "as_group", "as_positional", "skip", "fail_untyped", "sub_configs")}
    added = Rec("list of added keys")
    self = Rec("ArgumentParser", methods={"_add_signature_arguments": lambda c, s_, a, k: (c.event("declare", list(a), dict(k)), added)[1]})
    calls = {"get_unaliased_type": lambda c, a, k: a[0], "get_generic_origin": lambda c, a, k: a[0], "inspect.isclass": lambda c, a, k: isinstance(a[0], ClassRef),
             "hasattr": lambda c, a, k: a[1] == "run" and member != "no-such-member", "getattr": lambda c, a, k: method if member == "callable-member" else 7,
             "callable": lambda c, a, k: a[0] is method}
    return Setup(env={"self": self, "theclass": theclass, "themethod": "run", **flags}, calls=calls, data=dict(is_class=is_class, member=member, theclass=theclass, flags=flags, added=added))


def ama_post(ctx, st, result):
    d = st.data
    f = d["flags"]
    ctx.oblige("post", "accepted=>a-class-with-a-callable-member-of-that-name", d["is_class"] and d["member"] == "callable-member")
    dec = [e for e in ctx.events if e[0] == "declare"]
    ok = len(dec) == 1 and result is d["added"]
    if ok:
        a, k = dec[0][1], dec[0][2]
        ok = len(a) == 7 and a[0] is d["theclass"] and a[1] == "run" and all(x is f[n] for x, n in zip(a[2:], ("nested_key", "as_group", "as_positional", "skip", "fail_untyped"))) and set(k) == {"sub_configs"} and k["sub_configs"] is f["sub_configs"]
    ctx.oblige("post", "the-method's-parameters-are-declared-once:(class,method name,nested key,group/positional flags,skip,fail_untyped,sub_configs)-in-their-roles;the-declared-keys-are-returned", ok)


def ama_raises(ctx, st, exc):
    d = st.data
    ctx.oblige("raises", "refused=>ValueError:not-a-class,or-no-callable-member-of-that-name;nothing-declared", exc.cls == "ValueError" and not (d["is_class"] and d["member"] == "callable-member") and not ctx.events)


def add_method_arguments_unit(prop):
    return Unit(prop, "jsonargparse._signatures:SignatureArguments.add_method_arguments", ama_setup, ama_post, ama_raises, expect_cover=("return", "raise:ValueError"),
                trusted=["_add_signature_arguments: its own unit", "inspect.isclass / hasattr / getattr / callable as documented (A4)"])


def afa_setup(ctx):
    kind = ["function", "callable-instance", "not-callable"][ctx.choose(3, "function")]
    cls_of = Rec("class of the instance")
    fn = Rec("the function", attrs={"__class__": cls_of})
    flags = {k: Rec(k) for k in ("nested_key", "as_group", "as_positional", "skip", "fail_untyped", "sub_configs")}
    added = Rec("list of added keys")
    self = Rec("ArgumentParser", methods={"_add_signature_arguments": lambda c, s_, a, k: (c.event("declare", list(a), dict(k)), added)[1]})
    calls = {"callable": lambda c, a, k: kind != "not-callable", "hasattr": lambda c, a, k: True, "callable_instances": lambda c, a, k: kind == "callable-instance" and a[0] is cls_of}
    return Setup(env={"self": self, "function": fn, **flags}, calls=calls, data=dict(kind=kind, fn=fn, cls_of=cls_of, flags=flags, added=added))


def afa_post(ctx, st, result):
    d = st.data
    f = d["flags"]
    ctx.oblige("post", "accepted=>callable", d["kind"] != "not-callable")
    dec = [e for e in ctx.events if e[0] == "declare"]
    ok = len(dec) == 1 and result is d["added"]
    if ok:
        a, k = dec[0][1], dec[0][2]
        want0, want1 = (d["cls_of"], "__call__") if d["kind"] == "callable-instance" else (d["fn"], None)
        ok = len(a) == 7 and a[0] is want0 and a[1] == want1 and all(x is f[n] for x, n in zip(a[2:], ("nested_key", "as_group", "as_positional", "skip", "fail_untyped"))) and set(k) == {"sub_configs"} and k["sub_configs"] is f["sub_configs"]
    ctx.oblige("post", f"the-parameters-of-the-function(of the class's __call__ for a callable instance)-are-declared-once,every-argument-in-its-role;the-declared-keys-are-returned[{d['kind']}]", ok)


def afa_raises(ctx, st, exc):
    ctx.oblige("raises", "refused=>ValueError-for-something-not-callable;nothing-declared", exc.cls == "ValueError" and st.data["kind"] == "not-callable" and not ctx.events)


def add_function_arguments_unit(prop):
    return Unit(prop, "jsonargparse._signatures:SignatureArguments.add_function_arguments", afa_setup, afa_post, afa_raises, expect_cover=("return", "raise:ValueError"),
                trusted=["_add_signature_arguments: its own unit", "callable_instances(cls) tells classes whose instances are callable"])


# ------------------------------------------------------------------------------------- add_subclass_arguments
def asub_setup(ctx):
    base_kind = ["one-class", "tuple-of-two", "empty-tuple", "dataclass-like", "tuple-with-a-non-class"][ctx.choose(5, "baseclass")]
    skip_given = ctx.choose(2, "skip-given") == 1
    default_given = ctx.choose(2, "default-given") == 1
    A, B, N = Rec("class A", attrs={"ok": True}), Rec("class B", attrs={"ok": True}), Rec("int-like", attrs={"ok": False})
    baseclass = {"one-class": A, "tuple-of-two": (A, B), "empty-tuple": (), "dataclass-like": A, "tuple-with-a-non-class": (A, N)}[base_kind]
    group = Rec("group")
    flags = {k: Rec(k) for k in ("as_group", "instantiate", "required")}
    dflt = Rec("default given")
    kwargs = {"default": dflt} if default_given else {}
    self = Rec("ArgumentParser", attrs={"logger": Rec("logger")})
    self.methods["_create_group_if_requested"] = lambda c, s_, a, k: (c.event("group", list(a), dict(k)), group)[1]
    self.methods["_add_signature_parameter"] = lambda c, s_, a, k: c.event("param", list(a), dict(k), None if a[4] is None else set(a[4]))
    calls = {"is_dataclass_like": lambda c, a, k: base_kind == "dataclass-like", "ActionTypeHint.is_subclass_typehint": lambda c, a, k: a[0].attrs["ok"] and k.get("also_lists") is True,
             "get_doc_short_description": lambda c, a, k: ("doc-of", a[0]), "ParamData": lambda c, a, k: Rec("ParamData", attrs=dict(k)),
             "get_subclass_names": lambda c, a, k: ("names-of", a[0]), "iter_to_set_str": lambda c, a, k: "{A,B}", "Union.__getitem__": lambda c, a, k: ("Union", a[0])}
    consts = {"Union": Rec("Union", methods={"__getitem__": lambda c, s_, a, k: ("Union", a[0])})}
    env = {"self": self, "baseclass": baseclass, "nested_key": "m", "skip": {"x", "y"} if skip_given else None, "metavar": "MV", "help": "any subclass of %(baseclass_name)s.", "kwargs": kwargs, **flags}
    return Setup(env=env, calls=calls, consts=consts, data=dict(base_kind=base_kind, skip_given=skip_given, default_given=default_given, baseclass=baseclass, group=group, flags=flags, dflt=dflt, self_=self, A=A))


def asub_post(ctx, st, result):
    d = st.data
    f = d["flags"]
    tag = f"[{d['base_kind']},skip={'given' if d['skip_given'] else 'None'},default={'given' if d['default_given'] else 'omitted'}]"
    ctx.oblige("post", "accepted=>one-class-or-a-non-empty-tuple-of-classes,none-of-them-dataclass-like" + tag, d["base_kind"] in ("one-class", "tuple-of-two"))
    bases = d["baseclass"] if isinstance(d["baseclass"], tuple) else (d["baseclass"],)
    g = [e for e in ctx.events if e[0] == "group"]
    ok = len(g) == 1
    if ok:
        a, k = g[0][1], g[0][2]
        ok = len(a) == 4 and a[0] == bases and a[1] == "m" and a[2] is f["as_group"] and a[3] == (("doc-of", d["A"]) if len(bases) == 1 else None) and k == {"config_load": False, "required": f["required"], "instantiate": False}
    ctx.oblige("post", "the-group-is-created-for-the-base-classes-under-the-nested-key(no whole-group loader,not instantiated as a group,required as asked)" + tag, ok)
    p = [e for e in ctx.events if e[0] == "param"]
    ok = len(p) == 1
    if ok:
        a, k, skip_then = p[0][1], p[0][2], p[0][3]
        param = a[2]
        ok = (len(a) == 5 and a[0] is d["group"] and a[1] is None and isinstance(param, Rec) and param.attrs.get("name") == "m" and param.attrs.get("annotation") == ("Union", bases) and param.attrs.get("component") == bases
              and a[3] == [] and skip_then == ({"m.init_args.x", "m.init_args.y"} if d["skip_given"] else None)
              and k.get("sub_configs") is True and k.get("instantiate") is f["instantiate"] and k.get("metavar") == "MV" and k.get("help") == "any subclass of {A,B}."
              and (k.get("default") is d["dflt"] if d["default_given"] else ("default" in k and k["default"] is None)) and set(k) == {"sub_configs", "instantiate", "metavar", "help", "default"})
    ctx.oblige("post", "one-parameter-named-by-the-nested-key,typed-Union[the base classes],is-declared-in-that-group:skipped-names-address-its-init_args,sub-configs-on,default-None-unless-given,help-names-the-subclasses" + tag, ok)


def asub_raises(ctx, st, exc):
    d = st.data
    ctx.oblige("raises", f"refused=>ValueError-for-a-dataclass-like-class,an-empty-tuple-or-a-member-that-is-no-subclass-type;nothing-declared[{d['base_kind']}]",
               exc.cls == "ValueError" and d["base_kind"] in ("empty-tuple", "dataclass-like", "tuple-with-a-non-class") and not ctx.events)


def add_subclass_arguments_unit(prop):
    return Unit(prop, "jsonargparse._signatures:SignatureArguments.add_subclass_arguments", asub_setup, asub_post, asub_raises, expect_cover=("return", "raise:ValueError"),
                trusted=["_create_group_if_requested / _add_signature_parameter: their own units (C07, C12)", "ActionTypeHint.is_subclass_typehint / is_dataclass_like classify the classes (A4)",
                         "get_subclass_names / iter_to_set_str / get_doc_short_description only produce help text"])


UNITS += [add_method_arguments_unit("C12"), add_function_arguments_unit("C12"), add_subclass_arguments_unit("C14")]
