"""C01 - a dumped configuration re-parses to the same configuration.

Proved (or refuted) here:
  lemma plain-scalar agreement   the YAML resolver tables are extracted on every run from the real loader class
                                 (get_yaml_default_loader) and from the dumper yaml_dump uses (yaml.SafeDumper); Python
                                 regexes are translated to RegLan.  (a) every str the dumper emits plain (it resolves to
                                 str for the dumper) is read back as a str by the loader; (b) the dumper's texts for
                                 int / float / bool / null values are read back with the same tag.
  load_basic                     true/false/null and -?digits only; what it returns for them
  _ActionPrintConfig.__call__    flag mapping of --print_config (skip_null -> skip_none, comments -> yaml_comments ...)
The serialise∘deserialise agreement per type constructor lives in adapt_typehints (outside the verifier's reach as a whole;
its Union arm is under contract in C02) and is checked by the bounded round-trip harness.
"""
import json
import os
import re
import subprocess

import z3

from pyvc import REPO, VENV_PY, VERIF
from pyvc.engine import ClassRef, ExcVal, PyRaise, Rec, Unsupported, lift, is_z3
from pyvc.units import Lemma, Setup, Unit, make_ob

S = z3.StringSort()


def resolver_tables():
    env = dict(os.environ, PYTHONPATH=REPO)
    p = subprocess.run([VENV_PY, os.path.join(VERIF, "tools", "dump_resolvers.py")], capture_output=True, text=True, timeout=120, env=env)
    if p.returncode != 0:
        raise RuntimeError("cannot extract resolver tables: " + p.stderr[-500:])
    return json.loads(p.stdout)


def nonstr_condition(table, s, only_tag=None, skip_tag=None):
    """s resolves to some non-str tag: an entry of the bucket of its first character (or of the catch-all bucket) matches."""
    from pyvc.regex import match_lang
    by_first = {}
    for e in table:
        tag = e["tag"].split(":")[-1]
        if only_tag and tag != only_tag:
            continue
        if skip_tag and tag == skip_tag:
            continue
        by_first.setdefault(e["first"], []).append(match_lang(e["pattern"], e["flags"]))
    conds = []
    for first, langs in by_first.items():
        lang = z3.Union(*langs) if len(langs) > 1 else langs[0]
        if first is None:
            conds.append(z3.InRe(s, lang))
        elif first == "":
            conds.append(z3.And(z3.Length(s) == 0, z3.InRe(s, lang)))
        else:
            conds.append(z3.And(z3.PrefixOf(z3.StringVal(first), s), z3.InRe(s, lang)))
    return z3.Or(*conds) if conds else z3.BoolVal(False)


def tag_lang_condition(table, s, tag):
    return nonstr_condition(table, s, only_tag=tag)


def scalar_lemmas():
    t = resolver_tables()
    s = z3.String("s")
    obs = []
    if not t["yaml_dump_uses_safe_dump"]:
        raise RuntimeError("yaml_dump no longer uses yaml.safe_dump: the dumper table must be re-derived")
    loader_nonstr = nonstr_condition(t["loader"], s)
    dumper_nonstr = nonstr_condition(t["dumper"], s)
    loader_float = tag_lang_condition(t["loader"], s, "float")
    # (a) str emitted plain comes back a str.  The whole clause, and the same clause outside the loader's float language
    obs.append(make_ob("C01/lemma:plain-scalar/str-emitted-plain-is-read-back-as-str", "lemma", [loader_nonstr], dumper_nonstr, watch={"s": s}, timeout_s=60,
                       note="a string that the loader resolves to a non-str tag must also be non-str for the dumper (else it is emitted unquoted and changes type)"))
    obs.append(make_ob("C01/lemma:plain-scalar/str-emitted-plain-is-read-back-as-str[outside-the-loader's-float-language]", "lemma", [loader_nonstr, z3.Not(loader_float)], dumper_nonstr, watch={"s": s}, timeout_s=60))
    # (b) what the dumper writes for typed scalars is read back with the same tag (representer texts: assumed, PyYAML SafeRepresenter)
    digits = z3.Plus(z3.Range("0", "9"))
    rep = {
        "int": z3.Union(z3.Re("0"), z3.Concat(z3.Option(z3.Re("-")), z3.Range("1", "9"), z3.Star(z3.Range("0", "9")))),  # str(int): no leading zeros
        "float": z3.Union(z3.Concat(z3.Option(z3.Re("-")), digits, z3.Re("."), digits, z3.Option(z3.Concat(z3.Re("e"), z3.Union(z3.Re("+"), z3.Re("-")), digits))), z3.Re(".nan"), z3.Re(".inf"), z3.Re("-.inf")),
        "bool": z3.Union(z3.Re("true"), z3.Re("false")),
        "null": z3.Re("null"),
    }
    for tag, lang in rep.items():
        # first match wins in PyYAML: the text must match the tag's resolver and no resolver listed before it for its first character
        obs.append(make_ob(f"C01/lemma:plain-scalar/dumped-{tag}-is-read-back-as-{tag}", "lemma", [z3.InRe(s, lang)], first_match_is(t["loader"], s, tag), watch={"s": s}, timeout_s=60))
    return obs


def first_match_is(table, s, tag):
    """PyYAML resolution: entries of the first character's bucket in table order, then the catch-all bucket; first match wins."""
    from pyvc.regex import match_lang
    buckets = {}
    for e in table:
        buckets.setdefault(e["first"], []).append((e["tag"].split(":")[-1], match_lang(e["pattern"], e["flags"])))
    conds = []
    for first, entries in buckets.items():
        if first is None:
            continue
        seq = entries + buckets.get(None, [])
        here = z3.PrefixOf(z3.StringVal(first), s) if first != "" else z3.Length(s) == 0
        earlier = []
        for tg, lang in seq:
            if tg == tag:
                conds.append(z3.And(here, z3.InRe(s, lang), *[z3.Not(z3.InRe(s, l2)) for l2 in earlier]))
            earlier.append(lang)
    return z3.Or(*conds) if conds else z3.BoolVal(False)


def json_number_lemmas(prop):
    """A JSON document is a YAML document: every JSON number is resolved as a number (int without fraction/exponent, float
    otherwise), true/false/null as bool/null - by the real loader table (so yaml mode reads JSON scalars as json mode does)."""
    def build():
        t = resolver_tables()
        s = z3.String("s")
        digit, nz = z3.Range("0", "9"), z3.Range("1", "9")
        integer = z3.Concat(z3.Option(z3.Re("-")), z3.Union(z3.Re("0"), z3.Concat(nz, z3.Star(digit))))
        frac = z3.Concat(z3.Re("."), z3.Plus(digit))
        exp = z3.Concat(z3.Union(z3.Re("e"), z3.Re("E")), z3.Option(z3.Union(z3.Re("+"), z3.Re("-"))), z3.Plus(digit))
        json_float = z3.Union(z3.Concat(integer, frac, z3.Option(exp)), z3.Concat(integer, exp))
        obs = [
            make_ob(f"{prop}/lemma:json-scalars/a-JSON-integer-is-read-as-int-in-yaml-mode", "lemma", [z3.InRe(s, integer)], first_match_is(t["loader"], s, "int"), watch={"s": s}, timeout_s=60),
            make_ob(f"{prop}/lemma:json-scalars/a-JSON-number-with-fraction-or-exponent-is-read-as-float-in-yaml-mode", "lemma", [z3.InRe(s, json_float)], first_match_is(t["loader"], s, "float"), watch={"s": s}, timeout_s=60),
            make_ob(f"{prop}/lemma:json-scalars/true-false-are-read-as-bool", "lemma", [z3.Or(s == z3.StringVal("true"), s == z3.StringVal("false"))], first_match_is(t["loader"], s, "bool"), watch={"s": s}),
            make_ob(f"{prop}/lemma:json-scalars/null-is-read-as-null", "lemma", [s == z3.StringVal("null")], first_match_is(t["loader"], s, "null"), watch={"s": s}),
        ]
        return obs
    return Lemma(f"{prop}/lemma:json-scalars-in-yaml-mode", build, replayer="replayers.c01:replay_json_scalar",
                 trusted=["PyYAML resolves a plain scalar by the first matching resolver of its first character", "regex -> RegLan translation (pyvc/regex.py)"])


def python_number_text_lemmas(prop):
    """What a user types for a number is what Python prints for it: every text of repr(int) and repr(float) (finite) - also the exponent
    forms without a decimal point that repr produces for small and large floats, `1e-05`, `2e+16` - is resolved by the real loader table
    as int resp. float, so that a float-typed parameter receives a float."""
    def build():
        t = resolver_tables()
        s = z3.String("s")
        digit, nz = z3.Range("0", "9"), z3.Range("1", "9")
        sign = z3.Option(z3.Re("-"))
        integer = z3.Concat(sign, z3.Union(z3.Re("0"), z3.Concat(nz, z3.Star(digit))))
        fixed = z3.Concat(integer, z3.Re("."), z3.Plus(digit))  # repr(float) without exponent always has a fraction: 1.0, -0.5, 123456.789
        exponent = z3.Concat(z3.Re("e"), z3.Union(z3.Re("+"), z3.Re("-")), digit, z3.Plus(digit))  # repr pads the exponent to two digits: e-05, e+16, e-100
        sci = z3.Concat(sign, digit, z3.Option(z3.Concat(z3.Re("."), z3.Plus(digit))), exponent)  # 1e-05, 2.5e-05, 1.7976931348623157e+308
        return [
            make_ob(f"{prop}/lemma:python-number-texts/repr(int)-is-read-as-int", "lemma", [z3.InRe(s, integer)], first_match_is(t["loader"], s, "int"), watch={"s": s}, timeout_s=60),
            make_ob(f"{prop}/lemma:python-number-texts/repr(float)-in-fixed-notation-is-read-as-float", "lemma", [z3.InRe(s, fixed)], first_match_is(t["loader"], s, "float"), watch={"s": s}, timeout_s=60),
            make_ob(f"{prop}/lemma:python-number-texts/repr(float)-in-exponent-notation(with or without a decimal point)-is-read-as-float", "lemma", [z3.InRe(s, sci)], first_match_is(t["loader"], s, "float"), watch={"s": s}, timeout_s=60),
        ]
    return Lemma(f"{prop}/lemma:python-number-texts-are-read-as-numbers", build, replayer="replayers.c01:replay_python_number",
                 trusted=["PyYAML resolves a plain scalar by the first matching resolver of its first character", "regex -> RegLan translation (pyvc/regex.py)",
                          "repr(int) / repr(float) produce the stated regular languages (CPython float_repr_style 'short')"])


# ------------------------------------------------------------------------------------- load_basic
NOT_LOADED = Rec("not_loaded-sentinel")
is_int_text = z3.Function("int(str).ok", S, z3.BoolSort())
int_of = z3.Function("int(str)", S, z3.IntSort())
is_float_text = z3.Function("float(str).ok", S, z3.BoolSort())
float_of = z3.Function("float(str)", S, z3.Float64())


def lb_setup(ctx):
    value = z3.String("value")
    stripped = z3.String("value.strip()")

    def int_model(c, a, k):
        if not c.branch(is_int_text(lift(a[0])), "int(text)-ok"):
            raise PyRaise(ExcVal("ValueError", origin="int()"))
        return int_of(lift(a[0]))

    def float_model(c, a, k):
        if not c.branch(is_float_text(lift(a[0])), "float(text)-ok"):
            raise PyRaise(ExcVal("ValueError", origin="float()"))
        return float_of(lift(a[0]))

    class StripStr:
        pass

    # value.strip() is taken as an opaque string `stripped` (assumed contract of str.strip); everything is stated over it
    hooks = {}
    calls = {"value.strip": lambda c, a, k: stripped, "int": int_model, "float": float_model}
    return Setup(env={"value": value}, calls=calls, consts={"not_loaded": NOT_LOADED}, data=dict(v=stripped), watch={"stripped": stripped})


def lb_post(ctx, st, result):
    v = st.data["v"]
    digits = z3.Plus(z3.Range("0", "9"))
    int_lang = z3.Concat(z3.Option(z3.Re("-")), digits)
    if result is True:
        ctx.oblige("post", "True=>text-is-true", v == z3.StringVal("true"))
    elif result is False:
        ctx.oblige("post", "False=>text-is-false", v == z3.StringVal("false"))
    elif result is None:
        ctx.oblige("post", "None=>text-is-null", v == z3.StringVal("null"))
    elif result is NOT_LOADED:
        ctx.oblige("post", "not_loaded=>text-is-none-of-true/false/null", z3.And(v != z3.StringVal("true"), v != z3.StringVal("false"), v != z3.StringVal("null")))
        ctx.oblige("post", "not_loaded=>not-a-plain-decimal-integer(ASCII)", z3.Implies(is_int_text(v), z3.Not(z3.InRe(v, int_lang))), strings=True)
    elif is_z3(result) and result.sort() == z3.IntSort():
        ctx.oblige("post", "int=>text-matches--?[0-9]+(ASCII digits)-and-result==int(text)", z3.And(z3.InRe(v, int_lang), result == int_of(v)), strings=True)
    elif is_z3(result) and z3.is_fp(result):
        # the claim "text over [0-9.e-]" needs the replace-chain guard, on which both solvers stall (spiked; DESIGN 8): bounded only
        ctx.oblige("post", "float=>text-has-a-dot-or-an-e-and-result==float(text)", z3.And(z3.Or(z3.Contains(v, z3.StringVal("e")), z3.Contains(v, z3.StringVal("."))), result == float_of(v)), strings=True)
    else:
        ctx.oblige("post", f"result-of-an-expected-kind(got {result!r})", False)


def lb_raises(ctx, st, exc):
    ctx.oblige("raises", f"never-raises(got {exc.cls}@{exc.origin})", False)


# ------------------------------------------------------------------------------------- _ActionPrintConfig.__call__
FLAGS = {"": None, "comments": "yaml_comments", "skip_default": "skip_default", "skip_null": "skip_none"}


def pcc_setup(ctx):
    choice = ctx.choose(7, "flags-text")
    text = ["", "comments", "skip_default", "skip_null", "comments,skip_null", "skip_default,,comments", "bogus"][choice]
    given = ctx.choose(2, "value-is-None") == 0
    # argparse hands over an *empty* list for `--print_config=--` (it strips the '--'): no flags, like no value (value[0] raised IndexError there; fixed)
    empty = ctx.choose(2, "value-is-an-empty-list") == 1 if given and choice == 0 else False
    parser = Rec("ArgumentParser", attrs={})
    calls = {"argument_error": lambda c, a, k: ExcVal("ArgumentError", args=(a[0],), origin="argument_error"), "hasattr": lambda c, a, k: a[1] in a[0].attrs}
    return Setup(env={"self": Rec("_ActionPrintConfig"), "parser": parser, "namespace": Rec("Namespace"), "value": ([] if empty else [text]) if given else None, "option_string": "--print_config"},
                 calls=calls, data=dict(text=text, given=given, parser=parser))


def pcc_post(ctx, st, result):
    d = st.data
    flags = [f for f in d["text"].split(",") if f] if d["given"] else []
    ctx.oblige("post", "accepted=>every-flag-is-a-documented-one", all(f in FLAGS for f in flags))
    want = {"subparser": d["parser"], "key": None, "skip_none": False, "skip_validation": False}
    for f in flags:
        if f in FLAGS and FLAGS[f]:
            want[FLAGS[f]] = True
    got = d["parser"].attrs.get("print_config")
    ctx.oblige("post", "the-request-holds-exactly-the-dump-options-the-flags-denote(nulls kept unless skip_null)", isinstance(got, dict) and set(got) == set(want) and all(got[k] is want[k] for k in want), note=f"{got} vs {want}")


def pcc_raises(ctx, st, exc):
    d = st.data
    flags = [f for f in d["text"].split(",") if f] if d["given"] else []
    ctx.oblige("raises", "rejected=>ArgumentError-for-an-unknown-flag", exc.cls == "ArgumentError" and any(f not in FLAGS for f in flags))


UNITS = [
    Unit("C01", "jsonargparse._loaders_dumpers:load_basic", lb_setup, lb_post, lb_raises, replayer="replayers.c01:replay_load_basic",
         trusted=["str.strip() returns some string (everything is stated over the stripped text)", "str.isdigit modelled for ASCII digits (A2); int(str)/float(str) uninterpreted partial functions raising ValueError outside their domain",
                  "str.replace(a, b, n) replaces the first n occurrences"]),
    Unit("C01", "jsonargparse._actions:_ActionPrintConfig.__call__", pcc_setup, pcc_post, pcc_raises, expect_cover=("return", "raise:ArgumentError")),
]
from contracts.adapt_arms import arms_units  # noqa: E402
UNITS = UNITS + [u for u in arms_units("C01") if u.label in ("Tuple/Set", "Enum", "registered-type")]  # their serialise-side obligations

from contracts.core_units import dump_unit  # noqa: E402
UNITS.append(dump_unit("C01"))

LEMMAS = [Lemma("C01/lemma:plain-scalar-agreement", scalar_lemmas, replayer="replayers.c01:replay_scalar",
                trusted=["PyYAML resolves a plain scalar by the first matching (tag, regexp) of yaml_implicit_resolvers[first char] + [None] (Resolver.resolve)",
                         "SafeDumper emits a str without quotes only if it resolves to str for the dumper's own resolver table",
                         "texts produced by SafeRepresenter for int/float/bool/None (assumed regular languages)", "regex -> RegLan translation (pyvc/regex.py)"])]
VERIFIED_CALLEES = ()
LEVEL = "other"
TECHNIQUE = "contract-based deductive verification: language-inclusion lemmas between the real YAML resolver tables (regex -> RegLan, z3/cvc5), load_basic and the print_config flag mapping under contract + bounded run-time round-trip contract on generated parsers"
LEVEL_TEXT = "Proved for all strings: every str that the real dumper emits as a plain YAML scalar is read back as a str by the real loader, and the dumper's texts for int/float/bool/null are read back with the same tag (language-inclusion lemmas between the resolver tables extracted from the running code on every run); load_basic returns True/False/None/int exactly for true/false/null/-?digits; the --print_config flags map to exactly the documented dump options. Bounded only: the serialise/deserialise agreement per type constructor and the whole dump -> parse round trip (507 types x look-alike values x formats x dump variants x 10 parser shapes)."
LEVEL_NOTE = "under construction"
EXPLANATION = "under construction"
ASSUMPTIONS = []
TRUSTED = []
BOUNDED = [{"name": "dump-parse-roundtrip", "script": "bounded/b01_roundtrip.py"}]

# nested dataclass / class values are serialised by the class's own parser: with the caller's dump settings, and what is stored is what the loader reads back
from contracts.adapt_arms import dataclass_unit  # noqa: E402
from contracts.class_type import class_type_unit  # noqa: E402
UNITS += [dataclass_unit("C01"), class_type_unit("C01")]


# ------------------------------------------------------------------------------------- _dump_cleanup_actions
# what dump() writes for each declared action: nothing for hidden options and config-file options, nothing for None when nulls are
# skipped, the subcommand *sections* (not the bookkeeping keys of other parsers' actions), and for typed values the serialised form
# produced by the action itself with the caller's dump settings - so that the text re-parses to the same configuration.
KIND = ["plain", "typed", "typed-hidden", "config-file", "config-load-hidden", "link-to-typed", "subcommands"]


def dca_setup(ctx):
    kind = KIND[ctx.choose(len(KIND), "action")]
    state = ["value", "None", "absent"][ctx.choose(3, "cfg[dest]")]
    skip_none = ctx.choose(2, "skip_none") == 1
    skip_validation = ctx.choose(2, "skip_validation") == 1
    ser_fails = ctx.choose(2, "serialize-raises-ValueError") == 1 if kind in ("typed", "link-to-typed") and state == "value" else False
    prefix = ["", "fit."][ctx.choose(2, "prefix")]
    for n, b in (("_ActionConfigLoad", "Action"), ("ActionConfigFile", "Action"), ("_ActionSubCommands", "Action"), ("ActionLink", "Action"), ("ActionTypeHint", "Action")):
        ctx.classes.add(n, [b])
    SUPPRESS = "==SUPPRESS=="
    value, other_val, serialised = Rec("stored value"), Rec("value of another key"), Rec("serialised form")
    key = prefix + "k"
    store = {prefix + "other": other_val}
    if state != "absent":
        store[key] = value if state == "value" else None
    open_cms = []
    dump_kwargs = {"skip_none": skip_none, "skip_validation": skip_validation, "skip_link_targets": z3.Bool("skip_link_targets")}

    def serialize(c, s_, a, k):
        c.event("serialize", s_, a[0], k.get("dump_kwargs"), list(open_cms))
        if ser_fails:
            raise PyRaise(ExcVal("ValueError", origin="serialize"))
        return serialised

    typed = Rec("ActionTypeHint", attrs={"dest": "k", "help": "h"}, methods={"serialize": serialize})
    subparser = Rec("ArgumentParser(sub)", attrs={"_actions": [Rec("Action", attrs={"dest": "inner", "help": "h"})]})
    action = {
        "plain": Rec("Action", attrs={"dest": "k", "help": "h"}),
        "typed": typed,
        "typed-hidden": Rec("ActionTypeHint", attrs={"dest": "k", "help": SUPPRESS}, methods={"serialize": serialize}),
        "config-file": Rec("ActionConfigFile", attrs={"dest": "k", "help": "h"}),
        "config-load-hidden": Rec("_ActionConfigLoad", attrs={"dest": "k", "help": SUPPRESS}),
        "link-to-typed": Rec("ActionLink", attrs={"dest": "k", "help": "h", "target": ("k", typed)}),
        "subcommands": Rec("_ActionSubCommands", attrs={"dest": "k", "help": "h", "choices": {"a": subparser}}),
    }[kind]

    def update(c, s_, a, k):
        c.event("update", a[1], a[0])
        store[a[1]] = a[0]

    cfg = Rec("Namespace", methods={"pop": lambda c, s_, a, k: store.pop(a[0], a[1] if len(a) > 1 else None), "get": lambda c, s_, a, k: store.get(a[0]), "update": update,
                                    "__contains__": lambda c, s_, a, k: a[0] in store, "__getitem__": lambda c, s_, a, k: store[a[0]]})

    def recurse(c, s_, a, k):
        c.event("recurse", a[0], a[1], a[2], k.get("prefix"))

    self = Rec("ArgumentParser", methods={"_dump_cleanup_actions": recurse})
    consts = {"argparse": Rec("argparse", attrs={"SUPPRESS": SUPPRESS}), "_ActionConfigLoad": ClassRef("_ActionConfigLoad"), "ActionConfigFile": ClassRef("ActionConfigFile"),
              "_ActionSubCommands": ClassRef("_ActionSubCommands"), "ActionLink": ClassRef("ActionLink"), "ActionTypeHint": ClassRef("ActionTypeHint")}
    from contracts.adapt_arms import suppress_cm
    cms = {"parser_context": (lambda c, a, k: open_cms.append(("parser_context", k.get("parent_parser"))), lambda c, t, e: (open_cms.pop(), False)[1]), "suppress": suppress_cm()}
    return Setup(env={"self": self, "cfg": cfg, "actions": [action], "dump_kwargs": dump_kwargs, "prefix": prefix}, calls={"filter_default_actions": lambda c, a, k: list(a[0])}, consts=consts, cms=cms,
                 data=dict(kind=kind, state=state, skip_none=skip_none, skip_validation=skip_validation, ser_fails=ser_fails, prefix=prefix, key=key, store=store, value=value, other_val=other_val,
                           serialised=serialised, typed=typed, dump_kwargs=dump_kwargs, self_=self, cfg=cfg, subparser=subparser, open_cms=open_cms))


def dca_post(ctx, st, result):
    d = st.data
    tag = f"[{d['kind']},{d['state']}{',skip_none' if d['skip_none'] else ''}{',skip_validation' if d['skip_validation'] else ''}{',serialize fails' if d['ser_fails'] else ''},prefix={d['prefix']!r}]"
    store, key = d["store"], d["key"]
    ctx.oblige("frame", "keys-of-other-actions-are-untouched" + tag, store.get(d["prefix"] + "other") is d["other_val"] and set(store) <= {key, d["prefix"] + "other"})
    removed = d["kind"] in ("typed-hidden", "config-file", "subcommands") or (d["skip_none"] and d["state"] == "None")
    ser = [e for e in ctx.events if e[0] == "serialize"]
    if removed or d["state"] == "absent":
        ctx.oblige("post", "hidden-options,config-file-options,the-subcommand-name-key(and None when nulls are skipped)-are-not-written" + tag, key not in store and not ser)
    elif d["kind"] in ("typed", "link-to-typed") and d["state"] == "value":
        ok_call = len(ser) == 1 and ser[0][1] is d["typed"] and ser[0][2] is d["value"] and ser[0][3] is d["dump_kwargs"] and ("parser_context", d["self_"]) in ser[0][4]
        ctx.oblige("post", "a-typed-value-is-serialised-by-its-own-action(for a link: the target's),once,with-the-caller's-dump-settings,inside-this-parser's-context" + tag, ok_call)
        if d["ser_fails"]:
            ctx.oblige("post", "a-value-that-cannot-be-serialised-is-kept-as-it-is-only-when-validation-is-skipped" + tag, d["skip_validation"] and store.get(key) is d["value"])
        else:
            ctx.oblige("post", "the-serialised-form-replaces-the-value-under-the-same-key" + tag, store.get(key) is d["serialised"])
    else:
        ctx.oblige("post", "otherwise-the-value-is-written-as-it-is" + tag, key in store and store[key] is (d["value"] if d["state"] == "value" else None) and not ser)
    rec = [e for e in ctx.events if e[0] == "recurse"]
    if d["kind"] == "subcommands" and d["skip_none"] and d["state"] == "None":
        pass  # no subcommand selected (its name is None and nulls are skipped): there are no sections to clean, nothing is required here
    elif d["kind"] == "subcommands":
        ctx.oblige("post", "every-subcommand's-actions-are-cleaned-below-its-name,with-the-same-dump-settings" + tag,
                   len(rec) == 1 and rec[0][1] is d["cfg"] and rec[0][2] is d["subparser"].attrs["_actions"] and rec[0][3] is d["dump_kwargs"] and rec[0][4] == d["prefix"] + "a.")
    else:
        ctx.oblige("post", "no-recursion-without-subcommands" + tag, not rec)
    ctx.oblige("post", "no-context-left-open" + tag, not d["open_cms"])


def dca_raises(ctx, st, exc):
    d = st.data
    ctx.oblige("raises", f"only-a-failing-serialisation-with-validation-on-propagates(got {exc.cls}@{exc.origin})", exc.cls == "ValueError" and d["ser_fails"] and not d["skip_validation"] and not d["open_cms"])


UNITS.append(Unit("C01", "jsonargparse._core:ArgumentParser._dump_cleanup_actions", dca_setup, dca_post, dca_raises, max_paths=20000, expect_cover=("return", "raise:ValueError"),
                  trusted=["action.serialize(value, dump_kwargs=) returns the form that re-parses to value (adapt_typehints arms, their own units)", "the recursive call by contract"]))


# ------------------------------------------------------------------------------------- _dump_delete_default_entries (skip_default)
# what remains after deleting the default-valued entries must, read back over the defaults, give the configuration that was dumped
# (groups and init_args are completed key by key from the defaults; for a class other than the default's, from that class's defaults,
# and then the class_path itself has to remain).
def deep_copy(v):
    return {k: deep_copy(x) for k, x in v.items()} if isinstance(v, dict) else v


def deep_eq(a, b):
    if isinstance(a, dict) and isinstance(b, dict):
        if set(a) != set(b):
            return False
        parts = [deep_eq(a[k], b[k]) for k in a]
        if any(p is False for p in parts):
            return False
        zs = [p for p in parts if p is not True]
        return z3.And(*zs) if zs else True
    if isinstance(a, dict) or isinstance(b, dict):
        return False
    if is_z3(a) or is_z3(b):
        if a is None or b is None:
            return False
        return lift(a) == lift(b)
    return a == b


def ident(a, b):
    if isinstance(a, dict) and isinstance(b, dict):
        return list(a) == list(b) and all(ident(a[k], b[k]) for k in a)
    if is_z3(a) and is_z3(b):
        return a.eq(b)
    return not is_z3(a) and not is_z3(b) and not isinstance(a, dict) and not isinstance(b, dict) and a == b


def overlay(defaults, rem, class_defaults):
    """re-reading `rem` over `defaults`: key by key for mappings; a subclass spec of another class starts from that class's defaults"""
    if not (isinstance(defaults, dict) and isinstance(rem, dict)):
        return rem
    if "class_path" in rem and rem.get("class_path") != defaults.get("class_path"):
        defaults = {"class_path": rem["class_path"], "init_args": class_defaults[rem["class_path"]]}
    out = {}
    for k in list(defaults) + [k for k in rem if k not in defaults]:
        if k in rem and k in defaults:
            out[k] = overlay(defaults[k], rem[k], class_defaults)
        elif k in rem:
            out[k] = rem[k]
        else:
            out[k] = deep_copy(defaults[k])
    return out


def dde_setup(ctx):
    shape = ["flat", "nested-group", "key-without-default", "spec-same-class", "spec-other-class"][ctx.choose(5, "shape")]
    v = {n: z3.Int("value." + n) for n in ("a", "b", "c", "e")}
    dv = {n: z3.Int("default." + n) for n in ("a", "b", "c")}
    qv = {n: z3.Int("defaultQ." + n) for n in ("a", "b")}
    class_defaults = {"Q": {"a": qv["a"], "b": qv["b"]}, "P": {"a": dv["a"], "b": dv["b"]}}
    subcfg, defaults = {
        "flat": ({"a": v["a"], "b": v["b"]}, {"a": dv["a"], "b": dv["b"]}),
        "nested-group": ({"g": {"a": v["a"], "b": v["b"]}, "c": v["c"]}, {"g": {"a": dv["a"], "b": dv["b"]}, "c": dv["c"]}),
        "key-without-default": ({"a": v["a"], "e": v["e"]}, {"a": dv["a"]}),
        "spec-same-class": ({"m": {"class_path": "P", "init_args": {"a": v["a"], "b": v["b"]}}}, {"m": {"class_path": "P", "init_args": {"a": dv["a"], "b": dv["b"]}}}),
        "spec-other-class": ({"m": {"class_path": "Q", "init_args": {"a": v["a"], "b": v["b"]}}}, {"m": {"class_path": "P", "init_args": {"a": dv["a"], "b": dv["b"]}}}),
        "spec-without-init_args": ({"m": {"class_path": "P"}, "c": v["c"]}, {"m": {"class_path": "P", "init_args": {"a": dv["a"], "b": dv["b"]}}, "c": dv["c"]}),
        "empty": ({}, {"a": dv["a"]}),
    }[shape]
    original = deep_copy(subcfg)
    defaults0 = deep_copy(defaults)

    def get_class_parser(c, a, k):
        c.event("class-parser", a[0])
        return Rec("ArgumentParser", methods={"get_defaults": lambda c2, s2, a2, k2: Rec("Namespace", methods={"as_dict": lambda c3, s3, a3, k3: deep_copy(class_defaults[a[0]])})})

    def recurse(c, s_, a, k):
        # the contract of this very function, for the nested mapping: afterwards overlay(defaults, rest) == before
        sub, dfl = a
        for key in list(sub.keys()):
            if key in dfl:
                same = deep_eq(sub[key], dfl[key])
                if same is True or (same is not False and c.branch(same, f"nested[{key}]==default")):
                    del sub[key]

    self = Rec("ArgumentParser", methods={"_dump_delete_default_entries": recurse})
    calls = {"is_subclass_spec": lambda c, a, k: isinstance(a[0], dict) and "class_path" in a[0], "ActionTypeHint.get_class_parser": get_class_parser}
    return Setup(env={"self": self, "subcfg": subcfg, "subdefaults": defaults}, calls=calls, cms={"parser_context": noop_cm("parser_context")},
                 data=dict(shape=shape, subcfg=subcfg, defaults=defaults, original=original, defaults0=defaults0, class_defaults=class_defaults))


def dde_post(ctx, st, result):
    d = st.data
    tag = f"[{d['shape']}]"
    back = overlay(d["defaults0"], d["subcfg"], d["class_defaults"])
    same = deep_eq(back, d["original"])
    ctx.oblige("post", "what-remains,read-back-over-the-defaults,is-the-configuration-that-was-dumped" + tag, same if not isinstance(same, bool) else z3.BoolVal(same), note=f"remaining {d['subcfg']}")
    ctx.oblige("frame", "the-defaults-are-not-modified" + tag, ident(d["defaults"], d["defaults0"]))


def dde_raises(ctx, st, exc):
    ctx.oblige("raises", f"never-raises[{st.data['shape']}](got {exc.cls}@{exc.origin})", False)


from contracts.parse_models import noop_cm  # noqa: E402
UNITS.append(Unit("C01", "jsonargparse._core:ArgumentParser._dump_delete_default_entries", dde_setup, dde_post, dde_raises, max_paths=20000,
                  trusted=["nested mappings are completed key by key from the defaults when re-read (groups, init_args); Dict-typed *values* are not - that difference is the known finding c01-skip_default-recurses-into-dict-values, outside this unit",
                           "the recursive call by contract", "get_class_parser(class_path).get_defaults() are the defaults of that class"]))

from contracts.check_type import serialize_unit  # noqa: E402
UNITS.append(serialize_unit("C01"))
from contracts.share import shared  # noqa: E402
UNITS += shared("C01", "contracts.c03", "_ActionPrintConfig.print_config_if_requested")

# re-parsing a dump goes through _apply_actions: every dumped key (also one named like a Namespace method, below a group) must meet its action again
from contracts.apply_actions import apply_actions_unit  # noqa: E402
UNITS.append(apply_actions_unit("C01"))

# re-parsing a dump merges it over the defaults: merge_config's static walk must discard the default class's init_args for *every* key whose class the dump
# changes (a key whose name merely starts with an earlier key's name included), or the dumped configuration is refused ("Key ... is not expected")
from contracts.class_type import discard_unit as _discard_unit  # noqa: E402
from contracts.discard_walk import discard_walk_unit as _discard_walk_unit  # noqa: E402
UNITS += [_discard_walk_unit("C01"), _discard_unit("C01")]

from contracts.share import carried as _carried  # noqa: E402
UNITS += _carried("C01")
