"""Round 2 - the small functions around Path (jsonargparse/_util.py) and the two helpers nested in ArgumentParser.save (jsonargparse/_core.py).

Every unit reads the real body from /repo (or $VERIF_REPO) on every run.  Clauses in words:

  Path.relative / absolute / mode / is_url / is_fsspec   (C19) the accessor returns the stored field of *that* name (relative: the spelling given,
                        absolute: the resolved location - both stored by Path.__init__, its own unit), for every value; the object is not modified
  parse_url             (C19) for every string: None iff no '://' at a position > 0; else scheme + url_path == url, the scheme ends with '://'
                        and is longer than it, the rest holds no further '://'
  is_absolute_path      (C19) for every string: without '://' the answer is os.path.isabs; with a scheme ('://' first at a position > 0) it is True;
                        agrees with parse_url on every string (REFUTED on the unchanged tree for '://a://b': find vs rfind)
  resolve_relative_path (C19) for every path of <= 4 segments ('.', '..' or a name, names symbolic): the result is the names that no later '..'
                        cancels (bracket matching, not a stack), in order, joined by '/'; no '.' / '..' left; never an exception other than the
                        documented ones of its caller Path.__init__ (REFUTED: '..' above the root -> IndexError, through Path(..., mode 'u'/'s'))
  known_to_fsspec       (C19) for every string and every registry: True iff the string starts with <protocol>:// or <protocol>:: for a registered
                        protocol - the scheme only
  Path.open             (C19) for every mode string: local -> builtin open(absolute, mode) exactly once, that handle is yielded, closed on every exit
                        (so mode 'r' creates nothing: open's own contract); fsspec -> fsspec.open(absolute, mode); url -> the content, nothing opened;
                        '-' -> the cached stdin for a reading mode, sys.stdout for a writing one; yields exactly once
                        (REFUTED for '-' with the writing modes 'a' / 'x': nothing is yielded -> RuntimeError; and the cached stdin is not rewound)
  Path.relative_path_context (C19) the body runs inside change_to_path_dir(this path) - entered once with self, left on every exit -, is given the
                        directory that change_to_path_dir reports, runs exactly once; no exception of its own
  Path.__repr__         (C19) Path_<mode>[_skip_check](<spelling given>[, cwd=<cwd>]) - the cwd exactly when spelling and location differ
  get_cached_stdin      the real stdin is read exactly once, ever; sys.stdin becomes (and the result is) a CachedStdin holding all of it
  read_cached_stdin     returns all of standard input and leaves the cache rewound, so that every later call returns it again
  save.<locals>.check_overwrite  (C18) returns iff overwrite or the *absolute* location is not an existing file, ValueError otherwise; no effect at all
  save.<locals>.save_paths       (C18) per key: a file is opened for writing only after Path(basename, 'fc') accepted it, check_overwrite passed on
                        that very path and the text to write exists; a failure (refusal, serialisation, get_content) leaves that file unopened;
                        written once with its own text; the entry then names the written file; any other entry: nothing opened, nothing changed
"""
import z3

from pyvc.engine import ClassRef, ExcVal, Fn, LoopSpec, PyRaise, Rec, SymList, Unsupported, lift, is_z3
from pyvc.units import Setup, Unit

S, B, I = z3.StringSort(), z3.BoolSort(), z3.IntSort()
SEP = z3.StringVal("://")


def _sv(x):
    return z3.StringVal(x)


def _no_exc(ctx, st, exc):
    ctx.oblige("raises", f"no-own-exception(got {exc.cls}@{exc.origin})", False)


def _same(a, b):
    """Identity of two values as far as it can be decided without a solver (same term / same object)."""
    if is_z3(a) and is_z3(b):
        return a.eq(b)
    return a is b


# ------------------------------------------------------------------------------------------------ the accessors
FIELDS = {"_relative": S, "_absolute": S, "_cwd": S, "_mode": S, "_is_url": B, "_is_fsspec": B, "_skip_check": B}


def _path_rec(ctx, **over):
    attrs = {n: z3.Const("path." + n[1:], s) for n, s in FIELDS.items()}
    attrs.update({"_std_io": False, "_url_data": None})
    attrs.update(over)
    return Rec("Path", attrs=attrs)


def acc_unit(prop, name, field, words):
    def setup(ctx):
        self = _path_rec(ctx)
        return Setup(env={"self": self}, data=dict(self_=self, snapshot=dict(self.attrs)))

    def post(ctx, st, result):
        d = st.data
        want = d["snapshot"][field]
        # the stored fields are distinct symbols: returning another field is a different term, and the equality is refuted by a model
        ctx.oblige("post", f"{name}-is-{words}", lift(result) == want if is_z3(result) and result.sort() == want.sort() else False)
        ctx.oblige("frame", f"{name}-does-not-modify-the-path", d["self_"].attrs.keys() == d["snapshot"].keys() and all(_same(d["self_"].attrs[k], v) for k, v in d["snapshot"].items()))

    return Unit(prop, "jsonargparse._util:Path." + name, setup, post, _no_exc, trusted=["Path.__init__ stores the spelling / location / mode / kind in the fields read here (its own unit, C19)"])


# ------------------------------------------------------------------------------------------------ parse_url, is_absolute_path
def has_scheme(u):
    """'://' occurs at a position > 0 (written without find / rfind: it occurs in the string without its first character)."""
    return z3.Contains(z3.SubString(u, 1, z3.Length(u)), SEP)


def _urldata(c, a, k):
    vals = dict(zip(("scheme", "url_path"), a))
    vals.update(k)
    return Rec("UrlData", attrs=vals)


def m_rfind(s):
    """str.rfind(sep) for a concrete separator, characterised by the unique decomposition at the last occurrence (no last-index-of operator:
    both solvers decide this form): -1 iff the separator does not occur; else s == a + sep + b with len(a) the answer and no occurrence
    starting after position len(a)."""
    def model(c, a, k):
        if len(a) != 1 or not isinstance(a[0], str) or not a[0] or k:
            raise Unsupported("rfind with other arguments than one concrete separator")
        sep = _sv(a[0])
        if not c.branch(z3.Contains(s, sep), "rfind:separator-occurs"):
            return -1
        head, tail = c.fresh("rfind.head", S), c.fresh("rfind.tail", S)
        c.assume(s == z3.Concat(head, sep, tail))
        c.assume(z3.Not(z3.Contains(z3.Concat(_sv(a[0][1:]), tail), sep)))
        return z3.Length(head)
    return model


def pu_setup(ctx):
    url = z3.String("url")
    return Setup(env={"url": url}, calls={"UrlData": _urldata, "url.rfind": m_rfind(url)}, data=dict(url=url), watch={"url": url})


def pu_post(ctx, st, result):
    url = st.data["url"]
    if result is None:
        ctx.oblige("post", "None-only-for-a-string-without-'://'-after-its-first-character", z3.Not(has_scheme(url)), strings=True)
        return
    ok = isinstance(result, Rec) and result.cls == "UrlData" and set(result.attrs) == {"scheme", "url_path"}
    ctx.oblige("post", "the-result-is-None-or-a-UrlData(scheme, url_path)", ok)
    if not ok:
        return
    sc, up = lift(result.attrs["scheme"]), lift(result.attrs["url_path"])
    ctx.oblige("post", "UrlData-only-for-a-string-with-'://'-after-its-first-character", has_scheme(url), strings=True)
    ctx.oblige("post", "scheme+url_path==url(nothing lost, nothing added)", z3.Concat(sc, up) == url, strings=True)
    ctx.oblige("post", "the-scheme-ends-with-'://'-and-is-longer-than-it", z3.And(z3.SuffixOf(SEP, sc), z3.Length(sc) > 3), strings=True)
    ctx.oblige("post", "the-rest-holds-no-further-'://'(the scheme is everything up to the last one)", z3.Not(z3.Contains(up, SEP)), strings=True)


isabs = z3.Function("os.path.isabs", S, B)


def ia_setup(ctx):
    path = z3.String("path")
    return Setup(env={"path": path}, calls={"os.path.isabs": lambda c, a, k: isabs(lift(a[0]))}, data=dict(path=path), watch={"path": path})


def ia_post(ctx, st, result):
    p = st.data["path"]
    r = lift(result)
    if r.sort() != B:
        ctx.oblige("post", "the-answer-is-a-bool", False)
        return
    ctx.oblige("post", "without-'://'-the-answer-is-os.path.isabs", z3.Implies(z3.Not(z3.Contains(p, SEP)), r == isabs(p)), strings=True)
    ctx.oblige("post", "a-string-whose-first-'://'-is-after-its-first-character-is-absolute", z3.Implies(z3.And(z3.Contains(p, SEP), z3.Not(z3.PrefixOf(SEP, p))), r), strings=True)
    ctx.oblige("post", "'://'-as-the-very-first-characters-is-no-scheme:then-os.path.isabs-decides-unless-a-scheme-follows", z3.Implies(z3.And(z3.PrefixOf(SEP, p), z3.Not(has_scheme(p))), r == isabs(p)), strings=True)
    # (on the degenerate text "://a://b" is_absolute_path - first '://' - and parse_url - last '://' - disagree; observed, reproduced natively; no listed property
    #  depends on a path that starts with '://', so it is an observation in DESIGN.md and the three clauses above are what C19 needs)


# ------------------------------------------------------------------------------------------------ check_overwrite (nested in save)
fs_isfile = z3.Function("fs.isfile", S, B)


def co_setup(ctx):
    overwrite = z3.Bool("overwrite")
    absolute, relative = z3.String("path.absolute"), z3.String("path.relative")
    path = Rec("Path", attrs={"absolute": absolute, "relative": relative, "_absolute": absolute, "_relative": relative, "mode": "fc"})
    snapshot = dict(path.attrs)

    def isfile(c, a, k):
        c.event("isfile", a[0])
        return fs_isfile(lift(a[0]))

    return Setup(env={"path": path, "overwrite": overwrite}, calls={"os.path.isfile": isfile},
                 data=dict(overwrite=overwrite, absolute=absolute, path=path, snapshot=snapshot), watch={"overwrite": overwrite, "isfile(absolute)": fs_isfile(absolute)})


def _co_frame(ctx, st, how):
    d = st.data
    ctx.oblige("frame", f"check_overwrite-only-looks({how}):the-path-object-is-not-modified,nothing-but-os.path.isfile-is-consulted", d["path"].attrs.keys() == d["snapshot"].keys() and all(_same(d["path"].attrs[k], v) for k, v in d["snapshot"].items())
               and all(e[0] == "isfile" for e in ctx.events))


def co_post(ctx, st, result):
    d = st.data
    ctx.oblige("post", "accepted=>overwrite-is-set-or-the-absolute-location-is-not-an-existing-file", z3.Or(d["overwrite"], z3.Not(fs_isfile(d["absolute"]))))
    ctx.oblige("post", "check_overwrite-returns-nothing", result is None)
    _co_frame(ctx, st, "accepted")


def co_raises(ctx, st, exc):
    d = st.data
    if exc.cls != "ValueError":
        ctx.oblige("raises", f"a-refusal-is-a-ValueError(got {exc.cls}@{exc.origin})", False)
        return
    ctx.oblige("raises", "refused=>overwrite-is-not-set-and-the-absolute-location-is-an-existing-file", z3.And(z3.Not(d["overwrite"]), fs_isfile(d["absolute"])))
    _co_frame(ctx, st, "refused")


# ------------------------------------------------------------------------------------------------ known_to_fsspec
def _kf_match(proto, path):
    return z3.Or(z3.PrefixOf(z3.Concat(proto, _sv("://")), path), z3.PrefixOf(z3.Concat(proto, _sv("::")), path))


def kf_setup(ctx):
    path = z3.String("path")
    protos = SymList(ctx, "known_implementations", S)  # iterating the registry (a dict) yields its protocol names

    def inv(c, env, k):
        j = z3.Int("j!kf")
        return z3.ForAll([j], z3.Implies(z3.And(0 <= j, j < k), z3.Not(_kf_match(protos.arr[j], path))), patterns=[protos.arr[j]])

    loops = {0: LoopSpec(inv=inv, havoc=lambda c, e: None, havoc_vars=("protocol",))}
    return Setup(env={"path": path}, calls={"import_fsspec": lambda c, a, k: (c.event("import_fsspec"), Rec("module:fsspec"))[1]}, consts={"known_implementations": protos},
                 loops=loops, data=dict(path=path, protos=protos), watch={"path": path})


def kf_post(ctx, st, result):
    d = st.data
    j = z3.Int("j!kfp")
    protos = d["protos"]
    some = z3.Exists([j], z3.And(0 <= j, j < protos.len, _kf_match(protos.arr[j], d["path"])))
    r = lift(result)
    ctx.oblige("post", "True-iff-the-string-starts-with-<protocol>://-or-<protocol>::-for-a-registered-protocol(the scheme only)", r == some if r.sort() == B else False)
    ctx.oblige("post", "fsspec-is-required-first(import_fsspec)", [e[0] for e in ctx.events if e[0] == "import_fsspec"] == ["import_fsspec"])


# ------------------------------------------------------------------------------------------------ the cached stdin
def _cached(ctx, content, pos=0):
    def read(c, s_, a, k):
        if a or k:
            raise Unsupported("read with a size")
        txt, p = s_.attrs["content"], lift(s_.attrs["pos"])
        s_.attrs["pos"] = z3.Length(txt)
        c.mutated(s_)
        return z3.SubString(txt, p, z3.Length(txt) - p)

    def seek(c, s_, a, k):
        s_.attrs["pos"] = a[0]
        c.mutated(s_)
        return a[0]

    return Rec("CachedStdin", attrs={"content": content, "pos": pos}, methods={"read": read, "seek": seek})


def _stdin_world(ctx):
    """sys.stdin: the real stream (never read so far) or the cache left by an earlier call (rewound: the invariant every function here keeps)."""
    cached_already = ctx.choose(2, "sys.stdin-is-already-the-cache") == 1
    content = z3.String("everything on standard input")

    def raw_read(c, s_, a, k):
        c.event("real-stdin-read")
        if s_.attrs["consumed"]:
            return ""  # a second read of the real stream: nothing is left
        s_.attrs["consumed"] = True
        return content

    first = _cached(ctx, content) if cached_already else Rec("TextIOWrapper", attrs={"consumed": False}, methods={"read": raw_read})
    sys_ = Rec("module:sys", attrs={"stdin": first, "stdout": Rec("TextIOWrapper", attrs={"name": "<stdout>"})})
    calls = {"CachedStdin": lambda c, a, k: (c.event("cache-built"), _cached(c, a[0]))[1]}
    return cached_already, content, first, sys_, calls


def gs_setup(ctx):
    cached_already, content, first, sys_, calls = _stdin_world(ctx)
    return Setup(env={}, calls=calls, consts={"sys": sys_}, data=dict(cached_already=cached_already, content=content, first=first, sys_=sys_))


def _stdin_clauses(ctx, d, tag):
    now = d["sys_"].attrs.get("stdin")
    ok = isinstance(now, Rec) and now.cls == "CachedStdin"
    ctx.oblige("post", "sys.stdin-is-a-CachedStdin-afterwards" + tag, ok)
    reads = len([e for e in ctx.events if e[0] == "real-stdin-read"])
    ctx.oblige("post", "the-real-stdin-is-read-exactly-once,ever(not again once the cache exists)" + tag, reads == (0 if d["cached_already"] else 1))
    if ok:
        ctx.oblige("post", "the-cache-holds-everything-that-was-on-standard-input" + tag, lift(now.attrs["content"]) == d["content"])
        if d["cached_already"]:
            ctx.oblige("frame", "an-existing-cache-is-kept(the same object)" + tag, now is d["first"])
    return now, ok


def gs_post(ctx, st, result):
    d = st.data
    tag = "[cache exists]" if d["cached_already"] else "[first use]"
    now, ok = _stdin_clauses(ctx, d, tag)
    ctx.oblige("post", "the-result-is-sys.stdin" + tag, result is now)
    if ok:
        ctx.oblige("post", "the-cache-is-handed-out-rewound" + tag, lift(now.attrs["pos"]) == 0)


def rs_setup(ctx):
    cached_already, content, first, sys_, calls = _stdin_world(ctx)
    return Setup(env={}, calls=calls, consts={"sys": sys_}, inline={"get_cached_stdin": "jsonargparse._util:get_cached_stdin"},
                 data=dict(cached_already=cached_already, content=content, first=first, sys_=sys_))


def rs_post(ctx, st, result):
    d = st.data
    tag = "[cache exists]" if d["cached_already"] else "[first use]"
    now, ok = _stdin_clauses(ctx, d, tag)
    ctx.oblige("post", "returns-everything-that-was-on-standard-input" + tag, lift(result) == d["content"] if is_z3(result) or isinstance(result, str) else False)
    if ok:
        ctx.oblige("post", "the-cache-is-left-rewound:the-next-call-returns-the-same-text-again" + tag, lift(now.attrs["pos"]) == 0)


# ------------------------------------------------------------------------------------------------ Path.__repr__
def rp_setup(ctx):
    self = _path_rec(ctx)
    skip = self.attrs["_skip_check"]
    self.methods["_repr_skip_check"] = lambda c, s_, a, k: z3.If(s_.attrs["_skip_check"], z3.Concat(lift(a[0]), _sv("_skip_check")), lift(a[0]))
    return Setup(env={"self": self}, data=dict(self_=self, snapshot=dict(self.attrs)), watch={"relative": self.attrs["_relative"], "absolute": self.attrs["_absolute"]})


def rp_post(ctx, st, result):
    a = st.data["snapshot"]
    name = z3.Concat(_sv("Path_"), a["_mode"], z3.If(a["_skip_check"], _sv("_skip_check"), _sv("")))
    cwd = z3.If(a["_relative"] != a["_absolute"], z3.Concat(_sv(", cwd="), a["_cwd"]), _sv(""))
    ctx.oblige("post", "Path_<mode>[_skip_check](<spelling given>[, cwd=<cwd>]):the-cwd-exactly-when-spelling-and-location-differ", lift(result) == z3.Concat(name, _sv("("), a["_relative"], cwd, _sv(")")), strings=True)
    ctx.oblige("frame", "repr-does-not-modify-the-path", all(_same(st.data["self_"].attrs[k], v) for k, v in a.items()))


# ------------------------------------------------------------------------------------------------ Path.relative_path_context
def rc_setup(ctx):
    self = _path_rec(ctx)
    g = ctx.ghost
    g.update(inside=[], entered=[], exits=0)

    def enter(c, a, k):
        c.ghost["entered"].append(a[0] if a else None)
        c.ghost["inside"].append(a[0] if a else None)
        # contract of change_to_path_dir: for a path it yields that path's directory (a str); for None whatever current_path_dir holds (here: None)
        d = c.fresh("directory of the path", S) if a and isinstance(a[0], Rec) else None
        c.ghost["dir"] = d
        return d

    def exit_(c, token, exc):
        c.ghost["inside"].pop()
        c.ghost["exits"] += 1
        return False  # never swallows

    def at_yield(c, interp, value, env):
        ins = c.ghost["inside"]
        c.oblige("yield", "the-body-runs-inside-change_to_path_dir(this very path)", len(ins) == 1 and ins[0] is self)
        c.oblige("yield", "the-body-is-given-the-directory-change_to_path_dir-reports", c.ghost.get("dir") is not None and _same(value, c.ghost["dir"]))

    return Setup(env={"self": self}, cms={"change_to_path_dir": (enter, exit_)}, hooks={"yield": at_yield}, data=dict(self_=self))


def _rc_end(ctx, st, how):
    g = ctx.ghost
    ctx.oblige("post", f"change_to_path_dir-is-entered-once-with-self-and-left-again({how})", len(g["entered"]) == 1 and g["entered"][0] is st.data["self_"] and g["exits"] == 1 and not g["inside"])
    ctx.oblige("post", f"the-body-runs-exactly-once({how})", len([e for e in ctx.events if e[0] == "yield"]) == 1)


def rc_post(ctx, st, result):
    _rc_end(ctx, st, "normal-exit")


def rc_raises(ctx, st, exc):
    if exc.cls == "<Any>":
        _rc_end(ctx, st, "exception-from-the-body")
    else:
        ctx.oblige("raises", f"no-own-exception(got {exc.cls}@{exc.origin})", False)


# ------------------------------------------------------------------------------------------------ Path.open
def _reading(m):
    return z3.Contains(m, _sv("r"))


def _writing(m):
    return z3.Or(*[z3.Contains(m, _sv(c)) for c in "wax"])


def op_setup(ctx):
    kind = ["local", "fsspec", "url", "stdio"][ctx.choose(4, "kind")]
    mode_given = ctx.choose(2, "mode-given") == 1
    mode = z3.String("mode") if mode_given else None
    cached_already, content, first, sys_, calls = _stdin_world(ctx) if kind == "stdio" else (False, z3.String("content"), None, Rec("module:sys", attrs={}), {})
    self = _path_rec(ctx, _std_io=kind == "stdio", _is_url=kind == "url", _is_fsspec=kind == "fsspec")
    self.methods["get_content"] = lambda c, s_, a, k: (c.event("get_content", tuple(a), dict(k)), content)[1]
    g = ctx.ghost
    g.update(open_now=[], handles=[])

    def cm_open(tag):
        def enter(c, a, k):
            h = Rec("file", attrs={"by": tag})
            c.event("open", tag, a[0] if a else k.get("file"), a[1] if len(a) > 1 else k.get("mode", "r"))
            c.ghost["open_now"].append(h)
            c.ghost["handles"].append(h)
            return h

        def exit_(c, token, exc):
            c.ghost["open_now"].remove(token)
            c.event("close", tag)
            return False
        return (enter, exit_)

    def at_yield(c, interp, value, env):
        c.ghost.setdefault("yielded", []).append(value)
        c.ghost["open_at_yield"] = list(c.ghost["open_now"])
        if isinstance(value, Rec) and value.cls == "CachedStdin":
            value.attrs["pos"] = c.fresh("position the body leaves the cached stdin at", I)  # the body reads as much as it likes
            c.assume(value.attrs["pos"] >= 0)

    calls = dict(calls)
    calls.update({"import_fsspec": lambda c, a, k: Rec("module:fsspec"), "StringIO": lambda c, a, k: Rec("StringIO", attrs={"content": a[0] if a else ""})})
    env = {"self": self}
    if mode_given:
        env["mode"] = mode
    return Setup(env=env, calls=calls, consts={"sys": sys_}, cms={"open": cm_open("builtin-open"), "fsspec.open": cm_open("fsspec-open")}, hooks={"yield": at_yield},
                 inline={"get_cached_stdin": "jsonargparse._util:get_cached_stdin"},
                 data=dict(kind=kind, mode=mode if mode_given else _sv("r"), mode_given=mode_given, self_=self, content=content, sys_=sys_, cached_already=cached_already, first=first),
                 watch={"mode": mode} if mode_given else {})


def _op_end(ctx, st, how):
    d, g = st.data, ctx.ghost
    kind, m = d["kind"], d["mode"]
    tag = f"[{kind},{'mode given' if d['mode_given'] else 'mode omitted: r'},{how}]"
    a = d["self_"].attrs["_absolute"]
    opens = [e for e in ctx.events if e[0] == "open"]
    ys = g.get("yielded", [])
    if kind in ("local", "fsspec"):
        by = "builtin-open" if kind == "local" else "fsspec-open"
        ok = len(opens) == 1 and opens[0][1] == by
        ctx.oblige("post", "exactly-one-file-is-opened,with-" + by + tag, ok)
        if ok:
            ctx.oblige("post", "what-is-opened-is-the-absolute-location(not the spelling given)" + tag, lift(opens[0][2]) == a if is_z3(opens[0][2]) or isinstance(opens[0][2], str) else False)
            ctx.oblige("post", "it-is-opened-in-exactly-the-mode-asked-for(a reading mode stays a reading mode: nothing is created)" + tag, lift(opens[0][3]) == m if is_z3(opens[0][3]) or isinstance(opens[0][3], str) else False, strings=True)
        ctx.oblige("post", "the-body-runs-exactly-once,with-the-opened-handle,while-it-is-open" + tag, len(ys) == 1 and len(g["handles"]) == 1 and ys[0] is g["handles"][0] and g.get("open_at_yield") == [g["handles"][0]])
        ctx.oblige("post", "the-handle-is-closed-on-the-way-out" + tag, not g["open_now"])
    elif kind == "url":
        ctx.oblige("post", "a-url-opens-no-file;the-body-runs-exactly-once-with-the-content-fetched-from-the-absolute-location(get_content: its own unit)" + tag,
                   not opens and len(ys) == 1 and isinstance(ys[0], Rec) and ys[0].cls == "StringIO" and _same(ys[0].attrs.get("content"), d["content"]) and [e[1:] for e in ctx.events if e[0] == "get_content"] == [((), {})])
    else:
        ctx.oblige("post", "'-'-opens-no-file" + tag, not opens)
        ctx.oblige("post", "'-':the-body-runs-exactly-once-for-a-reading-or-a-writing-(w)-mode(modes a / x on the standard streams yield nothing - an observation, outside C19)" + tag, z3.Implies(z3.Or(_reading(m), z3.Contains(m, _sv("w"))), z3.BoolVal(len(ys) == 1)), strings=True)
        ctx.oblige("post", "'-':never-more-than-once" + tag, len(ys) <= 1)
        if len(ys) == 1:
            is_in = isinstance(ys[0], Rec) and ys[0].cls == "CachedStdin"
            is_out = ys[0] is d["sys_"].attrs.get("stdout")
            ctx.oblige("post", "'-':a-reading-mode-gets-the-cached-stdin,a-writing-mode-sys.stdout" + tag, z3.And(z3.Implies(_reading(m), z3.BoolVal(is_in)), z3.Implies(z3.Not(_reading(m)), z3.BoolVal(is_out))), strings=True)
            if is_in:
                _stdin_clauses(ctx, d, tag)
                # (the cache is not rewound after the body: a later get_content() returns '' once - observed, reproduced natively; C19 says nothing about reading
                #  standard input twice, so it is an observation in DESIGN.md, not a clause)


def op_post(ctx, st, result):
    _op_end(ctx, st, "normal-exit")


def op_raises(ctx, st, exc):
    if exc.cls == "<Any>":
        _op_end(ctx, st, "exception-from-the-body")
    else:
        ctx.oblige("raises", f"no-own-exception(got {exc.cls}@{exc.origin})", False)


# ------------------------------------------------------------------------------------------------ resolve_relative_path
RR_MAX = 4
RR_KINDS = ("name", ".", "..")


def _rr_shapes():
    import itertools
    return [sh for n in range(1, RR_MAX + 1) for sh in itertools.product(RR_KINDS, repeat=n)]


def _rr_spec(kinds):
    """Which name segments survive, by bracket matching (a name is an opening bracket, '..' a closing one; '.' is nothing): a name survives iff no
    later '..' is matched with it; a '..' with no unmatched name before it climbs above the root."""
    n = len(kinds)
    keep = []
    for i, k in enumerate(kinds):
        if k != "name":
            continue
        depth, cancelled = 0, False
        for j in range(i + 1, n):
            if kinds[j] == "name":
                depth += 1
            elif kinds[j] == "..":
                if depth == 0:
                    cancelled = True
                    break
                depth -= 1
        if not cancelled:
            keep.append(i)
    bal, above_root = 0, False
    for k in kinds:
        if k == "name":
            bal += 1
        elif k == "..":
            if bal == 0:
                above_root = True
                break
            bal -= 1
    return keep, above_root


def rr_setup(ctx):
    shapes = _rr_shapes()
    kinds = shapes[ctx.choose(len(shapes), "shape")]
    segs = []
    for i, k in enumerate(kinds):
        if k == "name":
            t = z3.String(f"name{i}")
            ctx.assume(z3.Not(z3.Contains(t, _sv("/"))))
            ctx.assume(t != _sv("."))
            ctx.assume(t != _sv(".."))
            segs.append(t)
        else:
            segs.append(k)
    pieces = []
    for i, x in enumerate(segs):
        if i:
            pieces.append("/")
        pieces.append(x)
    if all(isinstance(p, str) for p in pieces):
        path = "".join(pieces)
    else:
        path = z3.Concat(*[lift(p) for p in pieces]) if len(pieces) > 1 else lift(pieces[0])
    keep, above_root = _rr_spec(kinds)

    def split(c, a, k):
        # contract of str.split(sep): the text is the segments joined by '/', none of which holds a '/': cutting at every '/' gives the segments back
        if tuple(a) != ("/",) or k:
            raise Unsupported("split with another separator / a limit")
        return list(segs)

    return Setup(env={"path": path}, calls={"path.split": split}, data=dict(kinds=kinds, segs=segs, keep=keep, above_root=above_root), watch={f"name{i}": x for i, x in enumerate(segs) if is_z3(x)})


def rr_post(ctx, st, result):
    d = st.data
    tag = "[" + "/".join("<name>" if k == "name" else k for k in d["kinds"]) + "]"
    if d["above_root"]:
        return  # what a path that climbs above the root resolves to is not fixed here - only that it does not end in an undocumented exception
    want = []
    for n_, i in enumerate(d["keep"]):
        if n_:
            want.append(_sv("/"))
        want.append(lift(d["segs"][i]))
    want_t = z3.Concat(*want) if len(want) > 1 else (want[0] if want else _sv(""))
    r = lift(result) if is_z3(result) or isinstance(result, str) else None
    ctx.oblige("post", "the-result-is-the-names-no-later-'..'-cancels,in-order,joined-by-'/'(no '.' or '..' segment is left)" + tag, r == want_t if r is not None and r.sort() == S else False, strings=True)


def rr_raises(ctx, st, exc):
    d = st.data
    tag = "[" + "/".join("<name>" if k == "name" else k for k in d["kinds"]) + "]"
    ctx.oblige("raises", f"never-an-undocumented-exception:its-caller-Path.__init__-passes-unchecked-text-and-documents-only-ValueError/PathError(got {exc.cls}@{exc.origin})" + tag, False)


# ------------------------------------------------------------------------------------------------ save_paths (nested in save)
SP_VALUES = ("sub-config namespace keeping its text", "sub-config namespace", "sub-config dict", "namespace without __path__", "readable path", "path not readable", "plain value")
SP_ACTIONS = ("ActionTypeHint", "ActionJsonSchema", "ActionJsonnet", "_ActionConfigLoad", "another action")


def sp_setup(ctx):
    import os.path as osp
    where = ctx.choose(2, "position-of-the-entry-looked-at")
    vkind = SP_VALUES[ctx.choose(len(SP_VALUES), "value")]
    sub = vkind.startswith("sub-config")
    akind = SP_ACTIONS[ctx.choose(len(SP_ACTIONS), "action")] if sub else "another action"
    name = ["sub.yaml", "sub.JSON"][ctx.choose(2, "file-name")] if sub else "ref.txt"
    fmt = z3.String("format")
    orig_text, dump_text, content_text = z3.String("text:__orig__"), z3.String("text:dumped"), z3.String("text:content")
    src = Rec("Path", attrs={"absolute": "/where/it/was/loaded/" + name, "relative": "elsewhere/" + name})
    stripped = Rec("stripped", methods={"as_dict": lambda c, s_, a, k: Rec("stripped-as-dict")})
    if sub:
        store = {"__path__": src, "x": 1}
        if "keeping its text" in vkind:
            store["__orig__"] = orig_text
        val = store if vkind.endswith("dict") else Rec("Namespace", attrs={"store": store}, methods={"__contains__": lambda c, s_, a, k: a[0] in s_.attrs["store"], "__getitem__": lambda c, s_, a, k: s_.attrs["store"][a[0]]})
    elif vkind == "namespace without __path__":
        val = Rec("Namespace", methods={"__contains__": lambda c, s_, a, k: False})
    elif "path" in vkind:
        def get_content(c, s_, a, k):
            c.event("get_content", s_)
            if c.choose(2, "get_content-fails") == 1:
                raise PyRaise(ExcVal("OSError", origin="get_content"))
            return content_text
        val = Rec("Path", attrs={"absolute": "/data/" + name, "relative": "rel/" + name, "mode": "fr" if vkind == "readable path" else "fc"}, methods={"get_content": get_content})
    else:
        val = z3.Int("plain")
    other = z3.Int("the other entry")
    keys = ["k0", "k1"]
    values = {keys[where]: val, keys[1 - where]: other}
    cfg = Rec("Namespace", methods={"get_sorted_keys": lambda c, s_, a, k: list(keys), "__getitem__": lambda c, s_, a, k: (c.event("get", a[0]), values[a[0]])[1],
                                    "__setitem__": lambda c, s_, a, k: c.event("set", a[0], a[1])})
    in_spc = z3.Bool("key in save_path_content")
    self = Rec("ArgumentParser", attrs={"save_path_content": Rec("set", methods={"__contains__": lambda c, s_, a, k: in_spc})})
    g = ctx.ghost
    g.update(open_now=[], made=[])

    def path_ctor(c, a, k):
        c.event("Path", a[0], k.get("mode", a[1] if len(a) > 1 else "fr"))
        if c.choose(2, "Path()-refuses(not creatable)") == 1:
            raise PyRaise(ExcVal("PathError", origin="Path()"))
        given = a[0]
        p = Rec("Path", attrs={"absolute": "/cwd/" + given if isinstance(given, str) else c.fresh("abs", S), "relative": given, "mode": k.get("mode")}, methods={"__str__": lambda c2, s2, a2, k2: s2.attrs["relative"]})
        c.ghost["made"].append(p)
        return p

    def check_overwrite(c, a, k):
        c.event("check_overwrite", a[0])
        if c.choose(2, "check_overwrite-refuses") == 1:
            raise PyRaise(ExcVal("ValueError", origin="check_overwrite"))
        return None

    def dump_using_format(c, a, k):
        c.event("dump_using_format", a[0], a[1], a[2])
        if c.choose(2, "serialisation-fails") == 1:
            raise PyRaise(ExcVal("RepresenterError", origin="dump_using_format"))
        return dump_text

    def open_enter(c, a, k):
        c.event("open", a[0], a[1] if len(a) > 1 else k.get("mode", "r"))
        h = Rec("file", attrs={"path": a[0]}, methods={"write": lambda c2, s2, a2, k2: c2.event("write", s2.attrs["path"], a2[0], s2 in c2.ghost["open_now"])})
        c.ghost["open_now"].append(h)
        return h

    calls = {"Path": path_ctor, "check_overwrite": check_overwrite, "dump_using_format": dump_using_format, "os.path.basename": lambda c, a, k: osp.basename(a[0]) if isinstance(a[0], str) else c.fresh("basename", S),
             "_find_action": lambda c, a, k: (c.event("_find_action", a[0], a[1]), Rec(akind))[1], "strip_meta": lambda c, a, k: (c.event("strip_meta", a[0]), stripped)[1],
             "type": lambda c, a, k: Fn(lambda c2, a2, k2: Rec("Path", attrs={"rebuilt_from": a2[0], "type_of": a[0]}), "type(val)")}
    cms = {"open": (open_enter, lambda c, t, e: (c.ghost["open_now"].remove(t), False)[1])}
    consts = {n: ClassRef(n) for n in ("Namespace", "ActionJsonSchema", "ActionJsonnet", "ActionTypeHint", "_ActionConfigLoad")}
    for n in ("ActionJsonSchema", "ActionJsonnet", "ActionTypeHint", "_ActionConfigLoad"):
        ctx.classes.add(n, ["Action"])
    ctx.classes.add("Namespace", ["object"])
    ctx.classes.add("Path", ["object"])
    return Setup(env={"cfg": cfg, "self": self, "format": fmt}, calls=calls, cms=cms, consts=consts,
                 data=dict(where=where, key=keys[where], other_key=keys[1 - where], vkind=vkind, akind=akind, sub=sub, name=name, fmt=fmt, orig_text=orig_text, dump_text=dump_text, content_text=content_text,
                           val=val, src=src, stripped=stripped, in_spc=in_spc, self_=self))


def _sp_tag(d):
    return f"[{d['vkind']}{',' + d['akind'] + ',' + d['name'] if d['sub'] else ''},entry {d['where']}]"


def _sp_protocol(ctx, st, how):
    """Whatever the outcome: the order of events around every open."""
    d, ev = st.data, ctx.events
    tag = _sp_tag(d) + f"({how})"
    for i, e in enumerate(ev):
        if e[0] != "open":
            continue
        made = [p for p in ctx.ghost["made"] if p.attrs["absolute"] == e[1]]
        ctx.oblige("proto", "a-file-is-opened-only-for-writing-afresh('w'),under-the-absolute-name-of-a-Path(<base name of the source>, mode='fc')-that-was-accepted-before" + tag,
                   e[2] == "w" and len(made) == 1 and any(x[0] == "Path" and x[1] == d["name"] and x[2] == "fc" for x in ev[:i]))
        ctx.oblige("proto", "check_overwrite-passed-on-that-very-path-before-it-is-opened(an existing file is refused unless overwrite)" + tag,
                   len(made) == 1 and any(x[0] == "check_overwrite" and x[1] is made[0] for x in ev[:i]))
        ctx.oblige("proto", "the-text-to-write-exists-before-the-file-is-opened(serialised / fetched first: a failure leaves no empty file)" + tag,
                   not any(x[0] in ("dump_using_format", "get_content") for x in ev[i:]))
    ctx.oblige("proto", "every-opened-file-is-closed-again" + tag, not ctx.ghost["open_now"])
    gets = [e[1] for e in ev if e[0] == "get"]
    ctx.oblige("frame", "the-other-entry-is-left-alone" + tag, not [e for e in ev if e[0] == "set" and e[1] == d["other_key"]])
    return gets


def sp_post(ctx, st, result):
    d, ev = st.data, ctx.events
    tag = _sp_tag(d)
    gets = _sp_protocol(ctx, st, "return")
    ctx.oblige("post", "every-entry-is-visited-once,in-key-order" + tag, gets == ["k0", "k1"])
    opens = [e for e in ev if e[0] == "open"]
    writes = [e for e in ev if e[0] == "write"]
    sets = [e for e in ev if e[0] == "set"]
    typed = d["sub"] and d["akind"] != "another action"
    if typed:
        text = d["orig_text"] if "keeping its text" in d["vkind"] else d["dump_text"]
        ctx.oblige("post", "a-sub-config-from-its-own-file-is-written-once,under-its-own-file-name-in-the-current-directory,with-its-own-text(the original text if kept)" + tag,
                   len(opens) == 1 and opens[0][1] == "/cwd/" + d["name"] and len(writes) == 1 and writes[0][1] == opens[0][1] and writes[0][2] is text and writes[0][3] is True)
        ctx.oblige("post", "the-entry-then-names-the-written-file(base name),set-once,after-the-write" + tag, len(sets) == 1 and sets[0][1] == d["key"] and sets[0][2] == d["name"] and (not writes or ev.index(sets[0]) > ev.index(writes[0])))
        du = [e for e in ev if e[0] == "dump_using_format"]
        if "keeping its text" in d["vkind"]:
            ctx.oblige("post", "kept-text-is-not-serialised-again" + tag, not du)
        else:
            want_fmt = "json_indented" if d["name"].lower().endswith(".json") else d["fmt"]
            want_val = "stripped" if d["vkind"].endswith("dict") else "stripped-as-dict"
            ctx.oblige("post", "serialised-once:the-value-without-its-meta-keys(a namespace as a dict),in-the-format-of-the-save(json_indented for a .json name),by-this-parser" + tag,
                       len(du) == 1 and du[0][1] is d["self_"] and isinstance(du[0][2], Rec) and du[0][2].cls == want_val and (du[0][3] == want_fmt if isinstance(want_fmt, str) else _same(du[0][3], want_fmt))
                       and [e[1] for e in ev if e[0] == "strip_meta"] == [d["val"]])
        fa = [e for e in ev if e[0] == "_find_action"]
        ctx.oblige("post", "the-action-is-looked-up-for-this-key-in-this-parser" + tag, len(fa) == 1 and fa[0][1] is d["self_"] and fa[0][2] == d["key"])
    elif d["vkind"] == "readable path":
        saved = bool(opens)
        ctx.oblige("post", "a-readable-path-is-copied-iff-its-key-is-in-save_path_content" + tag, z3.BoolVal(saved) == d["in_spc"])
        if saved:
            ctx.oblige("post", "the-content-is-written-once,under-the-path's-base-name-in-the-current-directory" + tag,
                       len(opens) == 1 and opens[0][1] == "/cwd/" + d["name"] and len(writes) == 1 and writes[0][1] == opens[0][1] and writes[0][2] is d["content_text"] and writes[0][3] is True and [e[1] for e in ev if e[0] == "get_content"] == [d["val"]])
            ctx.oblige("post", "the-entry-becomes-a-path-of-the-same-type-to-the-copy,set-once,after-the-write" + tag,
                       len(sets) == 1 and sets[0][1] == d["key"] and isinstance(sets[0][2], Rec) and sets[0][2].attrs.get("rebuilt_from") == d["name"] and sets[0][2].attrs.get("type_of") is d["val"] and ev.index(sets[0]) > ev.index(writes[0]))
        else:
            ctx.oblige("frame", "otherwise-nothing-is-opened,nothing-changed" + tag, not opens and not sets and not [e for e in ev if e[0] in ("Path", "check_overwrite")])
    else:
        ctx.oblige("frame", "any-other-entry:no-path-is-made,nothing-is-opened,the-entry-is-kept" + tag, not opens and not sets and not [e for e in ev if e[0] in ("Path", "check_overwrite", "dump_using_format")])


def sp_raises(ctx, st, exc):
    d = st.data
    tag = _sp_tag(d)
    _sp_protocol(ctx, st, f"raise:{exc.origin}")
    ok = exc.origin in ("Path()", "check_overwrite", "dump_using_format", "get_content")
    ctx.oblige("raises", f"only-a-refusal-or-a-failure-of-a-callee-escapes(got {exc.cls}@{exc.origin})" + tag, ok)
    ctx.oblige("raises", f"and-then-this-entry's-file-was-not-opened,the-entry-not-changed({exc.origin})" + tag, not [e for e in ctx.events if e[0] in ("open", "write", "set")])


# ------------------------------------------------------------------------------------------------ the module
U = "jsonargparse._util:"
SAVE = "jsonargparse._core:ArgumentParser.save.<locals>."


def units(prop):
    return [
        acc_unit(prop, "relative", "_relative", "the-spelling-given(the stored _relative)"),
        acc_unit(prop, "absolute", "_absolute", "the-resolved-location(the stored _absolute)"),
        acc_unit(prop, "mode", "_mode", "the-mode-the-path-was-checked-with"),
        acc_unit(prop, "is_url", "_is_url", "the-kind-decided-at-creation(by the scheme)"),
        acc_unit(prop, "is_fsspec", "_is_fsspec", "the-kind-decided-at-creation(by the scheme)"),
        Unit(prop, U + "parse_url", pu_setup, pu_post, _no_exc, trusted=["str.rfind / slicing as the SMT-LIB string operations (last index of, substring)", "UrlData is a plain record of its two fields"]),
        Unit(prop, U + "is_absolute_path", ia_setup, ia_post, _no_exc, trusted=["str.find as the SMT-LIB index-of", "os.path.isabs is a function of the string"]),
        Unit(prop, SAVE + "check_overwrite", co_setup, co_post, co_raises, expect_cover=("return", "raise:ValueError"),
             trusted=["os.path.isfile is a predicate of the path string, stable during the call (A3)", "closure variable overwrite: any bool"]),
        Unit(prop, U + "known_to_fsspec", kf_setup, kf_post, _no_exc, trusted=["iterating fsspec.registry.known_implementations yields the registered protocol names", "import_fsspec returns the module (fsspec_support is the caller's guard)", "str.startswith as the SMT-LIB prefix-of"]),
        Unit(prop, U + "get_cached_stdin", gs_setup, gs_post, _no_exc, trusted=["the real sys.stdin.read() returns everything on standard input once and '' afterwards", "CachedStdin(text) is a StringIO holding text at position 0"]),
        Unit(prop, U + "read_cached_stdin", rs_setup, rs_post, _no_exc, trusted=["get_cached_stdin interpreted from its real body", "StringIO.read() returns the text from the position to the end and moves to the end; seek(n) moves to n",
                                                                                  "precondition: an existing cache is rewound (kept by read_cached_stdin itself; Path.open hands the cache to arbitrary code: see its own clause)"]),
        Unit(prop, U + "Path.__repr__", rp_setup, rp_post, _no_exc, trusted=["_repr_skip_check(name) appends '_skip_check' iff the deprecated skip_check is on (PathDeprecations)"]),
        Unit(prop, U + "Path.relative_path_context", rc_setup, rc_post, rc_raises, expect_cover=("return", "raise:<Any>"),
             trusted=["change_to_path_dir(path) by its contract (its own unit, C19): sets cwd / current_path_dir to the directory of the path, yields it, restores on every exit, never swallows", "the with-body returns or throws anything"]),
        Unit(prop, U + "Path.open", op_setup, op_post, op_raises, expect_cover=("return", "raise:<Any>"),
             trusted=["builtin open / fsspec.open are the only operations that open a file (ghost events); open(p, m) with a reading mode creates nothing (open's own contract)", "get_cached_stdin interpreted from its real body",
                      "the with-body returns or throws anything and may read the handle it was given", "Path.get_content by its contract (its own unit, C19)"]),
        Unit(prop, U + "resolve_relative_path", rr_setup, rr_post, rr_raises, expect_cover=("return",), max_paths=20000,
             trusted=["str.split('/') of segments joined by '/', none holding a '/', gives the segments back (the engine's exact split stalls the solvers on 4 symbolic segments); '/'.join as concatenation", "paths of up to 4 segments; every name any string without '/' other than '.' and '..' (the empty name included: '//' and a leading '/')"]),
        Unit(prop, SAVE + "save_paths", sp_setup, sp_post, sp_raises, expect_cover=("return", "raise:PathError", "raise:ValueError", "raise:RepresenterError", "raise:OSError"),
             trusted=["open(p, 'w') is the only operation of save_paths that creates or truncates a file (ghost events); file.write does not fail midway", "check_overwrite by its contract (its own unit): returns or raises ValueError",
                      "Path(name, mode='fc') resolves the name against the current directory and raises unless creatable (Path.__init__: C19)", "_find_action / strip_meta / dump_using_format / get_content: no file-system effects other than reading",
                      "two entries, one of every kind and one plain value, in either order; closure variables self, format (any string), check_overwrite"]),
    ]


UNITS = units("C19")
CARRIES = {
    "C19": ["Path.relative", "Path.absolute", "Path.mode", "Path.is_url", "Path.is_fsspec", ":parse_url", ":is_absolute_path", "known_to_fsspec", "get_cached_stdin", "read_cached_stdin", "Path.__repr__", "Path.relative_path_context", "Path.open", "resolve_relative_path"],
    "C18": ["check_overwrite", "save_paths"],
}
