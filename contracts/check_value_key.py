"""ArgumentParser._check_value_key (jsonargparse/_core.py): where a value meets the action declared for its key.
accepted => the value returned is what the action's own type check / type function returns for the given value (element-wise for
list-valued options), and - for options with choices - every value is one of the choices; None is let through only in the lenient
phase; a whole-group loader loads text and lets structured values through; below a subcommand name the value is validated by that
subcommand's parser; a failing type function is reported as TypeError naming the key.
"""
import z3

from pyvc.engine import ClassRef, ExcVal, Fn, PyRaise, Rec, is_z3, lift
from pyvc.units import Setup, Unit

KINDS = ["typed", "plain-type-fn", "plain-type-fn-list", "plain-no-type", "choices", "choices-list", "choices-list-given-a-scalar", "config-load-text", "config-load-structured", "subcommand-name", "subcommand-section", "subcommands-without-choices"]


def cvk_setup(ctx):
    kind = KINDS[ctx.choose(len(KINDS), "action")]
    none_val = ctx.choose(2, "value-is-None") == 1
    lenient = ctx.choose(2, "lenient-phase") == 1
    fails = ["no", "TypeError", "ValueError", "KeyError"][ctx.choose(4, "type-function-raises")] if kind in ("plain-type-fn", "plain-type-fn-list", "typed") and not none_val else "no"
    for n in ("_ActionConfigLoad", "_ActionSubCommands"):
        ctx.classes.add(n, ["Action"])
    open_cms = []
    given = z3.Int("given")
    key = "grp.k"
    cfg = Rec("Namespace(prev)")

    def typefn(c, a, k):
        c.event("type-fn", a[0])
        if fails != "no":
            raise PyRaise(ExcVal(fails, args=("bad",), origin="type-fn"))
        return ("converted", a[0])

    def check_type_(c, s_, a, k):
        c.event("_check_type_", a[0], k.get("cfg"), list(open_cms))
        if fails != "no":
            raise PyRaise(ExcVal(fails, args=("bad",), origin="_check_type_"))
        return ("checked", a[0])

    subparser = Rec("ArgumentParser(sub)", methods={"validate": lambda c, s_, a, k: c.event("sub.validate", a[0], k.get("_prefix"))})
    choices = [z3.Int("choice0"), z3.Int("choice1")]
    elems = [z3.Int("elem0"), z3.Int("elem1")]
    value = given
    if kind == "typed":
        action = Rec("ActionTypeHint", attrs={"dest": key, "choices": None, "nargs": None, "type": None}, methods={"_check_type": lambda c, s_, a, k: None, "_check_type_": check_type_})
    elif kind == "plain-type-fn":
        action = Rec("Action", attrs={"dest": key, "choices": None, "nargs": [None, "?", 0][ctx.choose(3, "nargs")], "type": Fn(typefn, "type")})
    elif kind == "plain-type-fn-list":
        action = Rec("Action", attrs={"dest": key, "choices": None, "nargs": ["+", 2][ctx.choose(2, "nargs")], "type": Fn(typefn, "type")})
        value = list(elems)
    elif kind == "plain-no-type":
        action = Rec("Action", attrs={"dest": key, "choices": None, "nargs": None, "type": None})
    elif kind == "choices":
        action = Rec("Action", attrs={"dest": key, "choices": list(choices), "nargs": None, "type": None})
    elif kind == "choices-list":
        action = Rec("Action", attrs={"dest": key, "choices": list(choices), "nargs": "+", "type": None})
        value = list(elems)
    elif kind == "choices-list-given-a-scalar":
        # a document gives one value where the option takes a list (n: a): not a list, so no element can be checked
        action = Rec("Action", attrs={"dest": key, "choices": list(choices), "nargs": "+", "type": None})
        value = given
    elif kind.startswith("config-load"):
        action = Rec("_ActionConfigLoad", attrs={"dest": key, "choices": None, "nargs": None, "type": None}, methods={"check_type": lambda c, s_, a, k: (c.event("load", a[0], a[1]), ("loaded", a[0]))[1]})
        value = z3.String("given-text") if kind == "config-load-text" else Rec("Namespace given")
    else:
        has = kind != "subcommands-without-choices"
        action = Rec("_ActionSubCommands", attrs={"dest": "subcommand" if kind != "subcommand-name" else "k", "choices": {"k": subparser} if has else {}, "nargs": None, "type": None,
                                                   "_name_parser_map": {"k": subparser}})
        value = Rec("section or name")
    if none_val:
        value = None
    self = Rec("ArgumentParser")
    calls = {"lenient_check.get": lambda c, a, k: lenient, "_is_action_value_list": lambda c, a, k: a[0].attrs["nargs"] in ("+", "*") or (isinstance(a[0].attrs["nargs"], int) and a[0].attrs["nargs"] != 0)}
    consts = {"_ActionConfigLoad": ClassRef("_ActionConfigLoad"), "_ActionSubCommands": ClassRef("_ActionSubCommands")}
    cms = {"parser_context": (lambda c, a, k: open_cms.append(dict(k)), lambda c, t, e: (open_cms.pop(), False)[1])}
    return Setup(env={"self": self, "action": action, "value": value, "key": key, "cfg": cfg}, calls=calls, consts=consts, cms=cms, inline={"split_key_leaf": "jsonargparse._namespace:split_key_leaf"},
                 data=dict(kind=kind, none_val=none_val, lenient=lenient, fails=fails, value=value, action=action, self_=self, cfg=cfg, choices=choices, elems=elems, subparser=subparser, key=key, open_cms=open_cms))


def cvk_post(ctx, st, result):
    d = st.data
    tag = f"[{d['kind']}{',None' if d['none_val'] else ''}{',lenient' if d['lenient'] else ''}{',nargs=' + repr(d['action'].attrs['nargs']) if d['kind'].startswith('plain-type') else ''}]"
    ev = ctx.events
    ctx.oblige("post", "no-failure-of-the-type-function-is-swallowed" + tag, d["fails"] == "no")
    if d["none_val"] and d["lenient"]:
        ctx.oblige("post", "None-in-the-lenient-phase-is-let-through-unchecked(required / type are enforced by the final validation)" + tag, result is None and not ev)
        return
    k = d["kind"]
    if k == "typed":
        calls = [e for e in ev if e[0] == "_check_type_"]
        ok = len(calls) == 1 and calls[0][1] is d["value"] and calls[0][2] is d["cfg"] and calls[0][3] == [{"parent_parser": d["self_"]}]
        ctx.oblige("post", "a-typed-option's-value-is-what-its-own-type-check-returns-for-the-given-value(with the previous configuration,inside this parser's context)" + tag,
                   ok and result == ("checked", d["value"]))
    elif k == "plain-type-fn":
        calls = [e for e in ev if e[0] == "type-fn"]
        ctx.oblige("post", "a-plain-option's-value-is-its-type-function-applied-to-the-given-value,once" + tag, len(calls) == 1 and calls[0][1] is d["value"] and result == ("converted", d["value"]))
    elif k == "plain-type-fn-list":
        if d["none_val"]:
            ctx.oblige("post", "None-for-a-list-valued-option-is-returned-as-it-is" + tag, result is None and not ev)
        else:
            calls = [e[1] for e in ev if e[0] == "type-fn"]
            ctx.oblige("post", "a-list-valued-option's-elements-are-converted-one-by-one,in-order" + tag,
                       len(calls) == 2 and all(x is y for x, y in zip(calls, d["elems"])) and isinstance(result, list) and result == [("converted", d["elems"][0]), ("converted", d["elems"][1])])
    elif k == "plain-no-type":
        ctx.oblige("post", "without-a-type-the-value-is-returned-as-given" + tag, result is d["value"])
    elif k in ("choices", "choices-list"):
        vals = [d["value"]] if k == "choices" else list(d["elems"])
        if d["none_val"]:
            vals = [None]
        member = [z3.Or(*[lift(v) == c for c in d["choices"]]) if v is not None else z3.BoolVal(False) for v in vals]
        ctx.oblige("post", "accepted=>every-value-is-one-of-the-declared-choices" + tag, z3.And(*member))
        ctx.oblige("post", "the-value-is-returned-as-given" + tag, result is d["value"])
    elif k == "config-load-text":
        loads = [e for e in ev if e[0] == "load"]
        ctx.oblige("post", "text-given-for-a-whole-group-option-is-loaded-by-the-group's-loader" + tag, (result is None and not loads) if d["none_val"] else (len(loads) == 1 and loads[0][1] is d["value"] and loads[0][2] is d["self_"] and result == ("loaded", d["value"])))
    elif k == "config-load-structured":
        ctx.oblige("post", "a-structured-value-for-a-whole-group-option-passes-through(its members are checked by their own actions)" + tag, result is d["value"] and not [e for e in ev if e[0] == "load"])
    elif k == "subcommand-name":
        ctx.oblige("post", "the-subcommand-name-itself-is-returned-as-given" + tag, result is d["value"] and not [e for e in ev if e[0] == "sub.validate"])
    elif k == "subcommand-section":
        vs = [e for e in ev if e[0] == "sub.validate"]
        ctx.oblige("post", "a-subcommand's-section-is-validated-by-that-subcommand's-parser,under-its-key" + tag, len(vs) == 1 and vs[0][1] is d["value"] and vs[0][2] == d["key"] + "." and result is d["value"])
    elif k == "choices-list-given-a-scalar":
        ctx.oblige("post", "a-value-that-is-not-a-list-is-never-accepted-for-a-list-valued-option-with-choices" + tag, False)
    else:
        ctx.oblige("post", "no-subcommands-declared=>value-as-given" + tag, result is d["value"])
    ctx.oblige("post", "no-context-left-open" + tag, not d["open_cms"])


def cvk_raises(ctx, st, exc):
    d = st.data
    tag = f"[{d['kind']}{',None' if d['none_val'] else ''}]"
    if d["kind"] in ("choices", "choices-list"):
        vals = [d["value"]] if d["kind"] == "choices" else list(d["elems"])
        if d["none_val"]:
            vals = [None]
        member = [z3.Or(*[lift(v) == c for c in d["choices"]]) if v is not None else z3.BoolVal(False) for v in vals]
        # the parse paths turn TypeError into ArgumentError (C03): nothing else may leave (an AssertionError did, for a value that is not a list)
        ctx.oblige("raises", "rejected-by-choices=>TypeError,and-some-value-is-not-among-the-choices(or, for a list-valued option, the value is not a list)" + tag,
                   z3.And(z3.BoolVal(exc.cls == "TypeError"), z3.BoolVal(True) if (d["kind"] == "choices-list" and d["none_val"]) else z3.Not(z3.And(*member))))
    elif d["kind"] == "choices-list-given-a-scalar":
        ctx.oblige("raises", f"a-value-that-is-not-a-list-is-refused-with-TypeError(what the parse methods report as ArgumentError)(got {exc.cls})" + tag, exc.cls == "TypeError" and exc.origin.startswith("raise@"))
    elif d["kind"].startswith("plain-type-fn"):
        ctx.oblige("raises", f"a-failing-type-function(TypeError/ValueError)-is-reported-as-TypeError-naming-the-key;anything-else-as-it-is(got {exc.cls})" + tag,
                   (d["fails"] in ("TypeError", "ValueError") and exc.cls == "TypeError" and exc.origin != "type-fn") or (d["fails"] == "KeyError" and exc.cls == "KeyError"))
    elif d["kind"] == "typed":
        ctx.oblige("raises", f"the-type-check's-own-exception-propagates(got {exc.cls})" + tag, d["fails"] != "no" and exc.cls == d["fails"] and exc.origin == "_check_type_" and not d["open_cms"])
    else:
        ctx.oblige("raises", f"no-exception-for-this-kind(got {exc.cls}@{exc.origin})" + tag, False)


def check_value_key_unit(prop):
    return Unit(prop, "jsonargparse._core:ArgumentParser._check_value_key", cvk_setup, cvk_post, cvk_raises, expect_cover=("return", "raise:TypeError"), max_paths=20000,
                trusted=["action._check_type_(value, cfg=) is ActionTypeHint._check_type (its own unit) and the arms of adapt_typehints", "action.type(value) is the user's type function", "subparser.validate by contract (C06 units)",
                         "_ActionConfigLoad.check_type loads the text with the parser's loader"])
