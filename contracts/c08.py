"""C08 - parse, validate, dump and instantiate never modify what they are given.

Proved here (frame conditions on the real bodies):
  recreate_branches / Namespace.clone / strip_meta   the copy is structurally equal (minus skip_keys) and every Namespace,
        dict and list reachable from it through Namespace/dict/list edges is a *new* object; nothing of the input is
        modified - also for containers below tuples (their sharing was the root of the defects found for this
        property; fixed in /repo).  OrderedDict and foreign objects are kept as they are.
  patch_namespace, parser_context                     argparse.Namespace / the context variables are restored on every exit
  merge_config (unit of C04)                          works on clones of both arguments
  change_to_path_dir (unit of C19)                    cwd restored on every exit
Shapes for recreate_branches: every nesting of {Namespace, dict, list, tuple, OrderedDict, scalar} up to depth 3.
"""
import itertools

import z3

from contracts.ctxvars import cm_unit, standard_units
from pyvc.engine import ClassRef, ExcVal, PyRaise, Rec, Unsupported
from pyvc.units import Setup, Unit

KINDS = ["scalar", "Namespace", "dict", "list", "tuple", "OrderedDict", "empty-Namespace", "empty-dict", "empty-list"]


class NS(Rec):
    pass


def mk_ns(store):
    def setitem(c, s_, a, k):
        s_.attrs["store"][a[0]] = a[1]
        c.mutated(s_)
    r = NS("Namespace", attrs={"store": store}, methods={"__setitem__": setitem, "__bool__": lambda c, s_, a, k: bool(s_.attrs["store"])})
    r.attrs["__dict__"] = Rec("dict-view", methods={"items": lambda c, s_, a, k: list(r.attrs["store"].items())})
    return r


def build(ctx, depth, path="v"):
    kind = KINDS[ctx.choose(len(KINDS) if depth > 0 else 1, f"{path}-kind")]
    if kind == "scalar":
        return z3.Int(path)
    if kind == "list":
        return [build(ctx, depth - 1, path + "[0]"), z3.Int(path + "[1]")]
    if kind == "tuple":
        return (build(ctx, depth - 1, path + "(0)"),)
    if kind.startswith("empty-"):
        # an empty branch is a branch: its copy must be a new object too (a key set in the clone must not appear in the original)
        return {"empty-Namespace": mk_ns, "empty-dict": dict, "empty-list": list}[kind]({}) if kind != "empty-list" else []
    kids = {"a": build(ctx, depth - 1, path + ".a"), "__path__": z3.Int(path + ".__path__")}
    if kind == "dict":
        return dict(kids)
    if kind == "OrderedDict":
        return Rec("OrderedDict", attrs={"store": kids})
    return mk_ns(kids)


def snapshot(v):
    """Deep structural snapshot with object identities."""
    if isinstance(v, NS):
        return ("ns", id(v), {k: snapshot(x) for k, x in v.attrs["store"].items()})
    if isinstance(v, Rec):
        return ("obj", id(v), {k: snapshot(x) for k, x in v.attrs.get("store", {}).items()})
    if isinstance(v, dict):
        return ("dict", id(v), {k: snapshot(x) for k, x in v.items()})
    if isinstance(v, list):
        return ("list", id(v), [snapshot(x) for x in v])
    if isinstance(v, tuple):
        return ("tuple", id(v), [snapshot(x) for x in v])
    return ("leaf", v.get_id() if hasattr(v, "get_id") else v)


def equal_minus(a, b, skip):
    """b is the copy of a: same structure and leaves, skip-keys dropped from Namespace/dict nodes."""
    if a[0] != b[0]:
        return False
    if a[0] in ("ns", "dict"):
        want = {k: v for k, v in a[2].items() if skip is None or k not in skip}
        return set(want) == set(b[2]) and all(equal_minus(want[k], b[2][k], skip) for k in want)
    if a[0] == "list":
        return len(a[2]) == len(b[2]) and all(equal_minus(x, y, skip) for x, y in zip(a[2], b[2]))
    if a[0] == "tuple":
        # a tuple may be shared as is or rebuilt element-wise (the property does not fix which); either way equal content
        return len(a[2]) == len(b[2]) and all(equal_minus(x, y, skip if a[1] != b[1] else None) for x, y in zip(a[2], b[2]))
    if a[0] == "obj":
        return a[1] == b[1]  # foreign objects (OrderedDict ...) are kept as they are
    return a == b


def fresh(a, b):
    """Every Namespace/dict/list of the copy b reachable through Namespace/dict/list edges is a new object."""
    if b[0] in ("ns", "dict"):
        return a[1] != b[1] and all(fresh(a[2][k], b[2][k]) for k in b[2])
    if b[0] == "list":
        return a[1] != b[1] and all(fresh(x, y) for x, y in zip(a[2], b[2]))
    if b[0] == "tuple":
        return all(fresh(x, y) for x, y in zip(a[2], b[2]))  # containers below a tuple must be new objects too
    return True


def rb_setup(ctx):
    data = build(ctx, 3)
    skip = [None, {"__path__"}][ctx.choose(2, "skip_keys")]
    before = snapshot(data)
    ctx.classes.add("OrderedDict", ["dict"])

    def getattr_model(c, a, k):
        obj = a[0]
        if isinstance(obj, Rec) and "__dict__" in obj.attrs:
            return obj.attrs["__dict__"]
        return a[2]

    calls = {"getattr": getattr_model, "Namespace": lambda c, a, k: mk_ns({})}
    consts = {"OrderedDict": ClassRef("OrderedDict")}
    return Setup(env={"data": data, "skip_keys": skip}, calls=calls, consts=consts, inline={"recreate_branches": "jsonargparse._namespace:recreate_branches"},
                 data=dict(data=data, before=before, skip=skip))


def rb_post(ctx, st, result):
    d = st.data
    after_input = snapshot(d["data"])
    out = snapshot(result)
    ctx.oblige("frame", "the-input-is-not-modified", after_input == d["before"])
    ctx.oblige("post", "the-copy-is-structurally-equal(skip_keys dropped)", equal_minus(d["before"], out, d["skip"]), note=f"{d['before']} -> {out}")
    ctx.oblige("post", "every-Namespace/dict/list-of-the-copy-is-a-new-object(also below tuples; OrderedDict and foreign objects are kept)", fresh(d["before"], out))


def no_exc(ctx, st, exc):
    ctx.oblige("raises", f"never-raises(got {exc.cls}@{exc.origin})", False)


# ------------------------------------------------------------------------------------- patch_namespace
def pn_setup(ctx):
    original = Rec("class argparse.Namespace")
    argparse = Rec("module argparse", attrs={"Namespace": original})
    ours = Rec("class jsonargparse.Namespace")

    def at_yield(ctx_, interp, value, e):
        ctx_.oblige("yield", "inside-the-body:argparse.Namespace-is-jsonargparse's", argparse.attrs["Namespace"] is ours)

    return Setup(env={}, consts={"argparse": argparse, "Namespace": ours}, hooks={"yield": at_yield}, data=dict(argparse=argparse, original=original))


def pn_post(ctx, st, result):
    ctx.oblige("post", "normal-exit:argparse.Namespace-restored", st.data["argparse"].attrs["Namespace"] is st.data["original"])


def pn_raises(ctx, st, exc):
    if exc.cls == "<Any>":
        ctx.oblige("post", "exception-from-the-body:argparse.Namespace-restored", st.data["argparse"].attrs["Namespace"] is st.data["original"])
    else:
        ctx.oblige("raises", f"no-own-exception(got {exc.cls})", False)


UNITS = [
    Unit("C08", "jsonargparse._namespace:recreate_branches", rb_setup, rb_post, no_exc, max_paths=100000,
         trusted=["Namespace() builds an empty namespace; ns[key] = v stores v under key; getattr(x, '__dict__', x).items() lists the entries of a Namespace / dict"]),
    Unit("C08", "jsonargparse._namespace:patch_namespace", pn_setup, pn_post, pn_raises, expect_cover=("return", "raise:<Any>")),
] + [u for u in standard_units("C08") if u.target.endswith(":parser_context")]
from contracts.core_units import dump_unit, instantiate_unit  # noqa: E402
UNITS += [dump_unit("C08"), instantiate_unit("C08")]

from contracts.misc_units import expand_help_unit  # noqa: E402
UNITS.append(expand_help_unit("C08"))

from contracts.class_type import class_type_unit  # noqa: E402
UNITS.append(class_type_unit("C08"))

VERIFIED_CALLEES = ("recreate_branches",)
LEVEL = "other"
TECHNIQUE = "contract-based deductive verification of frame conditions (copy freshness of recreate_branches, restoration of argparse.Namespace / context variables / cwd; VCs from the real AST) + bounded deep-snapshot contract around every public operation"
LEVEL_TEXT = 'Proved: recreate_branches (clone, strip_meta, get_defaults) returns a structurally equal copy in which every Namespace, dict and list - also below tuples - is a new object, and leaves its input untouched, for every nesting of depth <= 3 (this exposed the sharing below tuples; fixed); argparse.Namespace and the context variables are restored on every exit of patch_namespace / parser_context; merge_config and parse_object work on copies (C04 units); cwd restored (C19 unit). Bounded only: deep snapshots (value, type, identity) around every public operation on 7 parser styles x 16 container shapes, incl. calls that raise midway, and instantiate-twice freshness.'
LEVEL_NOTE = "under construction"
EXPLANATION = "under construction"
ASSUMPTIONS = []
TRUSTED = []
BOUNDED = [{"name": "deep-snapshot-around-every-operation", "script": "bounded/b08_noninterference.py"}]

# get_defaults hands out copies of the declared defaults (never the parser's own objects)
import dataclasses as _dc  # noqa: E402
from contracts.c04 import UNITS as _C04_UNITS  # noqa: E402
UNITS += [_dc.replace(u, prop="C08") for u in _C04_UNITS if u.target.endswith("ArgumentParser.get_defaults")]


# ------------------------------------------------------------------------------------------------ strip_meta / Namespace.clone
def sm_setup(ctx):
    kind = ["non-empty-namespace", "empty-namespace", "non-empty-dict", "empty-dict", "None"][ctx.choose(5, "cfg")]
    cfg = {"non-empty-namespace": Rec("Namespace", methods={"__bool__": lambda c, s_, a, k: True}), "empty-namespace": Rec("Namespace", methods={"__bool__": lambda c, s_, a, k: False}),
           "non-empty-dict": {"a": 1, "__path__": 2}, "empty-dict": {}, "None": None}[kind]
    copy = Rec("copy without meta keys")
    # contract of recreate_branches (its own unit): a Namespace / dict / list comes back as a new object, anything else (None) as it is
    calls = {"recreate_branches": lambda c, a, k: (c.event("recreate", a[0], k.get("skip_keys")), copy if a[0] is not None else None)[1]}
    meta = {"__default_config__", "__path__", "__orig__"}
    return Setup(env={"cfg": cfg}, calls=calls, consts={"meta_keys": meta}, data=dict(kind=kind, cfg=cfg, copy=copy, meta=meta))


def sm_post(ctx, st, result):
    d = st.data
    ev = [e for e in ctx.events if e[0] == "recreate"]
    if d["kind"] != "None":
        # also an *empty* configuration: instantiate_classes and dump write into what strip_meta returns (an empty Namespace given to
        # instantiate_classes of a parser with class groups came back holding the instances - the caller's own object; fixed)
        ctx.oblige("post", f"a-configuration(empty or not)-is-returned-as-a-copy-without-the-meta-keys:the-caller's-object-is-never-the-result[{d['kind']}]",
                   result is d["copy"] and len(ev) == 1 and ev[0][1] is d["cfg"] and ev[0][2] is d["meta"])
    else:
        ctx.oblige("post", "no-configuration(None)=>None", result is None)


def clone_setup(ctx):
    self = Rec("Namespace")
    copy = Rec("copy")
    return Setup(env={"self": self}, calls={"recreate_branches": lambda c, a, k: (c.event("recreate", a[0], dict(k)), copy)[1]}, data=dict(self_=self, copy=copy))


def clone_post(ctx, st, result):
    d = st.data
    ev = [e for e in ctx.events if e[0] == "recreate"]
    ctx.oblige("post", "clone-is-recreate_branches(self):an-equal-configuration-whose-branches-are-new-objects,nothing-skipped", result is d["copy"] and len(ev) == 1 and ev[0][1] is d["self_"] and not ev[0][2])


UNITS += [
    Unit("C08", "jsonargparse._namespace:strip_meta", sm_setup, sm_post, no_exc, trusted=["recreate_branches: its own unit"]),
    Unit("C08", "jsonargparse._namespace:Namespace.clone", clone_setup, clone_post, no_exc, trusted=["recreate_branches: its own unit"]),
]

# _check_type never hands the action's own default object to the adaptation as the previous value (which the class-change handling edits in place)
from contracts.check_type import check_type_unit  # noqa: E402
UNITS.append(check_type_unit("C08"))

# the parse methods never hand the caller's namespace / object to a callee that writes into its argument (argparse, _apply_actions)
UNITS += [_dc.replace(u, prop="C08") for u in _C04_UNITS if u.target.endswith(("ArgumentParser.parse_args", "ArgumentParser.parse_object")) and not u.label]

# the dataclass arm does not write into the action it is called for (its sub_add_kwargs hold the declared defaults of the nested fields)
from contracts.adapt_arms import dataclass_unit as _dataclass_unit  # noqa: E402
UNITS.append(_dataclass_unit("C08"))

from contracts.share import carried as _carried  # noqa: E402
UNITS += _carried("C08")

# class specs inside a list / mapping of an Any-typed value are adapted in a copy (an OrderedDict given by the caller is not copied by the parse methods)
from contracts.any_units import adapt_classes_any_unit as _aca_any_unit  # noqa: E402
UNITS.append(_aca_any_unit("C08"))

# every container arm adapts a copy: the list / dict the caller gave (it reaches the arm by reference inside an OrderedDict or a tuple) is not written
from contracts.adapt_arms import arms_units as _c08_arms_units  # noqa: E402
from contracts.share import only_clauses as _only_clauses  # noqa: E402
UNITS += [_only_clauses(u, "C08", kinds=("frame",), label="frame-clauses") for u in _c08_arms_units("C08") if u.label in ("Tuple/Set", "List", "Dict")]  # which value conforms is C02's clause (and its findings)
