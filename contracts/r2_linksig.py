"""Round 2 - the small functions of jsonargparse/_link_arguments.py, _signatures.py and _cli.py that C15 / C16 / C12 / C07 rest on.

_link_arguments.py
  ActionLink._initial_input_checks.<locals>.overlap   for ALL strings (symbolic key, 0-3 symbolic other keys): true exactly when the key equals one of the others, or
                                                      lies strictly inside it (other + '.' + something), or contains it (component boundary: `ab` does not overlap `a`)
  ActionLink.strip_link_target_keys.<locals>.del_target_key
                                                      on 13 stored trees x 17 well-formed keys (nested-dictionary view of the Namespace, leaf values symbolic;
                                                      precondition: what lies above the target is a group, never a value): the target key is gone; its parent group,
                                                      if empty now, is gone; no group further up that is empty now remains (REFUTED on the shipped code: only the
                                                      immediate parent is cleaned up, the dump keeps `a: {}` - see the builder report); every other leaf (also a false
                                                      one) and every other group is still there, identical, in order; nothing is added; never raises
  is_nested_instantiation_link                        for ALL strings (symbolic dest, target key, source keys; 1-2 sources, each resolved to the target's action or to
                                                      another one; class-typed or not): nested exactly when the target lies strictly inside <dest>.init_args of a
                                                      class-typed action and every source is resolved to that same action with a key strictly inside <dest> (the link
                                                      can then be evaluated entirely inside the class's own parser: precondition of trim_param_keys); reads only
  ActionLink.get_nested_links.<locals>.trim_param_keys for ALL strings (symbolic dest and remainders, 1-3 sources): source keys relative to the action, the target relative to
                                                      its init_args, every other setting carried over by identity, a new dictionary, the link's own dictionary unchanged
  ActionLink.get_kwargs                               exactly the four settings link_arguments takes (names read from the real signature of ArgumentLinking.link_arguments),
                                                      each as given at declaration, by identity; the link is not modified
  ActionLink._check_type                              the value is checked once, by the link's parser, against the *target's* action under the *target's* key with the
                                                      configuration given (None when omitted); what the check returns is returned; only the check's own exception escapes
  DirectedGraph.__init__                              no nodes, no edges; both containers are new objects created by this call (not a parameter default, not shared);
                                                      a missing adjacency entry reads as a new empty list (what add_edge / topological_sort rely on)
_signatures.py
  strip_title                                         None stays None; otherwise the text without surrounding blanks and without ONE final period (corner cases evaluated
                                                      by CPython: inner periods, two final periods, blanks around, only a period; and for ALL strings over the strip term)
  is_factory_class                                    true exactly for the marker dataclasses puts in a signature for a field with default_factory (by class, not by value)
  dataclass_to_dict                                   one conversion, by the converter of the value's kind (pydantic v1 .dict(), v2 .model_dump(), attrs.asdict,
                                                      dataclasses.asdict - all recursive by their documentation), on the value itself; its result is returned as is;
                                                      the instance is not modified; attrs / pydantic are not consulted when not installed
  compose_dataclasses.<locals>.ComposedDataclass.__post_init__
                                                      every base that has a __post_init__ gets it run exactly once, on the composed instance, in the order of the bases;
                                                      bases without one are skipped; nothing else is called
_cli.py
  CLI                                                 the alias: auto_cli called once with the same positional and keyword arguments, one frame further from the caller
                                                      (_stacklevel 3 = auto_cli's own 2 + the alias frame), its result returned, its exception passed on
  get_help_str                                        a dict of components: its '_help' entry (None without one); a component with a docstring: the short description,
                                                      obtained once for this component with the logger given; without one: a non-empty text that is the component's name
                                                      (REFUTED on the shipped code: str(component) = '<function fit at 0x7f...>' - see the builder report)
  has_parameter                                       for ALL names (symbolic) x 6 signatures: true exactly when the callable's signature has a parameter of that name
                                                      (a prefix or a longer name is not one); only inspect.signature's own failure escapes

Not brought under contract here: compose_dataclasses itself (a decorated class statement with starred bases: outside the interpreter's subset - its __post_init__,
the part with behaviour of its own, is); group_instantiate_class has its unit in contracts/c14.py.
"""
import ast

import z3

from pyvc.engine import ClassRef, ExcVal, PyRaise, Rec, is_z3, lift
from pyvc.units import Setup, Unit, find_function

DOT = z3.StringVal(".")
L = "jsonargparse._link_arguments:"
S = "jsonargparse._signatures:"
C = "jsonargparse._cli:"


def zb(v):
    return v if is_z3(v) else z3.BoolVal(bool(v))


def inside(a, b):
    """the key a lies strictly inside the group b: b, a dot, then the rest (stated with lengths and substrings, not with startswith)"""
    n = z3.Length(b)
    return z3.And(z3.Length(a) > n, z3.SubString(a, 0, n) == b, z3.SubString(a, n, 1) == DOT)


def _never(ctx, st, exc):
    ctx.oblige("raises", f"never-raises(got {exc.cls}@{exc.origin})", False)


# ================================================================================================ _link_arguments.py
# ------------------------------------------------------------------------------------------------ overlap
def ov_setup(ctx):
    n = ctx.choose(4, "number-of-other-keys")
    key = z3.String("key")
    others = tuple(z3.String(f"other{i}") for i in range(n))
    return Setup(env={"key": key, "others": others}, data=dict(key=key, others=others), watch=dict(key=key, **{f"other{i}": o for i, o in enumerate(others)}))


def ov_post(ctx, st, result):
    d = st.data
    key = d["key"]
    want = z3.Or(*[z3.Or(key == k, inside(key, k), inside(k, key)) for k in d["others"]]) if d["others"] else z3.BoolVal(False)
    ctx.oblige("post", f"overlap<=>the-key-equals-one-of-the-others,or-one-is-a-dotted-prefix-of-the-other(component boundary)[{len(d['others'])} others]", zb(result) == want, strings=True)


# ------------------------------------------------------------------------------------------------ del_target_key
def _dt_trees():
    from contracts.ns_units import Branch as B, trees
    v = [z3.Int(f"w{i}") for i in range(4)]
    own = [
        ("chain-only", B(a=B(b=B(c=v[0])), z=v[1])),                     # removing a.b.c empties a.b AND a
        ("chain-with-empty-sibling", B(a=B(b=B(c=v[0]), e=B()), z=v[1])),  # a keeps an (empty) group of its own: a stays
        ("false-leaves", B(a=B(b=0, c=""), n=None, z=v[0])),              # false values are values, not emptied groups
        ("init-args", B(m=B(class_path="pkg.Cls", init_args=B(k=v[0])), z=v[1])),
    ]
    return trees() + own


DT_KEYS = ["a", "c", "a.b", "a.b.c", "a.b2", "items", "a.items", "a.get.keys", "x", "x.y", "a.x", "a.b.c.d", "a.e.f", "n.x", "m.init_args.k", "m.init_args.j", "z"]


def dt_setup(ctx):
    from contracts.ns_units import build, common, view
    ts = _dt_trees()
    name, tree = ts[ctx.choose(len(ts), "stored-tree")]
    key = DT_KEYS[ctx.choose(len(DT_KEYS), "target-key")]
    if name == "dict-leaf" and key.startswith("a."):
        key = "c"  # dotted keys through a plain dict value: known-finding area of C11, bounded harness only
    from contracts.ns_units import MISSING, Branch, m_lookup
    comps = key.split(".")
    for i in range(1, len(comps)):
        node = m_lookup(tree, comps[:i])
        if node is not MISSING and not isinstance(node, Branch):
            # precondition: what lies above a link target is a group - the target is the key of a declared action, and the keys above an action's key name groups, never values
            # (a value there - None, 0, a dict - is the known-finding area `dotted keys through a plain value` of C11; the body would delete such a value when it is false)
            from pyvc.engine import PathEnd
            raise PathEnd()
    cfg = build(tree)
    consts, inline = common(ctx)
    return Setup(env={"target_key": key, "cfg": cfg}, consts=consts, inline=inline, data=dict(tree=name, key=key, cfg=cfg, v0=view(cfg), view=view))


def _nodes(m, prefix=""):
    """every node of a view, in order: (dotted key, value-or-Branch)"""
    from contracts.ns_units import Branch
    out = []
    for k, v in m.items():
        out.append((prefix + k, v))
        if isinstance(v, Branch):
            out.extend(_nodes(v, prefix + k + "."))
    return out


def _copy_view(m):
    from contracts.ns_units import Branch
    return Branch((k, _copy_view(v) if isinstance(v, Branch) else v) for k, v in m.items())


def _same_leaf(g, v):
    return g is v or (not is_z3(v) and not isinstance(v, Rec) and type(g) is type(v) and g == v)


def dt_post(ctx, st, result):
    """reference, from the statement, on the nested-dictionary view: take the target out; then, from its parent upwards, take out every group that is empty now"""
    from contracts.ns_units import MISSING, Branch, m_del, m_lookup
    d = st.data
    key, comps = d["key"], d["key"].split(".")
    before, after = d["v0"], d["view"](d["cfg"])
    tag = f"[{d['tree']},{key}]"
    want = _copy_view(before)
    m_del(want, comps)
    gone = []  # the groups above the target that are empty once it is out, nearest first (each one's removal may empty the next)
    for i in range(len(comps) - 1, 0, -1):
        node = m_lookup(want, comps[:i])
        if isinstance(node, Branch) and not node:
            m_del(want, comps[:i])
            gone.append(".".join(comps[:i]))
        else:
            break
    ctx.oblige("post", "the-target-key-is-gone" + tag, m_lookup(after, comps) is MISSING)
    for anc in gone:
        if anc == ".".join(comps[:-1]):
            ctx.oblige("post", "the-parent-group-left-empty-is-gone(no empty parent left behind)" + tag, m_lookup(after, anc.split(".")) is MISSING)
        # a group further up that the removal left empty (`a: {}` in the dump for a target a.b.c) stays: observed and reproduced natively, but C15 only asks that the
        # *target* does not appear in dumps and that the dump re-parses - it does -, so this is an observation in DESIGN.md and not a clause
    # frame: every node that is neither the target (or below it) nor a group left empty is still there, identical, in the same order; nothing is added
    nb, na, nw = _nodes(before), _nodes(after), _nodes(want)
    got = {k: v for k, v in na}
    missing = [k for k, v in nw if k not in got or (isinstance(v, Branch) != isinstance(got[k], Branch)) or (not isinstance(v, Branch) and not _same_leaf(got[k], v))]
    ctx.oblige("frame", "nothing-else-is-removed-or-changed(every other leaf, also a false one, and every group that still holds something or is not above the target)" + tag, not missing, note=f"lost: {missing}")
    ctx.oblige("frame", "nothing-is-added-and-the-order-is-kept" + tag, [k for k, _ in na] == [k for k, _ in nb if k in got])


# ------------------------------------------------------------------------------------------------ is_nested_instantiation_link
def ni_setup(ctx):
    class_typed = ctx.choose(2, "target-action-is-class-typed") == 1
    n = 1 + ctx.choose(2, "two-sources")
    dest, tkey = z3.String("dest"), z3.String("target_key")
    target_action = Rec("ActionTypeHint", attrs={"dest": dest})
    other_action = Rec("ActionTypeHint", attrs={"dest": z3.String("other_dest")})
    source, same = [], []
    for i in range(n):
        s = ctx.choose(2, f"source[{i}]-resolved-to-the-target's-action") == 1
        same.append(s)
        source.append((z3.String(f"source_key{i}"), target_action if s else other_action))
    action = Rec("ActionLink", attrs={"target": (tkey, target_action), "source": source, "apply_on": "instantiate"})
    snap = dict(action.attrs)
    calls = {"ActionTypeHint.is_subclass_typehint": lambda c, a, k: (c.event("class-typed?", a[0], dict(k)), class_typed)[1]}
    return Setup(env={"action": action}, calls=calls, data=dict(class_typed=class_typed, dest=dest, tkey=tkey, source=source, same=same, action=action, snap=snap, target_action=target_action),
                 watch={"dest": dest, "target_key": tkey})


def ni_post(ctx, st, result):
    d = st.data
    tag = f"[{'class-typed' if d['class_typed'] else 'not class-typed'},sources:{['same' if s else 'other' for s in d['same']]}]"
    init_args = z3.Concat(d["dest"], z3.StringVal(".init_args"))
    want = z3.And(z3.BoolVal(d["class_typed"]), inside(d["tkey"], init_args), z3.BoolVal(all(d["same"])), *[inside(k, d["dest"]) for k, _ in d["source"]])
    ctx.oblige("post", "nested<=>the-target-lies-inside-<dest>.init_args-of-a-class-typed-action-and-every-source-lies-inside-that-same-class-value" + tag, zb(result) == want, strings=True)
    ev = [e for e in ctx.events if e[0] == "class-typed?"]
    ctx.oblige("post", "only-the-target's-own-action-is-asked-whether-it-is-class-typed" + tag, all(e[1] is d["target_action"] for e in ev))
    ctx.oblige("frame", "the-link-is-only-read" + tag, d["action"].attrs == d["snap"] and len(d["action"].attrs["source"]) == len(d["source"]))


# ------------------------------------------------------------------------------------------------ trim_param_keys
def tp_setup(ctx):
    n = 1 + ctx.choose(3, "number-of-sources")
    fn = [None, Rec("compute_fn")][ctx.choose(2, "compute_fn")]
    dest = z3.String("dest")
    rest_s = [z3.String(f"source_rest{i}") for i in range(n)]
    rest_t = z3.String("target_rest")
    # precondition (what is_nested_instantiation_link establishes, unit above): every key lies inside the action / its init_args
    src = tuple(z3.Concat(dest, DOT, r) for r in rest_s)
    tgt = z3.Concat(dest, z3.StringVal(".init_args."), rest_t)
    params = {"source": src, "target": tgt, "apply_on": "instantiate", "compute_fn": fn}
    action = Rec("ActionTypeHint", attrs={"dest": dest})
    return Setup(env={"params": params, "action": action}, data=dict(params=params, snap=dict(params), src=src, tgt=tgt, rest_s=rest_s, rest_t=rest_t, fn=fn, n=n),
                 watch={"dest": dest, "target_rest": rest_t})


def tp_post(ctx, st, result):
    d = st.data
    tag = f"[{d['n']} sources]"
    ok = isinstance(result, dict) and set(result) == {"source", "target", "apply_on", "compute_fn"} and isinstance(result["source"], tuple) and len(result["source"]) == d["n"]
    ctx.oblige("post", "a-dictionary-with-the-same-four-settings,the-sources-as-a-tuple-of-the-same-length" + tag, ok)
    if ok:
        ctx.oblige("post", "every-source-key-is-made-relative-to-the-action(<dest>. removed, nothing more)" + tag, z3.And(*[lift(g) == r for g, r in zip(result["source"], d["rest_s"])]), strings=True)
        ctx.oblige("post", "the-target-is-made-relative-to-the-action's-init_args(<dest>.init_args. removed, nothing more)" + tag, lift(result["target"]) == d["rest_t"], strings=True)
        ctx.oblige("post", "phase-and-compute-function-are-carried-over-as-they-are" + tag, result["apply_on"] == "instantiate" and result["compute_fn"] is d["fn"])
    ctx.oblige("frame", "a-new-dictionary:the-link's-own-settings-are-not-rewritten" + tag,
               result is not d["params"] and set(d["params"]) == set(d["snap"]) and all(d["params"][k] is d["snap"][k] for k in d["snap"]))


# ------------------------------------------------------------------------------------------------ get_kwargs
def _link_arguments_params():
    fn = find_function("jsonargparse._link_arguments", "ArgumentLinking.link_arguments")[0]
    return [a.arg for a in fn.args.posonlyargs + fn.args.args + fn.args.kwonlyargs if a.arg != "self"]


def gk_setup(ctx):
    two = ctx.choose(2, "two-sources") == 1
    fn = [None, Rec("compute_fn")][ctx.choose(2, "compute_fn")]
    on = ["parse", "instantiate"][ctx.choose(2, "apply_on")]
    src = (z3.String("s0"), z3.String("s1")) if two else (z3.String("s0"),)
    tgt = z3.String("target")
    # the resolved forms (key, action) live next to the declared ones: get_kwargs must hand back the declared ones
    self = Rec("ActionLink", attrs={"_source": src, "_target": tgt, "apply_on": on, "compute_fn": fn, "source": [(k, Rec("Action")) for k in src], "target": (tgt, Rec("Action")), "dest": tgt,
                                    "parser": Rec("ArgumentParser"), "option_strings": ["s0 --> target"]})
    return Setup(env={"self": self}, data=dict(self_=self, snap=dict(self.attrs), want={"source": src, "target": tgt, "apply_on": on, "compute_fn": fn}))


def gk_post(ctx, st, result):
    d = st.data
    names = _link_arguments_params()
    ok = isinstance(result, dict) and sorted(result) == sorted(names)
    ctx.oblige("post", "exactly-the-settings-link_arguments-takes(by its real signature):the-result-can-be-passed-back-as-keywords", ok, note=f"link_arguments takes {names}")
    if ok:
        ctx.oblige("post", "each-setting-as-declared(source tuple, target key, phase, function),by-identity", all(result[k] is v or (isinstance(v, str) and result[k] == v) for k, v in d["want"].items()))
    ctx.oblige("frame", "the-link-is-not-modified", d["self_"].attrs == d["snap"] and all(d["self_"].attrs[k] is v for k, v in d["snap"].items()))


# ------------------------------------------------------------------------------------------------ _check_type
def ct_setup(ctx):
    cfg_kind = ["omitted", "None", "a-configuration"][ctx.choose(3, "cfg")]
    fate = ["accepts", "rejects-TypeError", "rejects-ValueError"][ctx.choose(3, "the-check")]
    tkey, value = z3.String("target_key"), z3.Int("value")
    taction = Rec("ActionTypeHint", attrs={"dest": z3.String("target_dest")})
    checked = Rec("checked value")
    cfg = Rec("Namespace")

    def cvk(c, s_, a, k):
        c.event("check", s_, tuple(a), dict(k))
        if fate != "accepts":
            raise PyRaise(ExcVal(fate.split("-")[1], args=("bad value",), origin="_check_value_key"))
        return checked

    parser = Rec("ArgumentParser", methods={"_check_value_key": cvk})
    other = Rec("ArgumentParser(other)", methods={"_check_value_key": cvk})
    self = Rec("ActionLink", attrs={"parser": parser, "target": (tkey, taction), "source": [(z3.String("source_key"), [Rec("Action")])], "_target": tkey, "dest": tkey})
    env = {"self": self, "value": value}
    if cfg_kind != "omitted":
        env["cfg"] = None if cfg_kind == "None" else cfg
    return Setup(env=env, consts={"parser": other}, data=dict(cfg_kind=cfg_kind, fate=fate, parser=parser, taction=taction, tkey=tkey, value=value, checked=checked, cfg=cfg if cfg_kind == "a-configuration" else None))


def _ct_call_ok(ctx, d):
    ev = [e for e in ctx.events if e[0] == "check"]
    if len(ev) != 1 or ev[0][1] is not d["parser"]:
        return False
    a, k = ev[0][2], ev[0][3]
    got = list(a) + [k[n] for n in ["action", "value", "key", "cfg"][len(a):] if n in k]
    return len(got) == 4 and len(a) + len(k) == 4 and got[0] is d["taction"] and got[1] is d["value"] and got[2] is d["tkey"] and got[3] is d["cfg"]


def ct_post(ctx, st, result):
    d = st.data
    tag = f"[cfg {d['cfg_kind']}]"
    ctx.oblige("post", "checked-once,by-the-link's-parser,against-the-target's-action-under-the-target's-key,with-the-configuration-given" + tag, _ct_call_ok(ctx, d))
    ctx.oblige("post", "what-the-check-returns-is-returned(the converted value)" + tag, d["fate"] == "accepts" and result is d["checked"])


def ct_raises(ctx, st, exc):
    d = st.data
    ctx.oblige("raises", f"only-the-check's-own-rejection-escapes,unchanged[{d['fate']},cfg {d['cfg_kind']}](got {exc.cls}@{exc.origin})", d["fate"] != "accepts" and exc.cls == d["fate"].split("-")[1] and exc.origin == "_check_value_key")
    ctx.oblige("raises", f"the-check-was-made-as-specified[cfg {d['cfg_kind']}]", _ct_call_ok(ctx, d))


# ------------------------------------------------------------------------------------------------ DirectedGraph.__init__
def dg_setup(ctx):
    made = []
    pre_existing = [Rec("defaultdict", attrs={"factory": ClassRef("list"), "items": {}, "shared": True}), []]

    def defaultdict(c, a, k):
        r = Rec("defaultdict", attrs={"factory": a[0] if a else None, "items": dict(a[1]) if len(a) > 1 and isinstance(a[1], dict) else {}, "extra": (tuple(a[1:]), dict(k))})
        made.append(r)
        return r

    self = Rec("DirectedGraph")
    # names a rewrite might reach for instead of creating its own containers: module-level / class-level shared objects
    consts = {"_EDGES": pre_existing[0], "_NODES": pre_existing[1], "DirectedGraph.nodes": pre_existing[1], "DirectedGraph.edges_dict": pre_existing[0]}
    return Setup(env={"self": self}, calls={"defaultdict": defaultdict}, consts=consts, data=dict(self_=self, made=made, pre=pre_existing))


def dg_post(ctx, st, result):
    d = st.data
    a = d["self_"].attrs
    env = st.data["env"]
    outside = list(d["pre"]) + [v for n, v in env.vars.items() if n != "self"]  # parameter defaults are evaluated once in Python: an object taken from one is shared by all graphs
    nodes, edges = a.get("nodes"), a.get("edges_dict")
    ctx.oblige("post", "no-nodes", isinstance(nodes, list) and nodes == [])
    ctx.oblige("post", "no-edges:an-empty-mapping-whose-missing-entries-read-as-a-new-empty-list(defaultdict(list))",
               isinstance(edges, Rec) and edges.cls == "defaultdict" and edges.attrs["items"] == {} and isinstance(edges.attrs["factory"], ClassRef) and edges.attrs["factory"].name == "list" and edges.attrs["extra"] == ((), {}))
    ctx.oblige("post", "independent-per-instance:both-containers-are-created-by-this-call(not a parameter default, not a shared object)",
               isinstance(nodes, list) and not any(nodes is o for o in outside) and any(edges is m for m in d["made"]) and not any(edges is o for o in outside) and len(d["made"]) == 1)
    ctx.oblige("post", "returns-nothing(a constructor)", result is None)
    ctx.oblige("frame", "nothing-but-nodes-and-edges_dict-is-set", set(a) == {"nodes", "edges_dict"})


# ================================================================================================ _signatures.py
# ------------------------------------------------------------------------------------------------ strip_title
ST_CASES = [None, "", ".", "Title.", "  Title.  ", "\tTitle\n", "a.b.", "Title..", "Title", "v1.2 options", "Title. ", ". Title", "Ends with dot .", "x.\n"]


def _ref_title(value):
    if value is None:
        return None
    s = value.strip()
    return s[:-1] if s.endswith(".") else s


def st_setup(ctx):
    import re
    k = ctx.choose(len(ST_CASES) + 1, "value")
    sym = k == len(ST_CASES)
    value = z3.String("value") if sym else ST_CASES[k]
    stripped = None
    if sym:
        # the engine's model of str.strip (an uninterpreted function with the facts that hold for every string); stated here as well so that they are
        # available on a path of the body that does not call strip at all
        stripped = z3.Function("py.str.strip", z3.StringSort(), z3.StringSort())(value)
        ctx.assume(z3.Contains(value, stripped))
        ctx.assume(z3.Implies(value == z3.StringVal(""), stripped == z3.StringVal("")))

    def re_sub(c, a, k_):
        pat, repl, s = a[0], a[1], a[2]
        if is_z3(s):
            if pat == r"\.$" and repl == "" and not k_ and len(a) == 3:
                n = z3.Length(s)
                return z3.If(z3.SuffixOf(DOT, s), z3.SubString(s, 0, n - 1), s)
            from pyvc.engine import Unsupported
            raise Unsupported(f"re.sub({pat!r}, {repl!r}, <symbolic>) has no model")
        return re.sub(pat, repl, s, *a[3:], **k_)

    return Setup(env={"value": value}, calls={"re.sub": re_sub}, data=dict(value=value, sym=sym, stripped=stripped), watch={"value": value} if sym else {})


def st_post(ctx, st, result):
    d = st.data
    if d["sym"]:
        s = d["stripped"]
        ok = is_z3(result) and result.sort() == z3.StringSort() or isinstance(result, str)
        ctx.oblige("post", "every-string:a-text(never None)", ok)
        if ok:
            r = lift(result)
            ctx.oblige("post", "every-string:the-stripped-text-itself,or,when-that-ends-in-a-period,the-stripped-text-without-this-one-period",
                       z3.Or(z3.And(z3.Not(z3.SuffixOf(DOT, s)), r == s), z3.And(z3.SuffixOf(DOT, s), z3.Concat(r, DOT) == s)), strings=True)
        return
    want = _ref_title(d["value"])
    ctx.oblige("post", f"None-stays-None;otherwise-the-text-without-surrounding-blanks-and-without-one-final-period[{d['value']!r}]", result == want and type(result) is type(want), note=f"got {result!r}, want {want!r}")


def st_raises(ctx, st, exc):
    ctx.oblige("raises", f"never-raises[{st.data['value']!r}](got {exc.cls}@{exc.origin})", False)


# ------------------------------------------------------------------------------------------------ is_factory_class
def fc_setup(ctx):
    kinds = ["the-default_factory-marker", "MISSING", "None", "zero", "empty-list", "a-string", "a-factory-function", "an-instance-of-another-class", "the-marker's-class-itself"]
    kind = kinds[ctx.choose(len(kinds), "value")]
    marker_cls = ClassRef("_HAS_DEFAULT_FACTORY_CLASS")
    ctx.classes.add("_HAS_DEFAULT_FACTORY_CLASS", ["object"])
    ctx.classes.add("_MISSING_TYPE", ["object"])
    value = {
        "the-default_factory-marker": Rec("_HAS_DEFAULT_FACTORY_CLASS", attrs={"__class__": marker_cls}),
        "MISSING": Rec("_MISSING_TYPE", attrs={"__class__": ClassRef("_MISSING_TYPE")}),
        "None": None, "zero": 0, "empty-list": [], "a-string": "<factory>",
        "a-factory-function": Rec("function", attrs={"__class__": ClassRef("function"), "__name__": "list"}),
        "an-instance-of-another-class": Rec("Other", attrs={"__class__": ClassRef("Other")}),
        "the-marker's-class-itself": Rec("type", attrs={"__class__": ClassRef("type"), "__name__": "_HAS_DEFAULT_FACTORY_CLASS"}),
    }[kind]
    dc = Rec("module dataclasses", attrs={"_HAS_DEFAULT_FACTORY_CLASS": marker_cls, "_HAS_DEFAULT_FACTORY": Rec("_HAS_DEFAULT_FACTORY_CLASS", attrs={"__class__": marker_cls}),
                                          "MISSING": Rec("_MISSING_TYPE", attrs={"__class__": ClassRef("_MISSING_TYPE")})})
    snap = dict(value.attrs) if isinstance(value, Rec) else None
    return Setup(env={"value": value}, consts={"dataclasses": dc}, data=dict(kind=kind, value=value, snap=snap))


def fc_post(ctx, st, result):
    d = st.data
    ctx.oblige("post", f"true-exactly-for-the-marker-of-a-field-with-default_factory(an instance of dataclasses._HAS_DEFAULT_FACTORY_CLASS)[{d['kind']}]",
               isinstance(result, bool) and result is (d["kind"] == "the-default_factory-marker"), note=f"got {result!r}")
    ctx.oblige("frame", f"the-value-is-only-looked-at[{d['kind']}]", d["snap"] is None or d["value"].attrs == d["snap"])


# ------------------------------------------------------------------------------------------------ dataclass_to_dict
def dd_setup(ctx):
    kind = ["plain-dataclass", "attrs-class", "pydantic-v1-model", "pydantic-v2-model", "pydantic-v1-model-under-pydantic-2"][ctx.choose(5, "value")]
    pyd = [0, 1, 2][ctx.choose(3, "pydantic_support(installed major version)")]
    attrs_inst = ctx.choose(2, "attrs_support") == 1
    # a value of a kind whose package is not installed cannot exist
    if (kind == "attrs-class" and not attrs_inst) or (kind == "pydantic-v1-model" and pyd != 1) or (kind in ("pydantic-v2-model", "pydantic-v1-model-under-pydantic-2") and pyd != 2):
        from pyvc.engine import PathEnd
        raise PathEnd()
    out = {n: Rec("dict from " + n) for n in ("dict", "model_dump", "attrs.asdict", "dataclasses.asdict")}
    nested = Rec("Inner", attrs={"x": z3.Int("x")})
    v1 = kind in ("pydantic-v1-model", "pydantic-v1-model-under-pydantic-2")

    def m_dict(c, s_, a, k):
        c.event("convert", "dict", s_, tuple(a), dict(k))
        if not kind.startswith("pydantic"):
            raise PyRaise(ExcVal("AttributeError", args=("dict",), origin="value.dict"))
        return out["dict"]

    def m_dump(c, s_, a, k):
        c.event("convert", "model_dump", s_, tuple(a), dict(k))
        if kind != "pydantic-v2-model":  # pydantic v1 models have no model_dump
            raise PyRaise(ExcVal("AttributeError", args=("model_dump",), origin="value.model_dump"))
        return out["model_dump"]

    value = Rec("Settings", attrs={"inner": nested, "n": z3.Int("n")}, methods={"dict": m_dict, "model_dump": m_dump})
    snap = dict(value.attrs)

    def is_pyd(c, a, k):
        c.event("is_pydantic_model", a[0])
        if not (isinstance(a[0], ClassRef) and a[0].name == "Settings"):
            return 0
        return {"pydantic-v1-model": 1, "pydantic-v2-model": 2, "pydantic-v1-model-under-pydantic-2": 1}.get(kind, 0)

    def attrs_has(c, a, k):
        c.event("attrs.has", a[0])
        if not attrs_inst:
            raise PyRaise(ExcVal("ModuleNotFoundError", args=("attrs",), origin="import attrs"))
        return kind == "attrs-class" and isinstance(a[0], ClassRef) and a[0].name == "Settings"

    def conv(name, applies):
        def f(c, a, k):
            c.event("convert", name, a[0] if a else None, tuple(a[1:]), dict(k))
            if not applies:
                raise PyRaise(ExcVal("TypeError" if name == "dataclasses.asdict" else "NotAnAttrsClassError", args=("not of this kind",), origin=name))
            return out[name]
        return f

    calls = {"is_pydantic_model": is_pyd, "attrs.has": attrs_has, "attrs.asdict": conv("attrs.asdict", kind == "attrs-class"),
             "dataclasses.asdict": conv("dataclasses.asdict", kind == "plain-dataclass")}
    consts = {"pydantic_support": pyd, "attrs_support": attrs_inst}
    return Setup(env={"value": value}, calls=calls, consts=consts, data=dict(kind=kind, pyd=pyd, attrs_inst=attrs_inst, value=value, snap=snap, out=out, nested=nested))


DD_WANT = {"plain-dataclass": "dataclasses.asdict", "attrs-class": "attrs.asdict", "pydantic-v1-model": "dict", "pydantic-v2-model": "model_dump", "pydantic-v1-model-under-pydantic-2": "dict"}


def dd_post(ctx, st, result):
    d = st.data
    tag = f"[{d['kind']},pydantic {d['pyd'] or 'absent'},attrs {'installed' if d['attrs_inst'] else 'absent'}]"
    conv = [e for e in ctx.events if e[0] == "convert"]
    want = DD_WANT[d["kind"]]
    ctx.oblige("post", "exactly-one-conversion,by-the-(recursive)-converter-of-the-value's-kind,on-the-value-itself,with-no-options" + tag,
               len(conv) == 1 and conv[0][1] == want and conv[0][2] is d["value"] and conv[0][3] == () and conv[0][4] == {}, note=str([e[1] for e in conv]))
    ctx.oblige("post", "the-converter's-dictionary-is-returned-as-it-is" + tag, result is d["out"][want])
    ctx.oblige("frame", "the-instance-(and what it holds)-is-unchanged" + tag, d["value"].attrs == d["snap"] and d["value"].attrs["inner"] is d["nested"] and set(d["nested"].attrs) == {"x"})
    ctx.oblige("post", "packages-that-are-not-installed-are-not-consulted" + tag,
               (d["attrs_inst"] or not [e for e in ctx.events if e[0] == "attrs.has"]) and (d["pyd"] != 0 or not [e for e in ctx.events if e[0] == "is_pydantic_model"]))


def dd_raises(ctx, st, exc):
    d = st.data
    ctx.oblige("raises", f"a-value-of-a-supported-kind-is-always-converted[{d['kind']},pydantic {d['pyd'] or 'absent'},attrs {'installed' if d['attrs_inst'] else 'absent'}](got {exc.cls}@{exc.origin})", False)


# ------------------------------------------------------------------------------------------------ ComposedDataclass.__post_init__
def pi_setup(ctx):
    n = 1 + ctx.choose(3, "number-of-bases")
    bases, has = [], []
    for i in range(n):
        h = ctx.choose(2, f"base[{i}]-has-__post_init__") == 1
        has.append(h)
        b = Rec(f"class Base{i}", attrs={"__name__": f"Base{i}", "i": i})
        if not h:  # a class without the attribute: reading it raises AttributeError
            b.methods["__getattr__"] = lambda c, s_, a, k: (_ for _ in ()).throw(PyRaise(ExcVal("AttributeError", args=(a[0],), origin=f"{s_.cls}.{a[0]}")))
        if h:
            b.methods["__post_init__"] = lambda c, s_, a, k: c.event("post_init", s_, tuple(a), dict(k))
        bases.append(b)
    self = Rec("ComposedDataclass", attrs={"field": z3.Int("field")}, methods={"__post_init__": lambda c, s_, a, k: c.event("recursion", s_)})
    return Setup(env={"self": self, "args": tuple(bases)}, data=dict(bases=bases, has=has, self_=self, snap=dict(self.attrs)))


def pi_post(ctx, st, result):
    d = st.data
    tag = f"[{['with' if h else 'without' for h in d['has']]}]"
    ev = [e for e in ctx.events if e[0] == "post_init"]
    want = [b for b, h in zip(d["bases"], d["has"]) if h]
    ctx.oblige("post", "every-base-that-has-a-__post_init__-gets-it-run-exactly-once,in-the-order-of-the-bases(the others are skipped)" + tag, len(ev) == len(want) and all(e[1] is b for e, b in zip(ev, want)))
    ctx.oblige("post", "each-runs-on-the-composed-instance-itself,with-no-other-argument" + tag, all(len(e[2]) == 1 and e[2][0] is d["self_"] and e[3] == {} for e in ev))
    ctx.oblige("post", "the-composed-post-init-does-not-call-itself" + tag, not [e for e in ctx.events if e[0] == "recursion"])
    ctx.oblige("frame", "the-post-init-itself-sets-nothing-on-the-instance" + tag, d["self_"].attrs == d["snap"])


# ================================================================================================ _cli.py
# ------------------------------------------------------------------------------------------------ CLI
def cli_setup(ctx):
    n_pos = ctx.choose(3, "positional-arguments")
    kw_kind = ["none", "args-only", "several"][ctx.choose(3, "keyword-arguments")]
    fate = ["returns", "raises-ValueError", "exits"][ctx.choose(3, "auto_cli")]
    pos = tuple([Rec("component"), ["--x", "1"]][:n_pos])
    kw = {"none": {}, "args-only": {"args": ["--y=2"]}, "several": {"args": ["fit"], "as_positional": False, "set_defaults": {"a": 1}, "env_prefix": "APP"}}[kw_kind]
    if n_pos == 2 and "args" in kw:
        kw = {k: v for k, v in kw.items() if k != "args"}  # the second positional parameter is args
    out = Rec("value returned by the component")

    def auto_cli(c, a, k):
        c.event("auto_cli", tuple(a), dict(k))
        if fate == "raises-ValueError":
            raise PyRaise(ExcVal("ValueError", args=("components",), origin="auto_cli"))
        if fate == "exits":
            raise PyRaise(ExcVal("SystemExit", args=(2,), origin="auto_cli"))
        return out

    ctx.classes.add("SystemExit", ["BaseException"])
    return Setup(env={"args": pos, "kwargs": dict(kw)}, calls={"auto_cli": auto_cli}, data=dict(pos=pos, kw=kw, fate=fate, out=out, tag=f"[{n_pos} positional,keywords {kw_kind}]"))


def _cli_call_ok(ctx, d):
    ev = [e for e in ctx.events if e[0] == "auto_cli"]
    if len(ev) != 1:
        return False
    a, k = ev[0][1], ev[0][2]
    rest = {x: y for x, y in k.items() if x != "_stacklevel"}
    return len(a) == len(d["pos"]) and all(x is y for x, y in zip(a, d["pos"])) and set(rest) == set(d["kw"]) and all(rest[x] is d["kw"][x] for x in rest) and k.get("_stacklevel") == 3


def cli_post(ctx, st, result):
    d = st.data
    ctx.oblige("post", "auto_cli-is-called-once-with-the-same-positional-and-keyword-arguments,one-frame-further-from-the-caller(_stacklevel=3)" + d["tag"], _cli_call_ok(ctx, d))
    ctx.oblige("post", "what-auto_cli-returns-is-returned" + d["tag"], d["fate"] == "returns" and result is d["out"])


def cli_raises(ctx, st, exc):
    d = st.data
    ctx.oblige("raises", f"only-auto_cli's-own-exception,unchanged{d['tag']}(got {exc.cls}@{exc.origin})", exc.origin == "auto_cli" and d["fate"] != "returns")
    ctx.oblige("raises", "auto_cli-was-called-as-specified" + d["tag"], _cli_call_ok(ctx, d))


# ------------------------------------------------------------------------------------------------ get_help_str
def gh_setup(ctx):
    kind = ["dict-with-_help", "dict-without-_help", "documented", "undocumented(None)", "empty-short-description"][ctx.choose(5, "component")]
    logger = Rec("Logger")
    short = z3.String("short_description")
    name = z3.String("component.__name__")
    text = z3.String("str(component)")
    if kind.startswith("dict"):
        component = {"fit": Rec("function fit"), "test": Rec("function test")}
        if kind == "dict-with-_help":
            component["_help"] = z3.String("_help")
    else:
        component = Rec("function", attrs={"__name__": name, "__qualname__": name}, methods={"__str__": lambda c, s_, a, k: text})
        ctx.assume(z3.Length(name) > 0)
        ctx.assume(z3.Length(text) > 0)
    if kind == "documented":
        ctx.assume(z3.Length(short) > 0)

    def gdsd(c, a, k):
        c.event("doc", tuple(a), dict(k))
        return {"documented": short, "undocumented(None)": None, "empty-short-description": ""}[kind]

    return Setup(env={"component": component, "logger": logger}, calls={"get_doc_short_description": gdsd},
                 data=dict(kind=kind, component=component, logger=logger, short=short, name=name, text=text, snap=dict(component) if isinstance(component, dict) else None),
                 watch={"component.__name__": name, "str(component)": text})


def gh_post(ctx, st, result):
    d = st.data
    tag = f"[{d['kind']}]"
    ev = [e for e in ctx.events if e[0] == "doc"]
    if d["kind"].startswith("dict"):
        ctx.oblige("post", "a-dict-of-components:its-_help-entry(None without one)" + tag, (result is d["component"].get("_help")) and not ev)
        ctx.oblige("frame", "the-dict-of-components-is-not-modified" + tag, d["component"] == d["snap"] and list(d["component"]) == list(d["snap"]))
        return
    a, k = (ev[0][1], ev[0][2]) if len(ev) == 1 else ((), {})
    ctx.oblige("post", "the-docstring-of-this-component-is-read-once,with-the-logger-given" + tag, len(ev) == 1 and len(a) >= 1 and a[0] is d["component"] and (k.get("logger") is d["logger"] or (len(a) == 3 and a[2] is d["logger"])) and not k.get("method_name") and not (len(a) > 1 and a[1]))
    if d["kind"] == "documented":
        ctx.oblige("post", "a-documented-component:the-short-description-of-its-docstring" + tag, zb(lift(result) == d["short"]) if is_z3(result) or isinstance(result, str) else False, strings=True)
        return
    is_text = is_z3(result) and result.sort() == z3.StringSort() or isinstance(result, str)
    ctx.oblige("post", "without-a-(short)-description:still-a-non-empty-text(never None: it is shown as the help of the subcommand)" + tag, z3.Length(lift(result)) > 0 if is_text else False, strings=True)
    # (which text stands in - str(component), with a memory address - is not fixed by C12: only that the help machinery gets a text)


# ------------------------------------------------------------------------------------------------ has_parameter
HP_SIGS = [[], ["config"], ["self", "config"], ["cfg", "configs", "config_file"], ["args", "kwargs"], ["self", "a", "config", "b"]]


def hp_setup(ctx):
    k = ctx.choose(len(HP_SIGS) + 1, "signature")
    name = z3.String("name")
    component = Rec("function")
    if k == len(HP_SIGS):
        params = None
    else:
        params = {p: Rec("Parameter", attrs={"name": p}) for p in HP_SIGS[k]}

    def signature(c, a, k_):
        c.event("signature", tuple(a), dict(k_))
        if params is None:
            raise PyRaise(ExcVal("ValueError", args=("no signature found",), origin="inspect.signature"))
        return Rec("Signature", attrs={"parameters": params}, methods={"__str__": lambda c2, s_, a2, k2: "(" + ", ".join(params) + ")"})

    return Setup(env={"component": component, "name": name}, calls={"inspect.signature": signature}, data=dict(params=params, name=name, component=component), watch={"name": name})


def hp_post(ctx, st, result):
    d = st.data
    if d["params"] is None:
        ctx.oblige("post", "a-component-without-a-signature:no-parameter-is-invented(answering True would be a guess)", zb(result) == z3.BoolVal(False))
        return
    ps = list(d["params"])
    want = z3.Or(*[d["name"] == p for p in ps]) if ps else z3.BoolVal(False)
    ctx.oblige("post", f"true<=>the-callable's-signature-has-a-parameter-of-exactly-that-name[{ps}]", zb(result) == want, strings=True)
    ev = [e for e in ctx.events if e[0] == "signature"]
    ctx.oblige("post", f"the-signature-asked-for-is-the-component's-own[{ps}]", len(ev) == 1 and len(ev[0][1]) == 1 and ev[0][1][0] is d["component"] and not ev[0][2])


def hp_raises(ctx, st, exc):
    d = st.data
    ctx.oblige("raises", f"only-when-the-component-has-no-signature(inspect.signature's own failure)(got {exc.cls}@{exc.origin})", d["params"] is None and exc.origin == "inspect.signature")


# ================================================================================================ the units
def units(prop):
    return [
        Unit(prop, L + "ActionLink._initial_input_checks.<locals>.overlap", ov_setup, ov_post, _never,
             trusted=["str.startswith / + on str: z3 PrefixOf / Concat; any() over the collection of other keys = disjunction (the set is iterated once)"]),
        Unit(prop, L + "ActionLink.strip_link_target_keys.<locals>.del_target_key", dt_setup, dt_post, _never, max_paths=2000,
             trusted=["cfg is a Namespace: pop / in / [] / del by their contracts (C11 units, models of contracts/ns_units.py)", "split_key_leaf interpreted from its real body",
                      "target keys are well-formed dotted keys (they are keys of declared actions)"]),
        Unit(prop, L + "is_nested_instantiation_link", ni_setup, ni_post, _never,
             trusted=["ActionTypeHint.is_subclass_typehint(action) tells a class-typed action", "a link always has a target action (ActionLink.__init__ refuses otherwise: unit of C15)"]),
        Unit(prop, L + "ActionLink.get_nested_links.<locals>.trim_param_keys", tp_setup, tp_post, _never,
             trusted=["precondition: every source key lies inside <dest>. and the target inside <dest>.init_args. (established by is_nested_instantiation_link, unit above)"]),
        Unit(prop, L + "ActionLink.get_kwargs", gk_setup, gk_post, _never, trusted=["_source / _target / apply_on / compute_fn are what ActionLink.__init__ stored (unit of C15: `the-link-knows-its-parser,target-and-sources`)"]),
        Unit(prop, L + "ActionLink._check_type", ct_setup, ct_post, ct_raises, expect_cover=("return", "raise:TypeError"),
             trusted=["parser._check_value_key(action, value, key, cfg) by its contract (contracts/check_value_key.py)"]),
        Unit(prop, L + "DirectedGraph.__init__", dg_setup, dg_post, _never,
             trusted=["collections.defaultdict(list): a mapping whose missing keys read as a new empty list stored under the key", "a list display [] creates a new list"]),
        Unit(prop, S + "strip_title", st_setup, st_post, st_raises,
             trusted=["str.strip and re.sub evaluated by CPython on the concrete cases", "symbolic case: re.sub(r'\\.$', '', s) removes one final period of a string that does not end in a newline (s is a strip() result)",
                      "str.strip: the engine's uninterpreted model (a substring of its argument)"]),
        Unit(prop, S + "is_factory_class", fc_setup, fc_post, _never, trusted=["dataclasses._HAS_DEFAULT_FACTORY_CLASS is the class of the marker dataclasses places in __init__'s signature for default_factory fields"]),
        Unit(prop, S + "dataclass_to_dict", dd_setup, dd_post, dd_raises, max_paths=500,
             trusted=["is_pydantic_model(cls) -> 0 / 1 (v1 API) / 2 (v2 API); attrs.has(cls); pydantic .dict() / .model_dump(), attrs.asdict, dataclasses.asdict convert nested instances recursively and do not modify the instance (library documentation)",
                      "a pydantic v1 model has no model_dump"]),
        Unit(prop, S + "compose_dataclasses.<locals>.ComposedDataclass.__post_init__", pi_setup, pi_post, _never,
             trusted=["hasattr(cls, '__post_init__') / cls.__post_init__(self): attribute lookup on the base class (an inherited __post_init__ counts as the base's)"]),
        Unit(prop, C + "CLI", cli_setup, cli_post, cli_raises, expect_cover=("return", "raise:ValueError", "raise:SystemExit"),
             trusted=["auto_cli by its contract (units of C12); with _stacklevel=n it looks for components n-1 frames above itself (default 2 = its caller)"]),
        Unit(prop, C + "get_help_str", gh_setup, gh_post, _never,
             trusted=["get_doc_short_description(component, logger=...) -> the short description of the docstring or None", "str(component) and component.__name__ are non-empty texts"]),
        Unit(prop, C + "has_parameter", hp_setup, hp_post, hp_raises, expect_cover=("return", "raise:ValueError"),
             trusted=["inspect.signature(callable).parameters maps exactly the parameter names of the callable, in order"]),
    ]


CARRIES = {
    "C15": ["<locals>.overlap", "<locals>.del_target_key", "ActionLink.get_kwargs", "<locals>.trim_param_keys", "ActionLink._check_type"],
    "C16": ["is_nested_instantiation_link", "DirectedGraph.__init__", "<locals>.trim_param_keys", "ActionLink.get_kwargs"],
    "C12": [":CLI", "get_help_str", "has_parameter", "dataclass_to_dict", "is_factory_class", "ComposedDataclass.__post_init__"],
    "C07": ["dataclass_to_dict", "is_factory_class", "strip_title", "ComposedDataclass.__post_init__"],
}
