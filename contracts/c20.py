"""C20 - restricted and registered scalar types validate exactly, serialise losslessly.

Units (jsonargparse/typing.py, read from /repo on every run):
  restricted_number_type.<locals>.validation_fn   accept-iff for any restriction list, base in {int,float}, join in {and,or}, v: bool|int|float|str
  extend_base_type.<locals>.TypeCore.__new__      validates first, result == base(v), recast is the identity
  restricted_string_type.<locals>.validation_fn   accept-iff regex match
  RegisteredType.deserializer                      wraps exactly the declared exceptions as ValueError
  SecretStr.__str__                                the mask, without reading the secret
Lemmas: languages of the shipped NotEmptyStr / Email patterns (regex -> RegLan).
Floats are IEEE binary64 (z3 FloatingPoint), ints mathematical (as Python's are).
"""
import z3

from pyvc.engine import ClassRef, ExcVal, PyRaise, Rec, SymList, SymZip, Unsupported, lift, is_z3
from pyvc.units import Lemma, Setup, Unit, make_ob

I, B, S = z3.IntSort(), z3.BoolSort(), z3.StringSort()
F64 = z3.Float64()
RNE, RTZ = z3.RNE(), z3.RTZ()
# comparison operators as codes (the list holds operator.gt/ge/lt/le/eq/ne; assumed: they compare as >,>=,<,<=,==,!=)
GT, GE, LT, LE, EQ, NE = range(6)
is_int_str = z3.Function("int(str).ok", S, B)
str2int = z3.Function("int(str)", S, I)
is_float_str = z3.Function("float(str).ok", S, B)
str2float = z3.Function("float(str)", S, F64)
MAXF = 2 ** 1024  # ints with |v| >= 2**1024 (about) cannot be converted to float: OverflowError


def cmp_apply(op, a, b):
    if z3.is_fp(a):
        ops = [z3.fpGT(a, b), z3.fpGEQ(a, b), z3.fpLT(a, b), z3.fpLEQ(a, b), z3.fpEQ(a, b), z3.Not(z3.fpEQ(a, b))]
    else:
        ops = [a > b, a >= b, a < b, a <= b, a == b, a != b]
    e = ops[5]
    for code in (4, 3, 2, 1, 0):
        e = z3.If(op == code, ops[code], e)
    return e


def float_is_integer(v):
    return z3.And(z3.Not(z3.fpIsNaN(v)), z3.Not(z3.fpIsInf(v)), z3.fpRoundToIntegral(RTZ, v) == v)


def fp_of_int(v):
    return z3.fpToFP(RNE, z3.ToReal(v), F64)


def int_of_fp(v):
    return z3.ToInt(z3.fpToReal(v))


KINDS = ["bool", "int", "float", "str"]


def mk_value(kind):
    return {"bool": z3.Bool("v"), "int": z3.Int("v"), "float": z3.FP("v", F64), "str": z3.String("v")}[kind]


def converts(kind, base, v):
    """(does v convert to the base type, the converted value) - spec side."""
    if kind == "bool":
        return z3.BoolVal(False), None
    if base == "int":
        if kind == "int":
            return z3.BoolVal(True), v
        if kind == "float":
            return float_is_integer(v), int_of_fp(v)
        return is_int_str(v), str2int(v)
    if kind == "int":
        return z3.And(v < MAXF, v > -MAXF), fp_of_int(v)
    if kind == "float":
        return z3.BoolVal(True), v
    return is_float_str(v), str2float(v)


def satisfies(join, ops: SymList, refs: SymList, vv):
    j = z3.Int("j!spec")
    rng = z3.And(0 <= j, j < ops.len)
    c = cmp_apply(ops.arr[j], vv, refs.arr[j])
    return z3.ForAll([j], z3.Implies(rng, c)) if join == "and" else z3.Exists([j], z3.And(rng, c))


def accept(kind, base, join, ops, refs, v):
    ok, vv = converts(kind, base, v)
    if vv is None:
        return z3.BoolVal(False)
    return z3.And(ok, satisfies(join, ops, refs, vv))


def cast_model(base, kind):
    """cls._type(v): int(v) / float(v) with their exceptions (assumed contracts of the builtins)."""
    def model(ctx, args, kwargs):
        (v,) = args
        v = lift(v)
        if kind == "bool":
            return z3.If(v, 1, 0) if base == "int" else z3.If(v, z3.FPVal(1.0, F64), z3.FPVal(0.0, F64))
        if base == "int":
            if kind == "int":
                return v
            if kind == "float":
                if ctx.branch(z3.fpIsNaN(v), "int(nan)"):
                    raise PyRaise(ExcVal("ValueError", origin="int(nan)"))
                if ctx.branch(z3.fpIsInf(v), "int(inf)"):
                    raise PyRaise(ExcVal("OverflowError", origin="int(inf)"))
                return int_of_fp(v)
            if not ctx.branch(is_int_str(v), "int(str)-ok"):
                raise PyRaise(ExcVal("ValueError", origin="int(str)"))
            return str2int(v)
        if kind == "int":
            if not ctx.branch(z3.And(v < MAXF, v > -MAXF), "float(int)-in-range"):
                raise PyRaise(ExcVal("OverflowError", origin="float(huge int)"))
            return fp_of_int(v)
        if kind == "float":
            return v
        if not ctx.branch(is_float_str(v), "float(str)-ok"):
            raise PyRaise(ExcVal("ValueError", origin="float(str)"))
        return str2float(v)
    return model


def scenario(ctx):
    sc = ctx.choose(16, "scenario")
    base = ["int", "float"][sc & 1]
    join = ["and", "or"][(sc >> 1) & 1]
    kind = KINDS[sc >> 2]
    return base, join, kind


def restrictions(ctx, base):
    ops = SymList(ctx, "ops", I)
    refs = SymList(ctx, "refs", I if base == "int" else F64, length=ops.len)
    j = z3.Int("j!ops")
    ctx.assume(z3.ForAll([j], z3.Implies(z3.And(0 <= j, j < ops.len), z3.And(0 <= ops.arr[j], ops.arr[j] <= 5)), patterns=[ops.arr[j]]))
    return ops, refs


def symcall(ctx, f, args, kwargs):
    """Calling an element of cls._restrictions: the comparison operator applied to (vv, ref)."""
    if is_z3(f) and f.sort() == I and len(args) == 2:
        return cmp_apply(f, lift(args[0]), lift(args[1]))
    return NotImplemented


# ------------------------------------------------------------------------------------- validation_fn (numbers)
def vf_setup(ctx):
    base, join, kind = scenario(ctx)
    v = mk_value(kind)
    ops, refs = restrictions(ctx, base)
    cls = Rec("RestrictedNumber", attrs={"_type": ClassRef(base), "_restrictions": SymZip([ops, refs]), "_join": join, "_expression": "<expr>"})
    calls = {"cls._type": cast_model(base, kind), "float.is_integer": lambda c, a, k: float_is_integer(a[0])}
    return Setup(env={"cls": cls, "v": v}, calls=calls, symcall=symcall, data={"acc": accept(kind, base, join, ops, refs, v), "kind": kind, "base": base, "join": join},
                 watch={"n_restrictions": ops.len, "v": v, "op0": ops.arr[0], "ref0": refs.arr[0], "op1": ops.arr[1], "ref1": refs.arr[1]})


def vf_post(ctx, st, result):
    d = st.data
    ctx.oblige("post", f"accepted=>converts-and-satisfies[{d['base']},{d['join']},{d['kind']}]", d["acc"])


def vf_raises(ctx, st, exc):
    d = st.data
    if exc.cls == "ValueError":
        ctx.oblige("raises", f"ValueError=>not-accept[{d['base']},{d['join']},{d['kind']}]({exc.origin})", z3.Not(d["acc"]))
    else:
        ctx.oblige("raises", f"only-ValueError[{d['base']},{d['join']},{d['kind']}](got {exc.cls}@{exc.origin})", False)


# ------------------------------------------------------------------------------------- TypeCore.__new__
def new_setup(ctx):
    base, join, kind = scenario(ctx)
    v = mk_value(kind)
    ops, refs = restrictions(ctx, base)
    acc = accept(kind, base, join, ops, refs, v)

    def validation_fn(ctx_, args, kwargs):
        ctx_.event("validate", args[1])
        # precondition of validation_fn(cls, v): first the class, then the value to validate
        ctx_.oblige("pre", "validation_fn-is-given-(the class, the value)", len(args) == 2 and args[0] is cls and args[1] is v)
        if ctx_.choose(2, "validation_fn", [acc, z3.Not(acc)]) == 1:
            raise PyRaise(ExcVal("ValueError", origin="validation_fn"))
        return None

    def super_new(ctx_, args, kwargs):
        ctx_.event("new", args[1])
        return Rec("instance", attrs={"cls": args[0], "value": args[1]})

    cls = Rec("RestrictedNumber", attrs={"_type": ClassRef(base)})
    calls = {"cls._validation_fn": validation_fn, "cls._type": cast_model(base, kind), "super().__new__": super_new}
    return Setup(env={"cls": cls, "v": v}, calls=calls, data={"acc": acc, "kind": kind, "base": base, "join": join, "v": v, "ops": ops, "refs": refs, "cls": cls})


def new_post(ctx, st, result):
    d = st.data
    tag = f"[{d['base']},{d['join']},{d['kind']}]"
    ok, vv = converts(d["kind"], d["base"], d["v"])
    ctx.oblige("post", "accepted=>accept" + tag, d["acc"])
    ctx.oblige("proto", "validated-before-cast" + tag, [e[0] for e in ctx.events] == ["validate", "new"])
    if not (isinstance(result, Rec) and result.cls == "instance" and vv is not None):
        ctx.oblige("post", "result-is-instance" + tag, False)
        return
    ctx.oblige("post", "instance-of-cls" + tag, result.attrs["cls"] is d["cls"])
    val = result.attrs["value"]
    ctx.oblige("post", "value==base(v)" + tag, z3.Or(z3.fpEQ(val, vv), z3.And(z3.fpIsNaN(val), z3.fpIsNaN(vv))) if z3.is_fp(vv) else val == vv)
    # recast: the result, seen as a value of the base kind, is accepted again and converts to itself
    ok2, vv2 = converts(d["base"], d["base"], val)
    ctx.oblige("lemma", "recast-accepted" + tag, accept(d["base"], d["base"], d["join"], d["ops"], d["refs"], val))
    ctx.oblige("lemma", "recast-identity" + tag, (z3.Or(z3.fpEQ(vv2, val), z3.And(z3.fpIsNaN(vv2), z3.fpIsNaN(val))) if z3.is_fp(val) else vv2 == val))


def new_raises(ctx, st, exc):
    d = st.data
    tag = f"[{d['base']},{d['join']},{d['kind']}]"
    if exc.cls == "ValueError":
        ctx.oblige("raises", f"ValueError=>not-accept{tag}({exc.origin})", z3.Not(d["acc"]))
    else:
        ctx.oblige("raises", f"only-ValueError{tag}(got {exc.cls}@{exc.origin})", False)


# ------------------------------------------------------------------------------------- validation_fn (strings)
matches = z3.Function("re.match(cls._regex,.)", S, B)


def sv_setup(ctx):
    v = z3.String("v")
    # the sibling methods of a compiled pattern are other predicates of the text (search: a match anywhere; fullmatch: the whole text): a validator that
    # asks one of them instead of match accepts another language, and is refuted instead of leaving the unit undecided
    regex = Rec("Pattern", attrs={"pattern": "<pattern>"}, methods={"match": lambda c, s_, a, k: matches(lift(a[0])),
                                                                       "search": lambda c, s_, a, k: z3.Function("re.search(cls._regex,.)", S, B)(lift(a[0])),
                                                                       "fullmatch": lambda c, s_, a, k: z3.Function("re.fullmatch(cls._regex,.)", S, B)(lift(a[0]))})
    cls = Rec("RestrictedString", attrs={"_regex": regex})
    return Setup(env={"cls": cls, "v": v}, data={"v": v})


def sv_post(ctx, st, result):
    ctx.oblige("post", "accepted=>matches", matches(st.data["v"]))


def sv_raises(ctx, st, exc):
    if exc.cls == "ValueError":
        ctx.oblige("raises", "ValueError=>no-match", z3.Not(matches(st.data["v"])))
    else:
        ctx.oblige("raises", f"only-ValueError(got {exc.cls})", False)


# ------------------------------------------------------------------------------------- RegisteredType.deserializer
DECLARED = ("ValueError", "TypeError", "AttributeError")
THROWN = ("ValueError", "TypeError", "AttributeError", "KeyError", "UnicodeDecodeError", "ArithmeticError")


def ds_setup(ctx):
    value = z3.String("value")
    out = z3.String("deserialized")

    def base_deserializer(ctx_, s_, args, kwargs):
        ctx_.event("deserialize", args[0])
        which = ctx_.choose(1 + len(THROWN), "base_deserializer")
        if which == 0:
            return out
        raise PyRaise(ExcVal(THROWN[which - 1], origin="base_deserializer"))

    self = Rec("RegisteredType", attrs={"deserializer_exceptions": tuple(ClassRef(c) for c in DECLARED), "type_class": Rec("type", attrs={"__name__": "T"})},
               methods={"base_deserializer": base_deserializer})
    return Setup(env={"self": self, "value": value}, data={"value": value, "out": out})


def ds_post(ctx, st, result):
    ctx.oblige("post", "returns-the-deserializer's-result", is_z3(result) and result.eq(st.data["out"]))
    ctx.oblige("post", "called-once-with-the-value", len(ctx.events) == 1 and ctx.events[0][1] is st.data["value"])


def ds_raises(ctx, st, exc):
    thrown = [d for d in ctx.decisions_txt if d.startswith("base_deserializer=")]
    orig = THROWN[int(thrown[0].split("=")[1]) - 1] if thrown else None
    declared = orig is not None and any(ctx.classes.is_subclass(orig, d) for d in DECLARED)
    if declared:
        ctx.oblige("raises", f"declared-{orig}-becomes-ValueError", exc.cls == "ValueError" and exc.origin != "base_deserializer")
        ctx.oblige("raises", f"declared-{orig}-kept-as-parent", isinstance(getattr(exc, "attrs", {}).get("parent"), ExcVal) and exc.attrs["parent"].cls == orig)
    # what happens to exceptions outside the declared tuple is not constrained by the property


# ------------------------------------------------------------------------------------- SecretStr.__str__
def ss_setup(ctx):
    reads = []

    def getattr_(ctx_, s_, args, kwargs):
        reads.append(args[0])
        return z3.String("secret")

    self = Rec("SecretStr", methods={"__getattr__": getattr_})
    return Setup(env={"self": self}, data={"reads": reads})


def ss_post(ctx, st, result):
    ctx.oblige("post", "str-is-the-mask", result == "**********")


def ss_raises(ctx, st, exc):
    ctx.oblige("raises", "never-raises", False)


# ------------------------------------------------------------------------------------- lemmas on the shipped patterns
def shipped_patterns():
    """Extract the regex literals of NotEmptyStr and Email from the repo source."""
    import ast
    from pyvc.units import load_module
    src, tree, path = load_module("jsonargparse.typing")
    out = {}
    for node in tree.body:
        if isinstance(node, ast.Assign) and isinstance(node.value, ast.Call) and ast.unparse(node.value.func) == "restricted_string_type":
            out[node.targets[0].id] = node.value.args[1].value
    return out


def string_lemmas():
    """Languages of the shipped patterns, stated as regular-language equalities (decided by z3's regex solver)."""
    from pyvc.regex import match_lang, ANYCHAR
    pats = shipped_patterns()
    s = z3.String("s")
    obs = []
    sig = z3.Star(ANYCHAR)
    no = lambda c: z3.Intersect(ANYCHAR, z3.Complement(z3.Re(c)))  # noqa: E731
    one_line = z3.InRe(s, z3.Star(no("\n")))
    if "NotEmptyStr" in pats:
        L = match_lang(pats["NotEmptyStr"])
        some_nonspace = z3.InRe(s, z3.Concat(sig, no(" "), sig))
        obs.append(make_ob("C20/lemma:NotEmptyStr/accepted=>has-a-non-space-character", "lemma", [z3.InRe(s, L)], some_nonspace, watch={"s": s}, pattern=pats["NotEmptyStr"]))
        obs.append(make_ob("C20/lemma:NotEmptyStr/one-line-string-with-a-non-space-character=>accepted", "lemma", [some_nonspace, one_line], z3.InRe(s, L), watch={"s": s}))
    if "Email" in pats:
        L = match_lang(pats["Email"])
        spec = z3.And(
            z3.InRe(s, z3.Concat(z3.Star(no("@")), z3.Re("@"), z3.Star(no("@")))),  # exactly one @
            z3.InRe(s, z3.Star(no(" "))),  # no space
            z3.InRe(s, z3.Concat(z3.Plus(ANYCHAR), z3.Re("@"), z3.Plus(ANYCHAR), z3.Re("."), z3.Plus(ANYCHAR))),  # non-empty local part, a dot inside the domain part
        )
        obs.append(make_ob("C20/lemma:Email/accepted=>one-@,no-space,dot-inside-domain", "lemma", [z3.InRe(s, L)], spec, watch={"s": s}, pattern=pats["Email"]))
        obs.append(make_ob("C20/lemma:Email/one-@,no-space,dot-inside-domain=>accepted", "lemma", [spec], z3.InRe(s, L), watch={"s": s}))
    return obs


# ------------------------------------------------------------------------------------- lemma: the shipped registrations pair inverse functions
# (type, serializer, deserializer) of every module-level register_type / register_type_on_first_use statement of jsonargparse/typing.py, read from the AST on
# every run. "Serialises losslessly" needs deserializer(serializer(v)) == v: each pair must be one whose inverse law is established - by a unit of this property
# (range, bytes, bytearray, timedelta: contracts/r2_regtypes.py), or by the type itself (str(v) is the text its own constructor reads back: pathlib paths, complex,
# UUID, SecretStr; trusted). Decimal through float is lossy: that is the known finding c20-decimal-through-float, reported by the harness; the registration is listed
# here with that note only so that a *change* of it is seen.
LOSSLESS_PAIRS = {
    ("os.PathLike", "str", "str"): "the value is the text itself",
    ("complex", None, None): "register_type defaults: str / the type; complex(str(z)) == z",
    ("'uuid.UUID'", None, None): "register_type defaults: str / the type; UUID(str(u)) == u",
    ("pathlib.Path", "str", "pathlib.Path"): "pathlib: Path(str(p)) == p for every path (str keeps every segment, '..' included)",
    ("pathlib.PosixPath", "str", "pathlib.PosixPath"): "as pathlib.Path",
    ("pathlib.WindowsPath", "str", "pathlib.WindowsPath"): "as pathlib.Path",
    ("'datetime.timedelta'", None, "timedelta_deserializer"): "str(timedelta) read back by timedelta_deserializer (unit of this property)",
    ("'builtins.bytes'", "bytes_serializer", "bytes_deserializer"): "base64 pair (unit of this property)",
    ("'builtins.bytearray'", "bytes_serializer", "bytearray_deserializer"): "base64 pair (unit of this property)",
    ("range", "range_serializer", "range_deserializer"): "inverse pair (unit of this property)",
    ("SecretStr", None, None): "register_type defaults; SecretStr masks on purpose (its own units)",
    ("'pydantic.SecretStr'", None, None): "as SecretStr",
    ("'decimal.Decimal'", "float", None): "KNOWN FINDING c20-decimal-through-float (lossy); listed so that a *change* of this registration is seen",
}


def shipped_registrations():
    import ast
    import os as _os
    from pyvc import REPO
    tree = ast.parse(open(_os.path.join(REPO, "jsonargparse", "typing.py")).read())
    out = []

    def arg(call, pos, name):
        for kw in call.keywords:
            if kw.arg == name:
                return ast.unparse(kw.value)
        return ast.unparse(call.args[pos]) if len(call.args) > pos else None

    def walk(body, subst):
        for st in body:
            if isinstance(st, ast.Expr) and isinstance(st.value, ast.Call) and getattr(st.value.func, "id", "") in ("register_type", "register_type_on_first_use"):
                c = st.value
                for sub in subst or [{}]:
                    t = [sub.get(x, x) if x is not None else None for x in (arg(c, 0, "type_class" if c.func.id == "register_type" else "import_path"), arg(c, 1, "serializer"), arg(c, 2, "deserializer"))]
                    out.append((st.lineno, tuple(t)))
            elif isinstance(st, ast.For) and isinstance(st.target, ast.Name) and isinstance(st.iter, (ast.List, ast.Tuple)):
                walk(st.body, [{st.target.id: ast.unparse(e)} for e in st.iter.elts])
            elif isinstance(st, (ast.If, ast.With, ast.Try)):
                walk(st.body, subst)
    walk(tree.body, None)
    return out


def registration_lemmas():
    regs = shipped_registrations()
    obs = [make_ob("C20/lemma:registrations/the-shipped-registrations-are-found(at least the ten of the pinned tree)", "lemma", [], z3.BoolVal(len(regs) >= 10))]
    for line, triple in regs:
        obs.append(make_ob(f"C20/lemma:registrations/{triple[0]}:serializer-and-deserializer-are-a-pair-whose-inverse-law-is-established(got {triple[1]} / {triple[2]})", "lemma", [],
                           z3.BoolVal(triple in LOSSLESS_PAIRS), line=line))
    for want in LOSSLESS_PAIRS:
        if not want[0].startswith("'pydantic"):
            obs.append(make_ob(f"C20/lemma:registrations/{want[0]}-is-still-registered", "lemma", [], z3.BoolVal(any(t == want for _, t in regs) or any(t[0] == want[0] for _, t in regs))))
    return obs


SIZES = tuple(f"(assert (= ops.len!{k} {n}))" for k in (0,) for n in (0, 1, 2))

UNITS = [
    Unit("C20", "jsonargparse.typing:restricted_number_type.<locals>.validation_fn", vf_setup, vf_post, vf_raises, split=16,
         expect_cover=("return", "raise:ValueError"), replayer="replayers.c20:replay_number", refute_hints=SIZES,
         trusted=["operator.gt/ge/lt/le/eq/ne compare as > >= < <= == != (ints mathematical, floats IEEE binary64)",
                  "int(str)/float(str): uninterpreted partial functions raising ValueError outside their domain; float(int) raises OverflowError for |v| >= 2**1024 and rounds to nearest otherwise; int(float) exact for integral finite floats",
                  "cls._restrictions is a list of (operator, reference of the base type) pairs (established by restricted_number_type's argument checks)"]),
    Unit("C20", "jsonargparse.typing:extend_base_type.<locals>.TypeCore.__new__", new_setup, new_post, new_raises, split=16,
         expect_cover=("return", "raise:ValueError"), refute_hints=SIZES,
         trusted=["super().__new__(cls, x) builds an instance of cls whose base value is x", "cls._validation_fn obeys the contract proved for validation_fn"]),
    Unit("C20", "jsonargparse.typing:restricted_string_type.<locals>.validation_fn", sv_setup, sv_post, sv_raises, expect_cover=("return", "raise:ValueError"),
         trusted=["re.Pattern.match is a deterministic predicate of the string"]),
    Unit("C20", "jsonargparse.typing:RegisteredType.deserializer", ds_setup, ds_post, ds_raises, expect_cover=("return", "raise:ValueError", "raise:KeyError")),
    Unit("C20", "jsonargparse.typing:SecretStr.__str__", ss_setup, ss_post, ss_raises, replayer="replayers.c20:replay_secret"),
]
LEMMAS = [Lemma("C20/lemma:shipped-registrations", registration_lemmas, trusted=["the inverse law of each listed pair: a unit of this property, or the type's own str()/constructor pair (pathlib, complex, UUID)"]),
          Lemma("C20/lemma:shipped-string-patterns", string_lemmas, replayer="replayers.c20:replay_pattern", trusted=["regex -> RegLan translation of pyvc/regex.py (cross-checked against re.match on samples)"])]

VERIFIED_CALLEES = ("cls._validation_fn",)
LEVEL = "other"
TECHNIQUE = "contract-based deductive verification (VCs from the real AST, z3/cvc5; IEEE floats, mathematical ints) + bounded run-time contract checking"
LEVEL_TEXT = 'Proved for restriction lists of any length, int (mathematical) and float (IEEE binary64) base, and/or, v: bool|int|float|str: validation_fn accepts exactly when v converts to the base type and the joined comparisons hold, raising only ValueError (this refuted the shipped code: OverflowError for huge ints; fixed); TypeCore.__new__ validates first, yields base(v), recast is the identity; string types accept iff the pattern matches, with the languages of NotEmptyStr / Email characterised; registered-type deserializer wraps the declared exceptions as ValueError; SecretStr prints the mask. Bounded only: round trips of the built-in registered types through serializer, argv and config files.'
LEVEL_NOTE = "under construction"
EXPLANATION = "under construction"
ASSUMPTIONS = []
TRUSTED = []
BOUNDED = [{"name": "restricted-and-registered-types", "script": "bounded/b20_scalar_types.py"}]


# ------------------------------------------------------------------------------------------------ the registry: register_type / get_registered_type / is_value_of_type
def rt_setup(ctx):
    state = ["not-registered", "registered-same", "registered-different"][ctx.choose(3, "registry")]
    fail_flag = ["omitted", "True", "False"][ctx.choose(3, "fail_already_registered")]
    key = [None, ("name", "pattern")][ctx.choose(2, "uniqueness_key")]
    module_flag = [None, False][ctx.choose(2, "module-level-_fail_already_registered")]
    T, ser, de = Rec("the type"), Rec("serializer"), Rec("deserializer")
    old_same = Rec("RegisteredType", attrs={"type_class": T, "serializer": ser, "base_deserializer": de})
    old_diff = Rec("RegisteredType", attrs={"type_class": T, "serializer": Rec("other serializer"), "base_deserializer": de})
    handlers = {} if state == "not-registered" else {T: old_same if state == "registered-same" else old_diff}
    types = {}
    made = []

    def new_handler(c, a, k):
        r = Rec("RegisteredType", attrs={"type_class": a[0], "serializer": a[1], "base_deserializer": a[2] if a[2] is not None else a[0], "deserializer_exceptions": a[3], "type_check": a[4]})
        r.methods["__eq__"] = lambda c2, s2, a2, k2: all(s2.attrs[x] is a2[0].attrs[x] for x in ("type_class", "serializer", "base_deserializer"))
        made.append(r)
        return r

    calls = {"RegisteredType": new_handler, "get_registered_type": lambda c, a, k: handlers.get(a[0]), "globals": lambda c, a, k: ({"_fail_already_registered": module_flag} if module_flag is not None else {})}
    env = {"type_class": T, "serializer": ser, "deserializer": de, "uniqueness_key": key, "deserializer_exceptions": (), "type_check": Rec("type_check")}
    exc_given = ctx.choose(2, "deserializer_exceptions-given") == 1
    if not exc_given:
        del env["deserializer_exceptions"]  # the default written in the signature applies (bound by the engine from the real source)
    if fail_flag != "omitted":
        env["fail_already_registered"] = fail_flag == "True"
    return Setup(env=env, calls=calls, consts={"registered_type_handlers": handlers, "registered_types": types},
                 data=dict(exc_given=exc_given, state=state, fail=(fail_flag != "False") if module_flag is None else module_flag, key=key, T=T, handlers=handlers, types=types, made=made, old=handlers.get(T), ser=ser, de=de))


def rt_post(ctx, st, result):
    d = st.data
    tag = f"[{d['state']},fail_already_registered={d['fail']},key={'given' if d['key'] else None}]"
    h = d["handlers"].get(d["T"])
    conflict = d["state"] == "registered-different" and d["fail"] and not d["key"]
    ctx.oblige("post", "a-type-already-registered-with-another-serializer/deserializer-is-not-silently-re-registered(when failing is asked for)" + tag, not conflict)
    if d["state"] == "registered-same" and d["fail"] and not d["key"]:
        ctx.oblige("post", "registering-the-same-handlers-again-changes-nothing" + tag, h is d["old"])
    else:
        ctx.oblige("post", "afterwards-the-type-is-handled-by-exactly-the-given-serializer-and-deserializer" + tag,
                   h is not None and h is d["made"][0] and h.attrs["serializer"] is d["ser"] and h.attrs["base_deserializer"] is d["de"])
    ctx.oblige("post", "a-uniqueness-key-is-recorded-iff-given" + tag, d["types"] == ({d["key"]: d["T"]} if d["key"] else {}))
    if d["made"] and not d["exc_given"]:
        # a deserializer written for text fails on a non-text value (a number from a config) with AttributeError (value.strip()) or TypeError as often as with
        # ValueError: all three are announced when the caller names none, so that RegisteredType.deserializer reports them as a value the type does not accept
        names = {getattr(x, "name", getattr(x, "__name__", None)) for x in (d["made"][0].attrs.get("deserializer_exceptions") or ())}
        ctx.oblige("post", "without-named-exceptions-the-deserializer's-ValueError,TypeError-and-AttributeError-are-announced(a text-only deserializer given a number)" + tag, {"ValueError", "TypeError", "AttributeError"} <= names)


def rt_raises(ctx, st, exc):
    d = st.data
    ctx.oblige("raises", f"ValueError-exactly-for-a-conflicting-re-registration(got {exc.cls})", exc.cls == "ValueError" and d["state"] == "registered-different" and d["fail"] and not d["key"] and d["handlers"].get(d["T"]) is d["old"])


def grt_setup(ctx):
    state = ["registered", "pending-on-first-use", "unknown", "no-import-path"][ctx.choose(4, "type")]
    T = Rec("the type")
    handler = Rec("RegisteredType")
    handlers = {T: handler} if state == "registered" else {}
    pending = {}
    if state == "pending-on-first-use":
        from pyvc.engine import Fn
        pending["pkg.T"] = Fn(lambda c, a, k: (c.event("registered-now"), handlers.__setitem__(T, handler))[1], "pending registration")

    def get_import_path(c, a, k):
        if state == "no-import-path":
            raise PyRaise(ExcVal("ValueError", origin="get_import_path"))
        return "pkg.T"

    from contracts.adapt_arms import suppress_cm
    from pyvc.engine import ClassRef
    return Setup(env={"type_class": T}, calls={"get_import_path": get_import_path}, consts={"registered_type_handlers": handlers, "registration_pending": pending, "AttributeError": ClassRef("AttributeError"), "ValueError": ClassRef("ValueError")},
                 cms={"suppress": suppress_cm()}, data=dict(state=state, handler=handler, pending=pending))


def grt_post(ctx, st, result):
    d = st.data
    want = d["handler"] if d["state"] in ("registered", "pending-on-first-use") else None
    ctx.oblige("post", f"the-handler-of-the-type(a registration pending on first use is performed now,once),else-None[{d['state']}]", result is want and not d["pending"]
               and len([e for e in ctx.events if e[0] == "registered-now"]) == (1 if d["state"] == "pending-on-first-use" else 0))


def ivt_setup(ctx):
    from pyvc.engine import Fn
    T, v = Rec("the type"), Rec("value")
    answer = z3.Bool("type_check(value, type)")
    self = Rec("RegisteredType", attrs={"type_class": T, "type_check": Fn(lambda c, a, k: (c.event("type_check", a[0], a[1]), answer)[1], "type_check")})
    return Setup(env={"self": self, "value": v}, data=dict(T=T, v=v, answer=answer))


def ivt_post(ctx, st, result):
    d = st.data
    ev = [e for e in ctx.events if e[0] == "type_check"]
    ctx.oblige("post", "a-value-is-of-the-type-iff-the-registered-type_check-says-so-for-(value, type)", result is d["answer"] and len(ev) == 1 and ev[0][1] is d["v"] and ev[0][2] is d["T"])


def no_exc20(ctx, st, exc):
    ctx.oblige("raises", f"no-own-exception(got {exc.cls}@{exc.origin})", False)


UNITS += [
    Unit("C20", "jsonargparse.typing:register_type", rt_setup, rt_post, rt_raises, expect_cover=("return", "raise:ValueError"), trusted=["RegisteredType.__eq__ compares type, serializer and deserializer"]),
    Unit("C20", "jsonargparse.typing:get_registered_type", grt_setup, grt_post, no_exc20, trusted=["get_import_path: its own unit (C14)"]),
    Unit("C20", "jsonargparse.typing:RegisteredType.is_value_of_type", ivt_setup, ivt_post, no_exc20),
]


# ------------------------------------------------------------------------------------------------ extend_base_type / restricted_number_type (the factories)
# extend_base_type: a key that is already registered gives back the registered class (same name) or is refused (another name) - a second
# call never creates a second class for the same restriction; otherwise a new class `name` is created whose first base carries the
# validation function, the base type and the extra attributes, with the base type as second base, and it is registered under the key.
def ebt_setup(ctx):
    reg = ["not-registered", "registered-same-name", "registered-other-name", "no-key"][ctx.choose(4, "register_key")]
    extra = ctx.choose(2, "extra_attrs-given") == 1
    key = None if reg == "no-key" else ("key",)
    existing = Rec("registered class", attrs={"__name__": "Positive" if reg == "registered-same-name" else "Another"})
    registry = {} if reg in ("not-registered", "no-key") else {key: existing}
    vfn, base = Rec("validation_fn"), Rec("class int")
    created = []

    def type_model(c, a, k):
        r = Rec("created class", attrs={"name": a[0], "bases": a[1], "ns": a[2]})
        created.append(r)
        return r

    def setattr_model(c, a, k):
        a[0].attrs[a[1]] = a[2]

    calls = {"type": type_model, "setattr": setattr_model, "add_type": lambda c, a, k: c.event("add_type", a[0], a[1])}
    env = {"name": "Positive", "base_type": base, "validation_fn": vfn, "docstring": "doc", "extra_attrs": {"_expression": "v>0", "_join": "and"} if extra else None, "register_key": key}
    return Setup(env=env, calls=calls, consts={"registered_types": registry}, data=dict(reg=reg, extra=extra, key=key, existing=existing, registry=registry, vfn=vfn, base=base, created=created))


def ebt_post(ctx, st, result):
    d = st.data
    tag = f"[{d['reg']},extra_attrs={'given' if d['extra'] else 'None'}]"
    if d["reg"] == "registered-same-name":
        ctx.oblige("post", "a-key-registered-under-the-same-name-gives-back-the-registered-class;nothing-is-created-or-registered-again" + tag, result is d["existing"] and not d["created"] and not ctx.events)
        return
    ctx.oblige("post", "returns-normally-only-if-the-key-is-new-or-registered-under-this-name" + tag, d["reg"] in ("not-registered", "no-key"))
    ok = len(d["created"]) == 1 and result is d["created"][0]
    core = None
    if ok:
        r = d["created"][0]
        ok = r.attrs["name"] == "Positive" and isinstance(r.attrs["bases"], tuple) and len(r.attrs["bases"]) == 2 and r.attrs["bases"][1] is d["base"] and r.attrs["ns"] == {"__doc__": "doc"}
        core = r.attrs["bases"][0] if ok else None
    ctx.oblige("post", "one-class-of-that-name-is-created:bases(the validating core,the base type),docstring-as-given" + tag, ok)
    if core is not None:
        ok = isinstance(core, Rec) and core.attrs.get("_validation_fn") is d["vfn"] and core.attrs.get("_type") is d["base"] and "__new__" in core.attrs
        if d["extra"]:
            ok = ok and core.attrs.get("_expression") == "v>0" and core.attrs.get("_join") == "and"
        ctx.oblige("post", "the-core-carries-the-validation-function,the-base-type,__new__-and-every-extra-attribute" + tag, ok)
    ev = [e for e in ctx.events if e[0] == "add_type"]
    ctx.oblige("post", "the-new-class-is-registered-under-the-key-given" + tag, len(ev) == 1 and ev[0][1] is result and ev[0][2] == d["key"])


def ebt_raises(ctx, st, exc):
    d = st.data
    ctx.oblige("raises", f"refused=>ValueError-exactly-when-the-key-is-registered-under-another-name;nothing-created[{d['reg']}]", exc.cls == "ValueError" and d["reg"] == "registered-other-name" and not d["created"] and not ctx.events)


# restricted_number_type: which (base_type, restrictions, join) are accepted, and that the comparisons reach the created class as
# (operator function, reference) pairs in the order given, joined as asked; the registry key does not depend on the order of the restrictions.
RNT_CASES = {
    "one-tuple": (("int", (">", 0), "and"), True), "list-of-two": (("float", [(">=", 0.0), ("<=", 1.0)], "and"), True), "or-join": (("int", [("<", 0), (">", 10)], "or"), True),
    "reference-of-the-other-number-type(equal value)": (("float", (">", 0), "and"), True), "same-restrictions-other-order": (("float", [("<=", 1.0), (">=", 0.0)], "and"), True),
    "base-str": (("str", (">", 0), "and"), False), "join-xor": (("int", (">", 0), "xor"), False), "unknown-operator": (("int", ("=>", 0), "and"), False), "reference-not-of-the-base-type": (("int", (">", 0.5), "and"), False),
    "restriction-of-three": (("int", [(">", 0, 1)], "and"), False), "restrictions-not-a-list": (("int", {(">", 0)}, "and"), False), "reference-text": (("int", (">", "0"), "and"), False),
}


def rnt_setup(ctx):
    names = list(RNT_CASES)
    case = names[ctx.choose(len(names), "case")]
    (bt, restr, join), ok = RNT_CASES[case]
    name_given = ctx.choose(2, "name-given") == 1
    import operator
    ops2 = {">": operator.gt, ">=": operator.ge, "<": operator.lt, "<=": operator.le, "==": operator.eq, "!=": operator.ne}
    ops1 = {v: k for k, v in ops2.items()}
    py = {"int": int, "float": float, "str": str}[bt]
    base = Rec("class " + bt, attrs={"__name__": bt, "py": py})

    def base_call(c, s_, a, k):
        try:
            return py(a[0])
        except (TypeError, ValueError):
            raise PyRaise(ExcVal("ValueError", args=("not convertible",), origin="base_type()"))
    base.methods["__call__"] = base_call
    base.methods["__eq__"] = lambda c, s_, a, k: a[0] is s_
    base.methods["__hash__"] = lambda c, s_, a, k: hash(bt)
    made = []
    consts = {"int": base if bt == "int" else Rec("class int", attrs={"__name__": "int"}), "float": base if bt == "float" else Rec("class float", attrs={"__name__": "float"}),
              "_operators2": {k: Rec("op " + v.__name__, attrs={"__name__": v.__name__, "sym": k}) for k, v in ops2.items()}}
    consts["_operators1"] = {v: k for k, v in consts["_operators2"].items()}
    calls = {"extend_base_type": lambda c, a, k: (made.append(dict(k)), Rec("created type"))[1]}
    env = {"name": "MyType" if name_given else None, "base_type": base, "restrictions": restr, "join": join, "docstring": "doc"}
    return Setup(env=env, calls=calls, consts=consts, data=dict(case=case, ok=ok, bt=bt, restr=restr, join=join, name_given=name_given, base=base, made=made, ops=consts["_operators2"]))


def rnt_post(ctx, st, result):
    d = st.data
    tag = f"[{d['case']},name={'given' if d['name_given'] else 'None'}]"
    ctx.oblige("post", "accepted=>base-int/float,join-and/or,restrictions-a-(operator,reference)-tuple-or-a-list-of-them-with-a-known-operator-and-a-reference-equal-to-itself-as-base-type" + tag, d["ok"])
    if not d["ok"] or len(d["made"]) != 1:
        ctx.oblige("post", "exactly-one-class-is-requested-from-extend_base_type" + tag, len(d["made"]) == 1)
        return
    k = d["made"][0]
    restr = [d["restr"]] if isinstance(d["restr"], tuple) else list(d["restr"])
    ea = k.get("extra_attrs") or {}
    want_pairs = [(d["ops"][op], ref) for op, ref in restr]
    got_pairs = ea.get("_restrictions") or []
    ctx.oblige("post", "the-class-gets-the-comparisons-as-(operator function,reference)-in-the-order-given,the-join-word-and-the-base-type" + tag,
               len(got_pairs) == len(want_pairs) and all(g[0] is w[0] and g[1] == w[1] and type(g[1]) is type(w[1]) for g, w in zip(got_pairs, want_pairs)) and ea.get("_join") == d["join"] and ea.get("_type") is d["base"]
               and k.get("base_type") is d["base"] and k.get("docstring") == "doc")
    expr = (" " + d["join"] + " ").join("v" + op + str(ref) for op, ref in restr)
    ctx.oblige("post", "the-expression-shown-in-error-messages-states-exactly-these-comparisons" + tag, ea.get("_expression") == expr, note=f"{ea.get('_expression')!r} vs {expr!r}")
    rk = k.get("register_key")
    ctx.oblige("post", "the-registry-key-is(the restrictions as a sorted tuple,base type,join):the-same-restrictions-in-another-order-are-the-same-type" + tag,
               isinstance(rk, tuple) and len(rk) == 3 and rk[0] == tuple(sorted(restr)) and rk[1] is d["base"] and rk[2] == d["join"])
    if d["name_given"]:
        ctx.oblige("post", "a-given-name-is-used" + tag, k.get("name") == "MyType")
    else:
        nm = d["bt"]
        for num, (op, ref) in enumerate(restr):
            nm += ("_" + d["join"] + "_" if num > 0 else "_") + d["ops"][op].attrs["__name__"] + str(ref).replace(".", "")
        ctx.oblige("post", "without-a-name-one-is-composed-from-base-type,operators-and-references(so that equal restrictions get equal names)" + tag, k.get("name") == nm, note=f"{k.get('name')!r} vs {nm!r}")
    ctx.oblige("post", "a-validation-function-is-handed-over(its own unit)" + tag, k.get("validation_fn") is not None)


def rnt_raises(ctx, st, exc):
    d = st.data
    ctx.oblige("raises", f"refused=>ValueError,exactly-for-the-malformed-requests;no-class-created[{d['case']}]", exc.cls == "ValueError" and not d["ok"] and not d["made"])


UNITS += [
    Unit("C20", "jsonargparse.typing:extend_base_type", ebt_setup, ebt_post, ebt_raises, expect_cover=("return", "raise:ValueError"),
         trusted=["type(name, bases, ns) creates the class; add_type registers it (register_type / get_registered_type: their own units)", "nested class statement: the class body's bindings become the core's attributes (engine)"]),
    Unit("C20", "jsonargparse.typing:restricted_number_type", rnt_setup, rnt_post, rnt_raises, expect_cover=("return", "raise:ValueError"),
         trusted=["extend_base_type: its own unit", "validation_fn: its own unit (the acceptance predicate)", "sorted() on (operator text, number) tuples, str(number), operator.__name__ evaluated by CPython on the concrete requests of the scenario"]),
]


# a pathlib value round-trips as the path it is: such an option never loads its value from the file the path names
from contracts.any_units import is_pathlike_unit, typehint_init_unit  # noqa: E402
UNITS += [is_pathlike_unit("C20"), typehint_init_unit("C20")]


# restricted_string_type: the class created carries the compiled pattern (a text is compiled), and the registry key tells apart what the
# pattern tells apart: the pattern text *and its flags* (a second type with the same text but re.I is another type, not the first one)
def rst_setup(ctx):
    given = ["text", "compiled", "compiled-with-flags"][ctx.choose(3, "regex")]
    flags = {"text": 32, "compiled": 32, "compiled-with-flags": 34}[given]   # re.UNICODE / re.UNICODE | re.IGNORECASE
    compiled = Rec("compiled pattern", attrs={"pattern": "^abc$", "flags": flags})
    regex = "^abc$" if given == "text" else compiled
    made = []
    calls = {"re.compile": lambda c, a, k: (c.event("compile", a[0]), compiled)[1], "extend_base_type": lambda c, a, k: (made.append(dict(k)), Rec("created type"))[1]}
    return Setup(env={"name": "Abc", "regex": regex, "docstring": "doc"}, calls=calls, consts={"str": ClassRef("str")}, data=dict(given=given, flags=flags, compiled=compiled, made=made))


def rst_post(ctx, st, result):
    d = st.data
    tag = f"[{d['given']}]"
    ok = len(d["made"]) == 1
    k = d["made"][0] if ok else {}
    ea = k.get("extra_attrs") or {}
    ctx.oblige("post", "one-class-of-the-given-name-over-str-carrying-the-compiled-pattern,its-text-as-expression,and-the-docstring" + tag,
               ok and k.get("name") == "Abc" and isinstance(k.get("base_type"), ClassRef) and k["base_type"].name == "str" and ea.get("_regex") is d["compiled"] and ea.get("_expression") == "matching ^abc$"
               and k.get("docstring") == "doc" and k.get("validation_fn") is not None)
    rk = k.get("register_key")
    ctx.oblige("post", "the-registry-key-holds-the-pattern-text-and-its-flags:patterns-that-accept-different-strings-are-different-types" + tag,
               isinstance(rk, tuple) and "matching ^abc$" in rk and d["flags"] in rk)
    ctx.oblige("post", "a-pattern-given-as-text-is-compiled-once" + tag, len([e for e in ctx.events if e[0] == "compile"]) == (1 if d["given"] == "text" else 0))


UNITS.append(Unit("C20", "jsonargparse.typing:restricted_string_type", rst_setup, rst_post, None, expect_cover=("return",),
                  trusted=["extend_base_type: its own unit (a key already registered under the same name returns that class, under another name is refused; add_type refuses a second class of the same name)",
                           "re.compile(text) compiles with the default flags"]))

from contracts.share import carried as _carried  # noqa: E402
UNITS += _carried("C20")
