"""C05 - the same settings give the same configuration through every input channel.

The funnel: the argv path, the object/file path and the environment path all hand the setting to the same
_check_value_key / _check_type.  Under contract here:
  load_value                          '-' is returned as given; a scalar loaded from text is returned as the *original
                                      string* unless simple_types (so argv and config agree on strings)
  ArgumentParser._load_config_parser_mode (unit of C03)   a non-mapping document is rejected in every parser mode
  ArgumentParser._load_env_vars (unit of C04)             environment values go through _check_value_key
The loaders themselves (PyYAML, json, jsonnet, OmegaConf) are external; the relational agreement across channels and
parser modes is checked by the bounded harness.
"""
import z3

from pyvc.engine import ClassRef, ExcVal, PyRaise, Rec, Unsupported, lift, is_z3
from pyvc.units import Setup, Unit

NOT_LOADED = Rec("not_loaded-sentinel")


def lv_setup(ctx):
    value = z3.String("value")
    is_dash = ctx.choose(2, "value-is-dash") == 1
    simple = ctx.choose(2, "simple_types") == 1
    basic = ["not_loaded", "scalar"][ctx.choose(2, "load_basic")]
    json_superset = ctx.choose(2, "loader-is-json-superset") == 1
    loaded_kind = ["int", "str", "dict", "list", "None"][ctx.choose(5, "loader-result")]
    scalar = z3.Int("basic-scalar")
    results = {"int": z3.Int("loaded-int"), "str": z3.String("loaded-str"), "dict": {"a": 1}, "list": [1], "None": None}

    stripped = z3.String("stripped-not-dash")
    ctx.assume(stripped != z3.StringVal("-"))

    def strip(c, a, k):
        return "-" if is_dash else stripped

    calls = {
        "value.strip": strip,
        "load_basic": lambda c, a, k: scalar if basic == "scalar" else NOT_LOADED,
        "get_load_value_mode": lambda c, a, k: "yaml",
        "load_list_or_dict": lambda c, a, k: (c.event("load_list_or_dict"), NOT_LOADED)[1],
        "loader": lambda c, a, k: (c.event("loader", a[0]), results[loaded_kind])[1],
    }
    consts = {"not_loaded": NOT_LOADED, "loader_json_superset": {"yaml": json_superset}, "loaders": {"yaml": Rec("loader-fn")}, "loader_params": {}}

    def symcall(c, f, a, k):
        if isinstance(f, Rec) and f.cls == "loader-fn":
            return calls["loader"](c, a, k)
        return NotImplemented

    ctx.assume(value != z3.StringVal("-"))
    return Setup(env={"value": value, "simple_types": simple, "kwargs": {}}, calls=calls, consts=consts, symcall=symcall,
                 data=dict(value=value, is_dash=is_dash, simple=simple, basic=basic, loaded_kind=loaded_kind, scalar=scalar, results=results))


def lv_post(ctx, st, result):
    d = st.data
    if d["is_dash"]:
        ctx.oblige("post", "dash-is-returned-as-given(not loaded)", result is d["value"])
        return
    loaded = d["scalar"] if d["basic"] == "scalar" else d["results"][d["loaded_kind"]]
    is_scalar = d["basic"] == "scalar" or d["loaded_kind"] in ("int", "str")
    if is_scalar and not d["simple"]:
        ctx.oblige("post", "a-scalar-is-returned-as-the-original-text(typing is left to the type hint: same on argv and in configs)", result is d["value"])
    else:
        ctx.oblige("post", "containers-and-null(and scalars when simple_types)-are-returned-as-loaded", result is loaded)
    if d["basic"] == "scalar":
        ctx.oblige("post", "text-decided-by-load_basic-does-not-reach-the-mode's-loader", not [e for e in ctx.events if e[0] == "loader"])


def lv_raises(ctx, st, exc):
    ctx.oblige("raises", f"no-own-exception(got {exc.cls}@{exc.origin})", False)


UNITS = [
    Unit("C05", "jsonargparse._loaders_dumpers:load_value", lv_setup, lv_post, lv_raises,
         trusted=["load_basic / the mode's loader return what the text denotes (C01 unit / external)", "value.strip() == '-' decides the dash case"]),
]
from contracts.check_type import check_type_unit  # noqa: E402
UNITS.append(check_type_unit("C05"))

from contracts.c01 import json_number_lemmas  # noqa: E402
LEMMAS = [json_number_lemmas("C05")]

VERIFIED_CALLEES = ()
LEVEL = "other"
TECHNIQUE = "contract-based deductive verification of the shared loading funnel (VCs from the real AST) + bounded relational contract across 9 channels, 4 parser modes and dotted/nested spelling"
LEVEL_TEXT = "Verified: load_value returns '-' as given and returns a scalar loaded from text as the original string (typing is left to the type hint, identically for argv and documents); the argv path (ActionTypeHint.__call__: --k=v, --k.sub=v, --k.init_args.sub=v, --k+=v) and the document/object path (_apply_actions on the Namespace heap of C11, incl. nested members, whole-group values, subcommand sections, method-name keys) and the environment path (_load_env_vars, parse_env) all hand the given text to the same per-action type check; get_env_var is a pure function of the current env_prefix and dest; Namespace.__init__ / _parse_key make dotted and nested spellings address the same leaf. Also: every ContextVar helper restores its variable (what a rejected parse leaves behind would reach parse_string / parse_path only), parse_argv_item (which argv items are claimed for a typed parent action). Bounded additions: channels on a parser that has just rejected an input; 24 JSON documents under the four parser modes (three known findings in external loaders). Bounded only: the relational agreement of 9 channels x 4 parser modes x dotted/nested spelling end to end (the loaders are external)."
LEVEL_NOTE = "under construction"
EXPLANATION = "under construction"
ASSUMPTIONS = []
TRUSTED = []
BOUNDED = [{"name": "same-settings-through-every-channel", "script": "bounded/b05_channels.py"}]


from contracts.env_var_unit import env_var_unit  # noqa: E402
UNITS.append(env_var_unit("C05"))

from contracts.apply_actions import apply_actions_unit  # noqa: E402
UNITS.append(apply_actions_unit("C05"))


from contracts.share import shared  # noqa: E402
UNITS += shared("C05", "contracts.c04", 'ArgumentParser._load_env_vars')
UNITS += shared("C05", "contracts.c11", 'Namespace.__init__', 'Namespace._parse_key')
UNITS += shared("C05", "contracts.c04", "ArgumentParser.parse_env")

from contracts.check_type import typehint_call_unit  # noqa: E402
UNITS.append(typehint_call_unit("C05"))


from contracts.any_units import is_action_value_list_unit, parse_argv_item_unit  # noqa: E402
UNITS += [parse_argv_item_unit("C05"), is_action_value_list_unit("C05")]

# what one parse leaves in a context variable reaches only some channels of the next parse (parse_string / parse_path read previous_config):
# every context manager restores its variable on every exit
from contracts.ctxvars import standard_units as _ctx_units  # noqa: E402
UNITS += _ctx_units("C05")

from contracts.share import carried as _carried  # noqa: E402
UNITS += _carried("C05")

# a --config file takes effect like the same settings given any other way: it is parsed without settling on a subcommand (the command line may name another one)
from contracts.share import shared as _c05_shared  # noqa: E402
UNITS += [u for u in _c05_shared("C05", "contracts.c04", "ActionConfigFile.apply_config") if not u.label]
