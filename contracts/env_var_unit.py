"""get_env_var (jsonargparse/_formatters.py): the environment variable name of an option is a pure function of the parser's current
env_prefix and the action's current dest."""
import z3

from pyvc.engine import ClassRef, ExcVal, PyRaise, Rec, Unsupported, lift, is_z3
from pyvc.units import Setup, Unit

# ------------------------------------------------------------------------------------------------ get_env_var
# The environment channel names the same key as the other channels only if the variable name is a function of the parser's *current*
# env_prefix and the action's *current* dest (both are rewritten when a parser is attached under a key or as a subcommand): pure, no memory.
def ev_setup(ctx):
    from pyvc.engine import ClassRef
    prefix = [None, True, "app", "my-app", "APP_fit"][ctx.choose(5, "env_prefix")]
    dest = [None, "rate", "opt.rate", "opt.sub-key.x"][ctx.choose(4, "action.dest")]
    via_formatter = ctx.choose(2, "called-by-the-help-formatter") == 1
    parser = Rec("ArgumentParser", attrs={"env_prefix": prefix})
    action = Rec("Action", attrs={"dest": dest, "option_strings": ["--" + dest]}) if dest is not None else None
    snapshot = dict(action.attrs) if action is not None else None
    first = Rec("DefaultHelpFormatter") if via_formatter else parser
    ctx.classes.add("DefaultHelpFormatter", ["object"])
    return Setup(env={"parser_or_formatter": first, "action": action}, calls={"parent_parser.get": lambda c, a, k: parser}, consts={"DefaultHelpFormatter": ClassRef("DefaultHelpFormatter")},
                 data=dict(prefix=prefix, dest=dest, action=action, snapshot=snapshot, parser=parser))


def ev_post(ctx, st, result):
    d = st.data
    want = (d["prefix"].replace("-", "_") + "_" if isinstance(d["prefix"], str) else "") + (d["dest"] or "")
    want = want.replace(".", "__").upper()
    tag = f"[prefix={d['prefix']!r},dest={d['dest']!r}]"
    ctx.oblige("post", "the-name-is-PREFIX_+dest-with-dots-doubled-to-underscores,upper-case,from-the-current-prefix-and-dest" + tag, result == want)
    ctx.oblige("frame", "nothing-is-remembered-on-the-action-or-the-parser(a later change of dest or env_prefix is followed)" + tag,
               (d["action"] is None or d["action"].attrs == d["snapshot"]) and d["parser"].attrs == {"env_prefix": d["prefix"]})


def ev_raises(ctx, st, exc):
    ctx.oblige("raises", f"no-own-exception(got {exc.cls}@{exc.origin})", False)



def env_var_unit(prop):
    return Unit(prop, "jsonargparse._formatters:get_env_var", ev_setup, ev_post, ev_raises, expect_cover=("return",),
                trusted=["str.replace / str.upper evaluated by CPython on the concrete prefixes and dests of the scenario"])
