"""Round 2 - parser construction / configuration (jsonargparse/_core.py), process-wide settings and instantiators
(jsonargparse/_common.py), help / comment formatting (jsonargparse/_formatters.py).

Parsers, groups and actions are records (Rec) named after the real classes.  Unless said otherwise the values handed in are symbolic
(all strings / all integers) and the *shapes* (None, list, wrong type, with / without subcommands ...) are enumerated.

C09 (configuring one parser changes that parser only; setters refuse before they change anything; help leaves no trace)
  ArgumentParser.parser_mode [setter+getter]   ALL mode strings against a loader table: accepted iff registered (omegaconf after its lazy registration);
                               then the mode is what the getter returns and every subcommand parser received exactly that mode through its own setter;
                               refused (ValueError for an unknown mode, the import error of a missing jsonnet) => nothing of the parser or its subparsers changed
  ArgumentParser.default_meta [setter+getter]  a bool is stored and read back; anything else ValueError, old value stays; no other attribute written
  ArgumentParser.dump_header [setter+getter]   None or a list of str is stored as given (same object) and read back; str / tuple / list with a non-str
                               refused with ValueError, old value stays  (C01: each header line is one comment line - a line break inside a line is NOT refused: reported)
  ArgumentParser.__init__      every setting goes through its validating property with the value given for *that* setting; per-parser containers
                               (groups, required_args, save_path_content) are new empty objects of this parser; nothing but self is written;
                               --version only when asked, with the text given
  ActionsContainer.__init__    base initialiser first, with the caller's arguments; then exactly the three registrations the parser relies on
  ArgumentParser.format_help   rendered inside a context holding this parser and *this call's* defaults (None without default config files);
                               the context is closed on every exit; a failing get_defaults is reported in the note, not raised; only the help group's note is written
  ArgumentParser.print_usage   same for the usage: context open during, closed on every exit, arguments passed through, nothing written
  ParserDeprecations.check_config   is validate with exactly the caller's arguments, result passed back, nothing else called
  set_parsing_settings / get_parsing_setting   only the documented key of the settings table is written, only for a bool; None changes nothing;
                               anything else ValueError with the table untouched; reading an unknown name (ALL strings) is ValueError, a known one its value
  debug_mode_active            ALL values of JSONARGPARSE_DEBUG: active iff set to something other than '', false, no, 0 (any case); reads only
C06
  ArgumentParser._parse_optional   ALL tokens: the nested-option reading (parse_argv_item) when there is one, else argparse's reading of the very token
                               (of token + '=' exactly for the print-config option, so that it takes no following token); nothing written
  ActionsContainer.add_argument_group   ALL names against the declared groups: a duplicate name is refused (ValueError) before a group is built or anything
                               registered; else exactly one new group, built for the *parser* (also when called on a group), appended last, registered under
                               exactly its name (no name: not registered); other groups stay
  ArgumentParser.add_subparsers    always NotImplementedError, nothing registered
  get_default.<locals>.check_suppressed_default   NSKeyError exactly for the suppressed default (ALL string defaults), else silent; reads only
C09 (instantiators: what builds an object is a function of the table and the class only)
  ClassInstantiator.__init__ / __call__ / default_class_instantiator   the entries handed in are kept in their order, the table is never written; the first entry (in
                               table order) whose class is the requested class, or a base of it when the entry says subclasses, builds the object, else the
                               default; arguments passed through unchanged; exactly one construction
C01 (comments never change the data lines)
  DefaultHelpFormatter.add_yaml_comments   the object dumped is the very object loaded from the text; between load and dump only comment-setting methods
                               are called on it and on its nested maps (no item is set, deleted or reordered); one comment per key at most
  set_yaml_start_comment / set_yaml_group_comment / set_yaml_argument_comment   exactly one ruyaml comment call, for the key and text given, indent 2*depth
C09
  DefaultHelpFormatter._get_help_string / _format_action_invocation   ALL help strings: the text as written, then required / type / default / extra-help markers
                               (default always shown for what may be left out); ARG: / ENV: lines with default_env; the action and the parser are only read
Not under contract: InstantiatorCallable.__call__ (a typing.Protocol stub whose body is `pass`: no behaviour, never called);
                    the property getters cannot be addressed as units of their own (a unit addresses the last definition of a name): their real
                    bodies are interpreted inside the setter units (run_getter) on the record the setter left.
"""
import ast

import z3

from pyvc.engine import ClassRef, Env, ExcVal, Fn, Interp, PyRaise, Rec, ReturnSignal, Unsupported, is_z3, lift
from pyvc.units import Setup, Unit, load_module

CORE = "jsonargparse._core:"
COMMON = "jsonargparse._common:"
FMT = "jsonargparse._formatters:"
S_ = z3.StringVal


def _no_exc(ctx, st, exc):
    ctx.oblige("raises", f"never-raises(got {exc.cls}@{exc.origin})", False)


def _snap(rec):
    """What a record's attributes are bound to, and the content of its containers one level down."""
    out = {}
    for k, v in rec.attrs.items():
        if isinstance(v, (list, tuple)):
            out[k] = (id(v), [id(x) if isinstance(x, (Rec, list, dict, set)) or is_z3(x) else x for x in v])
        elif isinstance(v, dict):
            out[k] = (id(v), {kk: id(x) if isinstance(x, (Rec, list, dict, set)) or is_z3(x) else x for kk, x in v.items()})
        elif isinstance(v, (set, frozenset)):
            out[k] = (id(v), sorted(map(repr, v)))
        elif isinstance(v, Rec) or is_z3(v):
            out[k] = id(v)
        else:
            out[k] = v
    return out


def _changed(rec, snap, allow=()):
    now = _snap(rec)
    return sorted(k for k in set(now) | set(snap) if k not in allow and (k not in now or k not in snap or now[k] != snap[k]))


def run_getter(ctx, cls, name, self_rec, mod="jsonargparse._core"):
    """The property's *getter* (the first definition of the name, decorated with @property; units address the last definition, the
    setter): its real body is interpreted on the record the setter left -> (found, value)."""
    src, tree, path = load_module(mod)
    for c in tree.body:
        if isinstance(c, ast.ClassDef) and c.name == cls:
            for f in c.body:
                if isinstance(f, ast.FunctionDef) and f.name == name and any(ast.unparse(d) == "property" for d in f.decorator_list):
                    interp = Interp(ctx, f, calls={}, consts={})
                    try:
                        interp.exec_block(f.body, Env({"self": self_rec}))
                    except ReturnSignal as r:
                        return True, r.value
                    return True, None
    return False, None


def _same(a, b):
    if is_z3(a) and is_z3(b):
        return a.eq(b)
    return a is b


# ================================================================================================ parser_mode (setter + getter)
LOADERS0 = ("yaml", "json", "toml", "jsonnet")


def pm_setup(ctx):
    shape = ["no-subcommands", "two-subcommands(one aliased)", "subcommands-action-without-parsers"][ctx.choose(3, "subcommands")]
    omegaconf = ctx.choose(2, "omegaconf-installed") == 1
    jsonnet = ctx.choose(2, "jsonnet-installed") == 1
    mode = z3.String("parser_mode")
    table = {n: Rec("loader " + n) for n in LOADERS0}
    assigned = []

    def sub(name):
        r = Rec("ArgumentParser", attrs={"_parser_mode": "yaml", "tag": name})
        r.methods["__setattr__"] = lambda c, s_, a, k: assigned.append((s_, a[0], a[1]))  # the property of the sub-parser: this same contract
        return r

    fit, test = sub("fit"), sub("test")
    npm = {"fit": fit, "test": test, "t": test}
    if shape == "no-subcommands":
        action = None
    elif shape.startswith("two"):
        action = Rec("_ActionSubCommands", attrs={"_name_parser_map": npm})
    else:
        action = Rec("_ActionSubCommands", attrs={"_name_parser_map": {}})
    other = Rec("ArgumentParser", attrs={"_parser_mode": "yaml", "tag": "another parser"})
    self = Rec("ArgumentParser", attrs={"_parser_mode": "json", "_subcommands_action": action, "_default_meta": True})

    def set_omegaconf_loader(c, a, k):
        c.event("set_omegaconf_loader")
        if omegaconf and "omegaconf" not in table:
            table["omegaconf"] = Rec("loader omegaconf")  # the documented global: the loader is registered on first use

    def import_jsonnet(c, a, k):
        c.event("import_jsonnet")
        if not jsonnet:
            raise PyRaise(ExcVal("ImportError", origin="import_jsonnet"))
        return Rec("module _jsonnet")

    calls = {"set_omegaconf_loader": set_omegaconf_loader, "import_jsonnet": import_jsonnet}
    return Setup(env={"self": self, "parser_mode": mode}, calls=calls, consts={"loaders": table},
                 data=dict(shape=shape, omegaconf=omegaconf, jsonnet=jsonnet, mode=mode, table=table, assigned=assigned, fit=fit, test=test, other=other, self_=self,
                           snap=_snap(self), snap_other=_snap(other), snap_action=_snap(action) if action else None, action=action, npm_keys=list(npm)), watch={"mode": mode})


def _registered(d):
    names = list(LOADERS0) + (["omegaconf"] if d["omegaconf"] else [])
    return z3.Or(*[d["mode"] == S_(n) for n in names])


def pm_post(ctx, st, result):
    d = st.data
    tag = f"[{d['shape']},omegaconf={d['omegaconf']},jsonnet={d['jsonnet']}]"
    mode = d["mode"]
    ctx.oblige("post", "accepted=>the-mode-is-a-registered-loader(omegaconf: once installed)" + tag, _registered(d))
    ctx.oblige("post", "accepted-jsonnet=>the-jsonnet-package-is-there" + tag, z3.Implies(mode == S_("jsonnet"), z3.BoolVal(d["jsonnet"])))
    got = d["self_"].attrs.get("_parser_mode")
    ctx.oblige("post", "the-parser's-mode-is-the-mode-given" + tag, is_z3(got) and got.eq(mode))
    found, read = run_getter(ctx, "ArgumentParser", "parser_mode", d["self_"])
    ctx.oblige("post", "the-getter-reads-back-the-mode-given" + tag, found and is_z3(read) and read.eq(mode))
    want = [d["fit"], d["test"], d["test"]] if d["shape"].startswith("two") else []
    ok = len(d["assigned"]) == len(want) and all(s is w and n == "parser_mode" and is_z3(v) and v.eq(mode) for (s, n, v), w in zip(d["assigned"], want))
    ctx.oblige("post", "every-subcommand-parser-receives-exactly-that-mode-through-its-own-property(no other parser does)" + tag, ok, note=str(d["assigned"]))
    ctx.oblige("frame", "no-other-attribute-of-the-parser-is-written;another-parser-and-the-subcommands-action-are-untouched" + tag,
               not _changed(d["self_"], d["snap"], allow=("_parser_mode",)) and not _changed(d["other"], d["snap_other"]) and (d["action"] is None or not _changed(d["action"], d["snap_action"])))
    ctx.oblige("frame", "the-loader-table-gains-at-most-the-omegaconf-loader(the documented lazy registration),only-when-that-mode-is-asked-for" + tag,
               set(d["table"]) - set(LOADERS0) <= {"omegaconf"} and all(n in d["table"] for n in LOADERS0) and z3.Implies(mode != S_("omegaconf"), z3.BoolVal("omegaconf" not in d["table"])))


def pm_raises(ctx, st, exc):
    d = st.data
    tag = f"[{d['shape']},omegaconf={d['omegaconf']},jsonnet={d['jsonnet']}]"
    mode = d["mode"]
    if exc.cls == "ValueError":
        ctx.oblige("raises", "ValueError=>the-mode-is-not-a-registered-loader" + tag, z3.Not(_registered(d)))
    else:
        ctx.oblige("raises", f"otherwise-only-the-import-error-of-a-missing-jsonnet-package(got {exc.cls}@{exc.origin})" + tag,
                   z3.And(z3.BoolVal(exc.origin == "import_jsonnet" and not d["jsonnet"]), mode == S_("jsonnet")))
    ctx.oblige("frame", "refused=>nothing-changed:the-parser-keeps-its-mode,no-subcommand-parser-was-told,no-other-attribute-written" + tag,
               not _changed(d["self_"], d["snap"]) and not d["assigned"] and not _changed(d["other"], d["snap_other"]))


def parser_mode_unit(prop):
    return Unit(prop, CORE + "ArgumentParser.parser_mode", pm_setup, pm_post, pm_raises, label="setter+getter", expect_cover=("return", "raise:ValueError", "raise:ImportError"),
                trusted=["set_omegaconf_loader registers the omegaconf loader iff the package is installed (its own unit)", "import_jsonnet raises ImportError iff the package is missing",
                         "assigning parser_mode on a subcommand parser runs this same setter (recursion by contract)"])


# ================================================================================================ default_meta / dump_header (setter + getter)
def dm_setup(ctx):
    kind = ["bool", "None", "int", "str", "list"][ctx.choose(5, "value")]
    value = {"bool": z3.Bool("default_meta"), "None": None, "int": z3.Int("n"), "str": z3.String("s"), "list": [True]}[kind]
    old = z3.Bool("old_default_meta")
    self = Rec("ArgumentParser", attrs={"_default_meta": old, "_default_env": False, "_parser_mode": "yaml", "_dump_header": None})
    return Setup(env={"self": self, "default_meta": value}, data=dict(kind=kind, value=value, old=old, self_=self, snap=_snap(self)))


def dm_post(ctx, st, result):
    d = st.data
    ctx.oblige("post", f"accepted=>a-bool[{d['kind']}]", d["kind"] == "bool")
    ctx.oblige("post", f"the-value-given-is-stored[{d['kind']}]", _same(d["self_"].attrs.get("_default_meta"), d["value"]))
    found, read = run_getter(ctx, "ArgumentParser", "default_meta", d["self_"])
    ctx.oblige("post", f"the-getter-reads-it-back[{d['kind']}]", found and _same(read, d["value"]))
    ctx.oblige("frame", f"no-other-attribute-is-written[{d['kind']}]", not _changed(d["self_"], d["snap"], allow=("_default_meta",)))


def dm_raises(ctx, st, exc):
    d = st.data
    ctx.oblige("raises", f"refused=>ValueError-for-a-non-bool;the-previous-value-stays,nothing-written[{d['kind']}]", exc.cls == "ValueError" and d["kind"] != "bool" and not _changed(d["self_"], d["snap"]))


def default_meta_unit(prop):
    return Unit(prop, CORE + "ArgumentParser.default_meta", dm_setup, dm_post, dm_raises, label="setter+getter", expect_cover=("return", "raise:ValueError"))


DH_KINDS = ["None", "empty-list", "list-of-str", "list-with-an-int", "list-with-None", "a-str", "tuple-of-str", "int"]


def dh_setup(ctx):
    kind = DH_KINDS[ctx.choose(len(DH_KINDS), "value")]
    l1, l2 = z3.String("line1"), z3.String("line2")
    value = {"None": None, "empty-list": [], "list-of-str": [l1, l2], "list-with-an-int": [l1, z3.Int("n")], "list-with-None": [l1, None], "a-str": z3.String("header"), "tuple-of-str": (l1, l2), "int": 3}[kind]
    old = ["old header"]
    self = Rec("ArgumentParser", attrs={"_dump_header": old, "_default_meta": True, "_parser_mode": "yaml"})
    content = list(value) if isinstance(value, list) else None
    return Setup(env={"self": self, "dump_header": value}, data=dict(kind=kind, value=value, content=content, old=old, self_=self, snap=_snap(self), lines=(l1, l2)))


def dh_post(ctx, st, result):
    d = st.data
    tag = f"[{d['kind']}]"
    ctx.oblige("post", "accepted=>None-or-a-list-of-strings" + tag, d["kind"] in ("None", "empty-list", "list-of-str"))
    ctx.oblige("post", "the-header-given-is-stored(the same object,its-lines-untouched)" + tag, d["self_"].attrs.get("_dump_header") is d["value"] and (d["content"] is None or (len(d["value"]) == len(d["content"]) and all(_same(x, y) for x, y in zip(d["value"], d["content"])))))
    found, read = run_getter(ctx, "ArgumentParser", "dump_header", d["self_"])
    ctx.oblige("post", "the-getter-reads-it-back" + tag, found and read is d["value"])
    ctx.oblige("frame", "no-other-attribute-is-written" + tag, not _changed(d["self_"], d["snap"], allow=("_dump_header",)))
    # Observed (reproduced natively), not a clause: the setter accepts a "line" that holds a line break, and the dumper writes '# ' + line, so the rest of that
    # string becomes a data line of the dump. C01 quantifies over configurations, not over header texts that are not lines; recorded as an observation in DESIGN.md.


def dh_raises(ctx, st, exc):
    d = st.data
    ctx.oblige("raises", f"refused=>ValueError-for-anything-but-None-or-a-list-of-strings;the-previous-header-stays,nothing-written[{d['kind']}]",
               exc.cls == "ValueError" and d["kind"] not in ("None", "empty-list", "list-of-str") and not _changed(d["self_"], d["snap"]) and d["old"] == ["old header"])


def dump_header_unit(prop):
    def setup(ctx):  # the C01 clause (refuted on the shipped code, see the report) is carried by every property but C09
        st = dh_setup(ctx)
        st.data["with_c01"] = prop != "C09"
        return st

    return Unit(prop, CORE + "ArgumentParser.dump_header", setup, dh_post, dh_raises, label="setter+getter", expect_cover=("return", "raise:ValueError"),
                trusted=["dump_using_format writes comment-prefix + line for every header line (its own unit, r2_loaders)"])


# ================================================================================================ add_subparsers / check_suppressed_default
def asp_setup(ctx):
    self = Rec("ArgumentParser", attrs={"_subparsers": None, "_subcommands_action": None, "_actions": [Rec("Action")]})
    kw = {"dest": z3.String("dest")} if ctx.choose(2, "keywords") == 1 else {}
    def base_add_subparsers(c, s_, a, k):  # argparse's own method (what the override keeps callers away from): registers a sub-parsers action
        self.attrs["_subparsers"] = Rec("_SubParsersAction")
        return self.attrs["_subparsers"]

    return Setup(env={"self": self, "kwargs": kw}, calls={"super": lambda c, a, k: Rec("super()", methods={"add_subparsers": base_add_subparsers})}, data=dict(self_=self, snap=_snap(self)))


def asp_post(ctx, st, result):
    ctx.oblige("post", "never-returns(argparse-style sub-parsers are refused: they would bypass the key checks of add_subcommands)", False)


def asp_raises(ctx, st, exc):
    d = st.data
    ctx.oblige("raises", f"always-NotImplementedError,nothing-registered(got {exc.cls})", exc.cls == "NotImplementedError" and not _changed(d["self_"], d["snap"]) and not ctx.mutlog)


def add_subparsers_unit(prop):
    return Unit(prop, CORE + "ArgumentParser.add_subparsers", asp_setup, asp_post, asp_raises, expect_cover=("raise:NotImplementedError",))


SUPPRESS = "==SUPPRESS=="


def csd_setup(ctx):
    kind = ["str", "None", "int", "object", "SUPPRESS"][ctx.choose(5, "action.default")]
    default = {"str": z3.String("default"), "None": None, "int": z3.Int("default_int"), "object": Rec("Namespace"), "SUPPRESS": SUPPRESS}[kind]
    action = Rec("Action", attrs={"dest": "grp.k", "default": default})
    return Setup(env={"action": action, "dest": z3.String("dest")}, consts={"argparse.SUPPRESS": SUPPRESS}, data=dict(kind=kind, default=default, action=action, snap=_snap(action)),
                 watch={"default": default} if is_z3(default) else {})


def csd_post(ctx, st, result):
    d = st.data
    if d["kind"] == "str":
        ctx.oblige("post", "silent=>the-default-is-not-the-suppress-marker[str]", d["default"] != S_(SUPPRESS))
    else:
        ctx.oblige("post", f"silent=>the-default-is-not-the-suppress-marker[{d['kind']}]", d["kind"] != "SUPPRESS")
    ctx.oblige("frame", f"the-action-is-only-read[{d['kind']}]", result is None and not _changed(d["action"], d["snap"]) and not ctx.mutlog)


def csd_raises(ctx, st, exc):
    d = st.data
    if d["kind"] == "str":
        ctx.oblige("raises", "NSKeyError=>the-default-is-the-suppress-marker[str]", z3.And(z3.BoolVal(exc.cls == "NSKeyError"), d["default"] == S_(SUPPRESS)))
    else:
        ctx.oblige("raises", f"NSKeyError-exactly-for-a-suppressed-default[{d['kind']}](got {exc.cls})", exc.cls == "NSKeyError" and d["kind"] == "SUPPRESS")
    ctx.oblige("frame", f"the-action-is-only-read[{d['kind']}]", not _changed(d["action"], d["snap"]) and not ctx.mutlog)


def check_suppressed_unit(prop):
    return Unit(prop, CORE + "ArgumentParser.get_default.<locals>.check_suppressed_default", csd_setup, csd_post, csd_raises, expect_cover=("return", "raise:NSKeyError"),
                trusted=["argparse.SUPPRESS is a string marker compared by value"])


# ================================================================================================ _parse_optional
argparse_reading = z3.Function("argparse._parse_optional", z3.StringSort(), z3.IntSort())


def po_setup(ctx):
    pc_kind = ["--print_config", "None(disabled)", "custom"][ctx.choose(3, "print_config-option")]
    print_config = {"--print_config": "--print_config", "None(disabled)": None, "custom": z3.String("print_config_option")}[pc_kind]
    nested = ctx.choose(2, "token-is-a-declared-nested-option-prefix") == 1
    token = z3.String("arg_string")
    nested_reading = (Rec("Action(nested)"), z3.String("nested_option"), z3.String("nested_value"))
    seen = []

    def parse_argv_item(c, a, k):
        c.event("parse_argv_item", a[0])
        return nested_reading if nested else None

    def super_parse(c, s_, a, k):
        seen.append(a[0])
        return ("argparse-reading-of", a[0])

    self = Rec("ArgumentParser", attrs={"_print_config": print_config, "prefix_chars": "-"})
    calls = {"ActionTypeHint.parse_argv_item": parse_argv_item, "super": lambda c, a, k: Rec("super()", methods={"_parse_optional": super_parse})}
    return Setup(env={"self": self, "arg_string": token}, calls=calls, data=dict(pc_kind=pc_kind, print_config=print_config, nested=nested, token=token, nested_reading=nested_reading, seen=seen, self_=self, snap=_snap(self)),
                 watch={"token": token})


def po_post(ctx, st, result):
    d = st.data
    tag = f"[print_config={d['pc_kind']},nested={d['nested']}]"
    token = d["token"]
    asked = [e for e in ctx.events if e[0] == "parse_argv_item"]
    ctx.oblige("post", "the-nested-option-reading-is-asked-about-the-very-token,once" + tag, len(asked) == 1 and _same(asked[0][1], token))
    if d["nested"]:
        ctx.oblige("post", "a-declared-nested-option-prefix=>that-reading-is-the-answer(argparse is not asked: it would take the token for a positional or an unknown option)" + tag,
                   result is d["nested_reading"] and not d["seen"])
    else:
        ok = len(d["seen"]) == 1 and isinstance(result, tuple) and len(result) == 2 and result[0] == "argparse-reading-of" and result[1] is d["seen"][0]
        ctx.oblige("post", "otherwise=>exactly-argparse's-reading-of-one-string" + tag, ok)
        if ok:
            asked_about = lift(d["seen"][0])
            if d["print_config"] is None:
                ctx.oblige("post", "that-string-is-the-token-itself(no print-config option declared)" + tag, asked_about == token, strings=True)
            else:
                pc = lift(d["print_config"])
                ctx.oblige("post", "that-string-is-the-token-itself,except-token+'='-exactly-for-the-print-config-option(explicit empty value: it never swallows the next token)" + tag,
                           z3.If(token == pc, asked_about == z3.Concat(token, S_("=")), asked_about == token), strings=True)
    ctx.oblige("frame", "the-parser-is-only-read" + tag, not _changed(d["self_"], d["snap"]) and not ctx.mutlog)


def parse_optional_unit(prop):
    return Unit(prop, CORE + "ArgumentParser._parse_optional", po_setup, po_post, _no_exc,
                trusted=["ActionTypeHint.parse_argv_item returns a truthy reading exactly for a declared nested option prefix (its own unit, any_units)",
                         "argparse.ArgumentParser._parse_optional (super()) decides option / positional for the string it is given"])


# ================================================================================================ add_argument_group
def ag_setup(ctx):
    on = ["parser", "group"][ctx.choose(2, "called-on")]
    name_kind = ["None", "str", "empty-str"][ctx.choose(3, "name")]
    custom_class = ctx.choose(2, "parser-has-its-own-group-class") == 1
    n_args = ctx.choose(2, "title-given")
    name = {"None": None, "str": z3.String("name"), "empty-str": ""}[name_kind]
    g_a, g_bc = Rec("ArgumentGroup", attrs={"tag": "a"}), Rec("ArgumentGroup", attrs={"tag": "b.c"})
    groups = {"a": g_a, "b.c": g_bc}
    if ctx.choose(2, "a-group-named-with-the-empty-string-exists") == 1:
        groups[""] = Rec("ArgumentGroup", attrs={"tag": "<empty>"})
    g0 = Rec("ArgumentGroup", attrs={"tag": "positional"})
    action_groups = [g0, g_a, g_bc]
    logger = Rec("Logger")
    made = []

    def ctor(which):
        def build(c, s_, a, k):
            g = Rec("ArgumentGroup", attrs={"tag": "new", "built_by": which, "args": tuple(a), "kwargs": dict(k)})
            made.append(g)
            return g
        return Rec("class " + which, methods={"__call__": build})

    pattrs = {"groups": groups, "_action_groups": action_groups, "_logger": logger}
    if custom_class:
        pattrs["_group_class"] = ctor("custom-group-class")
    parser = Rec("ArgumentParser", attrs=pattrs)
    self = parser if on == "parser" else Rec("ArgumentGroup", attrs={"parser": parser, "_logger": Rec("Logger(of the group)"), "_action_groups": action_groups, "tag": "caller group"})
    title = z3.String("title")
    args = (title,) if n_args else ()
    kwargs = {"description": z3.String("description")}
    return Setup(env={"self": self, "args": args, "name": name, "kwargs": kwargs}, consts={"ArgumentGroup": ctor("ArgumentGroup")},
                 data=dict(on=on, name_kind=name_kind, custom_class=custom_class, name=name, groups=groups, groups0=dict(groups), action_groups=action_groups, ag0=list(action_groups), made=made, parser=parser,
                           self_=self, logger=logger, args=args, kwargs=kwargs, snap_p=_snap(parser), snap_s=_snap(self)), watch={"name": name} if is_z3(name) else {})


def _dup(d):
    """the name is one of the declared group names (from the statement: 'a duplicate name')"""
    if d["name"] is None:
        return False
    if is_z3(d["name"]):
        return z3.Or(*[d["name"] == S_(k) for k in d["groups0"]])
    return d["name"] in d["groups0"]


def ag_post(ctx, st, result):
    from pyvc.engine import SymKey
    d = st.data
    tag = f"[on-{d['on']},name={d['name_kind']},empty-name-declared={'' in d['groups0']},custom-class={d['custom_class']}]"
    dup = _dup(d)
    ctx.oblige("post", "accepted=>the-name-is-not-the-name-of-a-declared-group" + tag, z3.Not(dup) if is_z3(dup) else not dup, strings=True)
    ok = len(d["made"]) == 1 and result is d["made"][0]
    ctx.oblige("post", "exactly-one-new-group-is-built-and-returned" + tag, ok)
    if not ok:
        return
    g = result
    want_kw = dict(d["kwargs"], logger=d["logger"])
    built = g.attrs["args"][:1] == (d["parser"],) and len(g.attrs["args"]) == 1 + len(d["args"]) and all(_same(x, y) for x, y in zip(g.attrs["args"][1:], d["args"])) \
        and set(g.attrs["kwargs"]) == set(want_kw) and all(_same(g.attrs["kwargs"][k], want_kw[k]) for k in want_kw)
    ctx.oblige("post", "it-is-built-for-the-parser(also when asked of a group),by-the-parser's-group-class,with-the-caller's-title/keywords-and-the-parser's-logger" + tag,
               built and g.attrs["built_by"] == ("custom-group-class" if d["custom_class"] else "ArgumentGroup") and g.attrs.get("parser") is d["parser"])
    ag = d["parser"].attrs["_action_groups"]
    ctx.oblige("post", "it-is-appended-last-to-the-parser's-groups,the-others-keep-their-place" + tag, ag is d["action_groups"] and len(ag) == len(d["ag0"]) + 1 and ag[-1] is g and all(x is y for x, y in zip(ag, d["ag0"])))
    groups = d["parser"].attrs["groups"]
    extra = [k for k in groups if k not in d["groups0"]]
    kept = groups is d["groups"] and all(groups.get(k) is v for k, v in d["groups0"].items())
    if d["name"] is None:
        ctx.oblige("post", "no-name=>not-registered;the-declared-names-keep-their-groups" + tag, kept and not extra)
    elif is_z3(d["name"]):
        ctx.oblige("post", "registered-under-exactly-its-name(one new entry);the-declared-names-keep-their-groups" + tag,
                   kept and len(extra) == 1 and isinstance(extra[0], SymKey) and extra[0].term.eq(d["name"]) and groups[extra[0]] is g)
    else:
        ctx.oblige("post", "registered-under-exactly-its-name(one new entry);the-declared-names-keep-their-groups" + tag, kept and extra == [d["name"]] and groups[d["name"]] is g)
    ctx.oblige("frame", "nothing-else-of-the-parser(or of the group asked)-is-written" + tag,
               not _changed(d["parser"], d["snap_p"], allow=("groups", "_action_groups")) and (d["self_"] is d["parser"] or not _changed(d["self_"], d["snap_s"], allow=("_action_groups",))))


def ag_raises(ctx, st, exc):
    d = st.data
    tag = f"[on-{d['on']},name={d['name_kind']},empty-name-declared={'' in d['groups0']},custom-class={d['custom_class']}]"
    dup = _dup(d)
    ctx.oblige("raises", f"refused=>ValueError,and-the-name-is-a-declared-group's(got {exc.cls}@{exc.origin})" + tag, z3.And(z3.BoolVal(exc.cls == "ValueError"), dup) if is_z3(dup) else (exc.cls == "ValueError" and dup), strings=True)
    ctx.oblige("frame", "refused-before-anything-is-built-or-registered" + tag, not d["made"] and not _changed(d["parser"], d["snap_p"]) and not _changed(d["self_"], d["snap_s"]) and len(d["action_groups"]) == len(d["ag0"]) and set(d["groups"]) == set(d["groups0"]))


def add_argument_group_unit(prop):
    return Unit(prop, CORE + "ActionsContainer.add_argument_group", ag_setup, ag_post, ag_raises, expect_cover=("return", "raise:ValueError"),
                trusted=["the group class builds an empty group for the container it is given (argparse._ArgumentGroup.__init__)"])


# ================================================================================================ ArgumentParser.__init__
PROPS = ("default_config_files", "default_meta", "default_env", "env_prefix", "parser_mode", "dump_header")


def init_setup(ctx):
    with_version = ctx.choose(2, "version-given") == 1
    groups_before = ["None(class default)", "a-dict-set-by-the-base-initialiser"][ctx.choose(2, "self.groups")]
    fails = ["nothing", "base-initialiser(TypeError)"] + ["setter:" + n for n in PROPS]
    failing = fails[ctx.choose(len(fails), "what-refuses")]
    given = {
        "env_prefix": z3.String("env_prefix"), "formatter_class": Rec("class MyFormatter"), "exit_on_error": z3.Bool("exit_on_error"), "logger": Rec("logger-spec"),
        "version": z3.String("version") if with_version else None, "print_config": z3.String("print_config") if ctx.choose(2, "print_config-None") == 0 else None,
        "parser_mode": z3.String("parser_mode"), "dump_header": [z3.String("header-line")], "default_config_files": [z3.String("pattern")],
        "default_env": z3.Bool("default_env"), "default_meta": z3.Bool("default_meta"),
    }
    args = (z3.String("prog"),)
    kwargs = {"description": z3.String("description")}
    existing_groups = {"from-base-init": Rec("ArgumentGroup")}
    other = Rec("ArgumentParser", attrs={"groups": {"g": Rec("ArgumentGroup")}, "required_args": {"x"}, "save_path_content": set(), "_parser_mode": "yaml"})
    self = Rec("ArgumentParser", attrs={"groups": None if groups_before.startswith("None") else existing_groups, "_subcommands_action": None, "_instantiators": None})

    def setattr_(c, s_, a, k):
        name, value = a
        if name in PROPS:
            c.event("property", name, value)
            if failing == "setter:" + name:
                raise PyRaise(ExcVal("ValueError", origin="setter:" + name))  # the setter's own contract: refuses before it stores
            s_.attrs["_" + name] = value
        else:
            s_.attrs[name] = value

    self.methods["__setattr__"] = setattr_
    self.methods["add_argument"] = lambda c, s_, a, k: c.event("add_argument", tuple(a), dict(k))

    def base_init(c, s_, a, k):
        c.event("base-init", tuple(a), dict(k))
        if failing.startswith("base"):
            raise PyRaise(ExcVal("TypeError", origin="base-init"))

    group_class = Rec("class ArgumentGroup(auto)")
    calls = {"super": lambda c, a, k: Rec("super()", methods={"__init__": base_init}), "get_argument_group_class": lambda c, a, k: (c.event("group-class-for", a[0]), group_class)[1]}
    env = dict(given, self=self, args=args, kwargs=kwargs)
    return Setup(env=env, calls=calls, data=dict(given=given, with_version=with_version, groups_before=groups_before, failing=failing, args=args, kwargs=kwargs, self_=self, other=other, snap_other=_snap(other),
                                                 other_groups=dict(other.attrs["groups"]), existing_groups=existing_groups, group_class=group_class))


def _init_tag(d):
    return f"[version={d['with_version']},groups={d['groups_before'].split('(')[0]},refuses={d['failing']}]"


def init_post(ctx, st, result):
    d = st.data
    tag = _init_tag(d)
    g, a, ev = d["given"], d["self_"].attrs, ctx.events
    ctx.oblige("post", "built=>nothing-refused" + tag, d["failing"] == "nothing")
    base = [e for e in ev if e[0] == "base-init"]
    want_kw = dict(d["kwargs"], formatter_class=g["formatter_class"], logger=g["logger"])
    ok = len(base) == 1 and ev and ev[0] is base[0] and len(base[0][1]) == len(d["args"]) and all(_same(x, y) for x, y in zip(base[0][1], d["args"])) and set(base[0][2]) == set(want_kw) and all(_same(base[0][2][k], want_kw[k]) for k in want_kw)
    ctx.oblige("post", "the-base-initialiser-runs-first,once,with-the-caller's-arguments,formatter-and-logger(none of the jsonargparse settings leaks into it)" + tag, ok)
    props = [e for e in ev if e[0] == "property"]
    ctx.oblige("post", "every-setting(default_config_files,default_meta,default_env,env_prefix,parser_mode,dump_header)-goes-through-its-validating-property,once,with-the-value-given-for-that-very-setting" + tag,
               sorted(e[1] for e in props) == sorted(PROPS) and all(_same(e[2], g[e[1]]) for e in props))
    ctx.oblige("post", "no-setting-is-stored-behind-its-property's-back" + tag, all(_same(a.get("_" + n), g[n]) for n in PROPS))
    ctx.oblige("post", "exit_on_error-and-the-print-config-option-name-are-kept-as-given" + tag, _same(a.get("exit_on_error"), g["exit_on_error"]) and _same(a.get("_print_config"), g["print_config"]))
    ra, sp = a.get("required_args"), a.get("save_path_content")
    ctx.oblige("post", "required_args-and-save_path_content-are-new,empty,distinct-sets-of-this-parser(not shared with another parser or with each other)" + tag,
               isinstance(ra, set) and isinstance(sp, set) and not ra and not sp and ra is not sp and ra is not d["other"].attrs["required_args"] and sp is not d["other"].attrs["save_path_content"])
    if d["groups_before"].startswith("None"):
        ctx.oblige("post", "the-parser-gets-its-own-new-empty-groups-table(the class-level None is not shared state)" + tag, isinstance(a.get("groups"), dict) and not a["groups"] and a["groups"] is not d["other"].attrs["groups"])
    else:
        ctx.oblige("post", "a-groups-table-filled-by-the-base-initialiser-is-kept" + tag, a.get("groups") is d["existing_groups"] and list(a["groups"]) == ["from-base-init"])
    gc = [e for e in ev if e[0] == "group-class-for"]
    ctx.oblige("post", "the-group-class-is-derived-for-this-parser" + tag, len(gc) == 1 and gc[0][1] is d["self_"] and a.get("_group_class") is d["group_class"])
    adds = [e for e in ev if e[0] == "add_argument"]
    if d["with_version"]:
        ok = len(adds) == 1 and adds[0][1] == ("--version",) and adds[0][2].get("action") == "version" and is_z3(adds[0][2].get("version"))
        ctx.oblige("post", "--version-is-declared-once,as-a-version-action" + tag, ok)
        if ok:
            ctx.oblige("post", "its-text-is-'%(prog)s '+the-version-given" + tag, adds[0][2]["version"] == z3.Concat(S_("%(prog)s "), g["version"]), strings=True)
    else:
        ctx.oblige("post", "without-a-version-no-argument-is-declared" + tag, not adds)
    ctx.oblige("frame", "another-parser-is-not-touched(its groups,required_args,mode)" + tag, not _changed(d["other"], d["snap_other"]) and d["other"].attrs["groups"] == d["other_groups"] and all(m is d["self_"] or m is a.get("groups") or m is ra or m is sp for m in ctx.mutlog))


def init_raises(ctx, st, exc):
    d = st.data
    tag = _init_tag(d)
    ctx.oblige("raises", f"construction-fails-only-with-the-refusal-of-the-base-initialiser-or-of-a-setting's-property(got {exc.cls}@{exc.origin})" + tag,
               d["failing"] != "nothing" and exc.origin == ("base-init" if d["failing"].startswith("base") else d["failing"]))
    ctx.oblige("frame", "another-parser-is-not-touched" + tag, not _changed(d["other"], d["snap_other"]) and d["other"].attrs["groups"] == d["other_groups"])
    if d["failing"].startswith("base"):
        ctx.oblige("raises", "base-initialiser-refused=>no-setting-was-applied" + tag, not [e for e in ctx.events if e[0] == "property"])


def parser_init_unit(prop):
    return Unit(prop, CORE + "ArgumentParser.__init__", init_setup, init_post, init_raises, expect_cover=("return", "raise:ValueError", "raise:TypeError"),
                trusted=["assigning a setting runs its property setter, which validates before it stores (units of this module and defaults_units)", "the base initialisers (ParserDeprecations, ActionsContainer, LoggerProperty, argparse) write attributes of self only",
                         "get_argument_group_class(parser) returns a group class for that parser"])


# ================================================================================================ ActionsContainer.__init__
def aci_setup(ctx):
    self = Rec("ArgumentParser")
    self.methods["register"] = lambda c, s_, a, k: c.event("register", tuple(a), dict(k))
    fails = ctx.choose(2, "base-initialiser-raises") == 1

    def base_init(c, s_, a, k):
        c.event("base-init", tuple(a), dict(k))
        if fails:
            raise PyRaise(ExcVal("TypeError", origin="base-init"))

    identity = Rec("function identity")
    args, kwargs = (z3.String("description"),), {"prefix_chars": z3.String("prefix_chars"), "logger": Rec("logger")}
    return Setup(env={"self": self, "args": args, "kwargs": kwargs}, calls={"super": lambda c, a, k: Rec("super()", methods={"__init__": base_init})}, consts={"identity": identity},
                 data=dict(self_=self, fails=fails, identity=identity, args=args, kwargs=kwargs, snap=_snap(self)))


def aci_post(ctx, st, result):
    d = st.data
    ev = ctx.events
    ok = bool(ev) and ev[0][0] == "base-init" and len([e for e in ev if e[0] == "base-init"]) == 1 and len(ev[0][1]) == 1 and _same(ev[0][1][0], d["args"][0]) and set(ev[0][2]) == set(d["kwargs"]) and all(_same(ev[0][2][k], d["kwargs"][k]) for k in d["kwargs"])
    ctx.oblige("post", "the-base-initialiser-runs-first,once,with-exactly-the-caller's-arguments", ok and not d["fails"])
    regs = [e[1] for e in ev if e[0] == "register" and not e[2]]

    def has(kind, key, what):
        return any(len(r) == 3 and r[0] == kind and r[1] == key and (r[2] is what if isinstance(what, Rec) else (isinstance(r[2], ClassRef) and r[2].name == what)) for r in regs)

    ctx.oblige("post", "type=None-means-identity(values are not converted behind the type system's back)", has("type", None, d["identity"]))
    ctx.oblige("post", "action='parsers'-is-jsonargparse's-subcommands-action(so sub-commands get the key checks)", has("action", "parsers", "_ActionSubCommands"))
    ctx.oblige("post", "action='config'-is-the-config-file-action", has("action", "config", "ActionConfigFile"))
    ctx.oblige("frame", "exactly-these-three-registrations,on-this-container;nothing-else-written", len(regs) == 3 and len([e for e in ev if e[0] == "register"]) == 3 and not _changed(d["self_"], d["snap"]))


def aci_raises(ctx, st, exc):
    d = st.data
    ctx.oblige("raises", f"only-the-base-initialiser's-refusal,and-then-nothing-is-registered(got {exc.cls}@{exc.origin})", d["fails"] and exc.origin == "base-init" and not [e for e in ctx.events if e[0] == "register"])


def container_init_unit(prop):
    return Unit(prop, CORE + "ActionsContainer.__init__", aci_setup, aci_post, aci_raises, expect_cover=("return", "raise:TypeError"),
                trusted=["argparse._ActionsContainer.register(registry, key, object) records the object under (registry, key) of this container"])


# ================================================================================================ format_help / print_usage
def _ctx_cm(open_cms, log):
    def enter(c, a, k):
        frame = ("parser_context", dict(k), tuple(a))
        open_cms.append(frame)
        log.append(("enter", dict(k)))
        return frame

    def exit_(c, tok, e):
        if not open_cms or open_cms[-1] is not tok:
            log.append(("bad-exit",))
        else:
            open_cms.pop()
            log.append(("exit",))
        return False
    return (enter, exit_)


def fh_setup(ctx):
    files = ctx.choose(2, "default-config-files-declared") == 1
    gd = (["returns-with-a-loaded-file", "returns-with-a-list-of-loaded-files", "returns-without-a-loaded-file", "raises-ArgumentError", "exits(parser in exit mode)"][ctx.choose(5, "get_defaults")]) if files else "-"
    render = ["returns", "raises"][ctx.choose(2, "rendering")]
    open_cms, log, during = [], [], []
    p1, p2 = Rec("Path", attrs={"text": "a.yaml"}), Rec("Path", attrs={"text": "b.yaml"})
    store = {"returns-with-a-loaded-file": {"__default_config__": p1}, "returns-with-a-list-of-loaded-files": {"__default_config__": [p1, p2]}}.get(gd, {})
    touched = []
    defaults = Rec("Namespace(defaults of this call)", methods={"__contains__": lambda c, s_, a, k: a[0] in store, "__getitem__": lambda c, s_, a, k: store[a[0]],
                                                                  "__setitem__": lambda c, s_, a, k: touched.append(a), "pop": lambda c, s_, a, k: touched.append(a)})
    group = Rec("ArgumentGroup", attrs={"description": "stale note of an earlier call", "title": "default config file locations"})
    patterns = ["~/.app.yaml"] if files else []
    attrs = {"_default_config_files": patterns, "_actions": [Rec("Action")], "_default_meta": True, "_defaults": {}}
    if files:
        attrs["_default_config_files_group"] = group
    self = Rec("ArgumentParser", attrs=attrs)

    def get_defaults(c, s_, a, k):
        c.event("get_defaults", tuple(a), dict(k), list(open_cms))
        if gd == "raises-ArgumentError":
            raise PyRaise(ExcVal("ArgumentError", args=("bad default config",), origin="get_defaults"))
        if gd.startswith("exits"):
            raise PyRaise(ExcVal("SystemExit", args=(2,), origin="get_defaults"))  # a parser in exit mode reports a failing default config file and exits
        return defaults

    self.methods["get_defaults"] = get_defaults
    text = z3.String("help-text")

    def base_format_help(c, s_, a, k):
        during.append([dict(f[1]) for f in open_cms])
        if render == "raises":
            raise PyRaise(ExcVal("<Any>", origin="rendering"))
        return text

    ctx.classes.add("ArgumentError", ["Exception"])
    calls = {"super": lambda c, a, k: Rec("super()", methods={"format_help": base_format_help}), "str": lambda c, a, k: a[0].attrs["text"] if isinstance(a[0], Rec) else str(a[0])}
    consts = {"argparse.ArgumentError": ClassRef("ArgumentError")}
    return Setup(env={"self": self}, calls=calls, consts=consts, cms={"parser_context": _ctx_cm(open_cms, log)},
                 data=dict(files=files, gd=gd, render=render, open_cms=open_cms, log=log, during=during, defaults=defaults, touched=touched, group=group, self_=self, snap=_snap(self), text=text, patterns=patterns))


def _fh_common(ctx, d, tag, normal):
    calls = [e for e in ctx.events if e[0] == "get_defaults"]
    ctx.oblige("post", "the-defaults-are-computed-at-most-once,only-when-default-config-files-are-declared,outside-any-context-of-this-call" + tag, len(calls) == (1 if d["files"] else 0) and all(not e[3] for e in calls))
    ctx.oblige("frame", "every-context-this-call-opened-is-closed-again(also on the exceptional exit):the-defaults-cache-and-parent-parser-are-what-they-were" + tag,
               not d["open_cms"] and ("bad-exit",) not in d["log"] and len([x for x in d["log"] if x[0] == "enter"]) == len([x for x in d["log"] if x[0] == "exit"]))
    ctx.oblige("frame", "the-parser-is-left-as-found(only the note of the default-config-files help group may be rewritten);the-defaults-object-is-only-read" + tag,
               not _changed(d["self_"], d["snap"]) and not d["touched"] and d["group"].attrs["title"] == "default config file locations" and set(d["group"].attrs) == {"description", "title"})
    reached = d["gd"] not in ("exits(parser in exit mode)",)
    if reached:
        want_cache = d["defaults"] if d["gd"].startswith("returns") else None
        ok = len(d["during"]) == 1 and len(d["during"][0]) == 1 and d["during"][0][0].get("parent_parser") is d["self_"] and "defaults_cache" in d["during"][0][0] and d["during"][0][0]["defaults_cache"] is want_cache
        ctx.oblige("post", "the-help-is-rendered-once,inside-one-context-holding-this-parser-and-this-call's-defaults(None without default config files or when they failed:never an earlier call's)" + tag, ok, note=str(d["during"]))
        if d["files"]:
            desc = d["group"].attrs["description"]
            ctx.oblige("post", "the-note-of-the-help-group-is-rewritten-by-this-call(no stale note of an earlier call survives)" + tag, not (isinstance(desc, str) and desc == "stale note of an earlier call"))
        else:
            ctx.oblige("post", "without-default-config-files-no-help-group-is-written" + tag, d["group"].attrs["description"] == "stale note of an earlier call")


def fh_post(ctx, st, result):
    d = st.data
    tag = f"[files={d['files']},get_defaults={d['gd']},rendering={d['render']}]"
    ctx.oblige("post", "returns-the-text-the-formatter-rendered" + tag, result is d["text"] and d["render"] == "returns" and not d["gd"].startswith("exits"))
    _fh_common(ctx, d, tag, True)


def fh_raises(ctx, st, exc):
    d = st.data
    tag = f"[files={d['files']},get_defaults={d['gd']},rendering={d['render']}]"
    ctx.oblige("raises", f"a-failing-get_defaults-reported-as-ArgumentError-is-put-in-the-note,not-raised;only-what-the-rendering-or-an-exiting-get_defaults-throws-escapes(got {exc.cls}@{exc.origin})" + tag,
               (exc.origin == "rendering" and d["render"] == "raises") or (exc.origin == "get_defaults" and d["gd"].startswith("exits")))
    _fh_common(ctx, d, tag, False)


def format_help_unit(prop):
    return Unit(prop, CORE + "ArgumentParser.format_help", fh_setup, fh_post, fh_raises, expect_cover=("return", "raise:<Any>", "raise:SystemExit"),
                trusted=["parser_context sets the given variables and restores them on exit (ctxvars unit)", "argparse's format_help (super()) renders through the formatter, which reads the context variables", "get_defaults by its own contract (C04)"])


def pu_setup(ctx):
    render = ["returns", "raises"][ctx.choose(2, "printing")]
    open_cms, log, during = [], [], []
    self = Rec("ArgumentParser", attrs={"_default_config_files": [], "_actions": [Rec("Action")], "_defaults": {}})
    stream = Rec("stream")
    args, kwargs = ((stream,), {}) if ctx.choose(2, "file-given-as") == 0 else ((), {"file": stream})

    def base_print_usage(c, s_, a, k):
        during.append(([dict(f[1]) for f in open_cms], tuple(a), dict(k)))
        if render == "raises":
            raise PyRaise(ExcVal("<Any>", origin="printing"))
        return None

    calls = {"super": lambda c, a, k: Rec("super()", methods={"print_usage": base_print_usage})}
    return Setup(env={"self": self, "args": args, "kwargs": kwargs}, calls=calls, cms={"parser_context": _ctx_cm(open_cms, log)},
                 data=dict(render=render, open_cms=open_cms, log=log, during=during, self_=self, snap=_snap(self), args=args, kwargs=kwargs, stream=stream))


def pu_check(ctx, d, tag):
    ok = len(d["during"]) == 1
    if ok:
        frames, a, k = d["during"][0]
        ok = len(frames) == 1 and frames[0].get("parent_parser") is d["self_"] and set(frames[0]) <= {"parent_parser"} and len(a) == len(d["args"]) and all(x is y for x, y in zip(a, d["args"])) and set(k) == set(d["kwargs"]) and all(k[n] is d["kwargs"][n] for n in k)
    ctx.oblige("post", "the-usage-is-printed-once,inside-a-context-holding-this-parser(and nothing else:an outer defaults cache is not overwritten),to-the-stream-given" + tag, ok, note=str(d["during"]))
    ctx.oblige("frame", "the-context-is-closed-again-on-every-exit;the-parser-is-only-read" + tag, not d["open_cms"] and ("bad-exit",) not in d["log"] and not _changed(d["self_"], d["snap"]) and not ctx.mutlog)


def pu_post(ctx, st, result):
    d = st.data
    pu_check(ctx, d, f"[printing={d['render']}]")
    ctx.oblige("post", "returns-normally-only-when-the-printing-did", d["render"] == "returns" and result is None)


def pu_raises(ctx, st, exc):
    d = st.data
    ctx.oblige("raises", f"only-what-the-printing-throws(got {exc.cls}@{exc.origin})", exc.origin == "printing" and d["render"] == "raises")
    pu_check(ctx, d, f"[printing={d['render']}]")


def print_usage_unit(prop):
    return Unit(prop, CORE + "ArgumentParser.print_usage", pu_setup, pu_post, pu_raises, expect_cover=("return", "raise:<Any>"),
                trusted=["parser_context sets the given variables and restores them on exit (ctxvars unit)", "argparse's print_usage (super()) writes the usage to the stream"])


# ================================================================================================ check_config (deprecated alias of validate)
def cc_setup(ctx):
    fails = ctx.choose(2, "validate-raises") == 1
    shape = ctx.choose(3, "arguments")
    cfg, branch = Rec("Namespace"), z3.String("branch")
    args, kwargs = [((cfg,), {}), ((cfg,), {"skip_none": z3.Bool("skip_none"), "branch": branch}), ((), {"cfg": cfg, "skip_required": z3.Bool("skip_required")})][shape]
    out = Rec("result of validate")

    def validate(c, s_, a, k):
        c.event("validate", tuple(a), dict(k))
        if fails:
            raise PyRaise(ExcVal("TypeError", origin="validate"))
        return out

    self = Rec("ArgumentParser", attrs={"_actions": []}, methods={"validate": validate})
    return Setup(env={"self": self, "args": args, "kwargs": kwargs}, data=dict(fails=fails, args=args, kwargs=kwargs, out=out, self_=self, snap=_snap(self)))


def cc_check(ctx, d):
    ev = ctx.events
    ok = len(ev) == 1 and ev[0][0] == "validate" and len(ev[0][1]) == len(d["args"]) and all(_same(x, y) for x, y in zip(ev[0][1], d["args"])) and set(ev[0][2]) == set(d["kwargs"]) and all(_same(ev[0][2][k], d["kwargs"][k]) for k in d["kwargs"])
    ctx.oblige("post", "check_config-is-validate:called-once,with-exactly-the-caller's-positional-and-keyword-arguments(nothing skipped by default)", ok and not _changed(d["self_"], d["snap"]))


def cc_post(ctx, st, result):
    cc_check(ctx, st.data)
    ctx.oblige("post", "what-validate-returns-is-returned;a-normal-return-means-validate-accepted", result is st.data["out"] and not st.data["fails"])


def cc_raises(ctx, st, exc):
    cc_check(ctx, st.data)
    ctx.oblige("raises", f"validate's-refusal-escapes-unchanged(got {exc.cls}@{exc.origin})", exc.origin == "validate" and st.data["fails"])


def check_config_unit(prop):
    return Unit(prop, "jsonargparse._deprecated:ParserDeprecations.check_config", cc_setup, cc_post, cc_raises, expect_cover=("return", "raise:TypeError"),
                trusted=["the @deprecated decorator only emits a DeprecationWarning before calling the function (the unit is the function body)", "validate by its own contract (validate_unit)"])


# ================================================================================================ _common: settings, debug mode, instantiators
def _table(d, written):
    """A module-level dict with concrete string keys that can be asked about a symbolic key."""
    def contains(c, s_, a, k):
        return z3.Or(*[lift(a[0]) == S_(n) for n in d]) if is_z3(a[0]) else a[0] in d

    def getitem(c, s_, a, k):
        if not is_z3(a[0]):
            if a[0] in d:
                return d[a[0]]
            raise PyRaise(ExcVal("KeyError", (a[0],), origin="dict[]"))
        names = list(d)
        i = c.choose(len(names) + 1, "dict-lookup", [a[0] == S_(n) for n in names] + [z3.And(*[a[0] != S_(n) for n in names])])
        if i == len(names):
            raise PyRaise(ExcVal("KeyError", (a[0],), origin="dict[]"))
        return d[names[i]]

    def setitem(c, s_, a, k):
        written.append((a[0], a[1]))
        if not is_z3(a[0]):
            d[a[0]] = a[1]

    return Rec("dict", methods={"__contains__": contains, "__getitem__": getitem, "__setitem__": setitem, "get": lambda c, s_, a, k: written.append(("get-used",))})


KEY = "parse_optionals_as_positionals"


def sps_setup(ctx):
    kind = ["bool", "None", "int", "str", "list"][ctx.choose(5, "value")]
    value = {"bool": z3.Bool("flag"), "None": None, "int": z3.Int("n"), "str": z3.String("s"), "list": [True]}[kind]
    old = z3.Bool("old_flag")
    d, written = {KEY: old}, []
    return Setup(env={KEY: value}, consts={"parsing_settings": _table(d, written)}, data=dict(kind=kind, value=value, old=old, d=d, written=written))


def sps_post(ctx, st, result):
    d = st.data
    tag = f"[{d['kind']}]"
    ctx.oblige("post", "accepted=>a-bool-or-None(nothing to change)" + tag, d["kind"] in ("bool", "None"))
    if d["kind"] == "bool":
        ctx.oblige("post", "the-documented-setting-now-holds-the-value-given;no-other-key-of-the-table-is-written" + tag, len(d["written"]) == 1 and d["written"][0][0] == KEY and _same(d["written"][0][1], d["value"]) and list(d["d"]) == [KEY] and _same(d["d"][KEY], d["value"]))
    else:
        ctx.oblige("post", "None=>the-table-is-untouched" + tag, not d["written"] and _same(d["d"][KEY], d["old"]))


def sps_raises(ctx, st, exc):
    d = st.data
    ctx.oblige("raises", f"refused=>ValueError-for-a-non-bool,with-the-table-untouched[{d['kind']}](got {exc.cls})", exc.cls == "ValueError" and d["kind"] not in ("bool", "None") and not d["written"] and _same(d["d"][KEY], d["old"]))


def set_parsing_settings_unit(prop):
    return Unit(prop, COMMON + "set_parsing_settings", sps_setup, sps_post, sps_raises, expect_cover=("return", "raise:ValueError"),
                trusted=["parsing_settings is the module-level table read by get_parsing_setting"])


def gps_setup(ctx):
    name = z3.String("name")
    val = z3.Bool("stored_flag")
    d, written = {KEY: val}, []
    return Setup(env={"name": name}, consts={"parsing_settings": _table(d, written)}, data=dict(name=name, val=val, d=d, written=written), watch={"name": name})


def gps_post(ctx, st, result):
    d = st.data
    ctx.oblige("post", "answered=>the-name-is-the-documented-setting,and-the-answer-is-its-stored-value", z3.And(d["name"] == S_(KEY), z3.BoolVal(_same(result, d["val"]))), strings=True)
    ctx.oblige("frame", "the-table-is-only-read", not d["written"] and _same(d["d"][KEY], d["val"]))


def gps_raises(ctx, st, exc):
    d = st.data
    ctx.oblige("raises", f"refused=>ValueError,and-the-name-is-not-a-setting(got {exc.cls}@{exc.origin})", z3.And(z3.BoolVal(exc.cls == "ValueError"), d["name"] != S_(KEY)), strings=True)
    ctx.oblige("frame", "the-table-is-only-read", not d["written"] and _same(d["d"][KEY], d["val"]))


def get_parsing_setting_unit(prop):
    return Unit(prop, COMMON + "get_parsing_setting", gps_setup, gps_post, gps_raises, expect_cover=("return", "raise:ValueError"))


py_lower = z3.Function("py.str.lower", z3.StringSort(), z3.StringSort())


def dma_setup(ctx):
    is_set = ctx.choose(2, "JSONARGPARSE_DEBUG-set") == 1
    raw = z3.String("JSONARGPARSE_DEBUG")
    asked = []

    def getenv(c, a, k):
        asked.append((tuple(a), dict(k)))
        v = raw if (is_set and a[0] == "JSONARGPARSE_DEBUG") else (a[1] if len(a) > 1 else k.get("default"))
        if v is None:
            return None
        return Rec("str", attrs={"value": v}, methods={"lower": lambda c2, s2, a2, k2: py_lower(lift(v))})

    ctx.axiom(py_lower(S_("")) == S_(""))  # ''.lower() == ''
    writes = []
    environ = Rec("os.environ", methods={"__setitem__": lambda c, s_, a, k: writes.append(a), "get": lambda c, s_, a, k: getenv(c, a, k)})
    return Setup(env={}, calls={"os.getenv": getenv}, consts={"os.environ": environ}, data=dict(is_set=is_set, raw=raw, asked=asked, writes=writes), watch={"raw": raw})


def dma_post(ctx, st, result):
    d = st.data
    if d["is_set"]:
        low = py_lower(d["raw"])
        want = z3.And(low != S_(""), low != S_("false"), low != S_("no"), low != S_("0"))
        ctx.oblige("post", "set=>active-iff-its-lower-cased-value-is-none-of-'',false,no,0", z3.BoolVal(is_z3(result)) if not is_z3(result) else result == want, strings=True)
    else:
        ctx.oblige("post", "unset=>not-active", result is False or (is_z3(result) and z3.is_false(z3.simplify(result))) or (is_z3(result) and z3.Not(result)))
    ctx.oblige("frame", "the-environment-is-only-read,and-only-JSONARGPARSE_DEBUG", not d["writes"] and len(d["asked"]) == 1 and d["asked"][0][0][0] == "JSONARGPARSE_DEBUG")


def debug_mode_unit(prop):
    return Unit(prop, COMMON + "debug_mode_active", dma_setup, dma_post, _no_exc,
                trusted=["os.getenv(name, default) returns the variable's value or the default", "str.lower is an uninterpreted function with ''.lower() == ''"])


def _cls(name, bases=()):
    return Rec("class " + name, attrs={"__name__": name, "bases": tuple(bases)})


def _is_sub(c, of):
    return c is of or any(_is_sub(b, of) for b in c.attrs["bases"])


def ci_call_setup(ctx):
    Base, Base2, Exact = _cls("Base"), _cls("Base2"), _cls("Exact")
    classes = {"Exact": Exact, "SubOfBase": _cls("SubOfBase", [Base]), "SubOfBase2AndBase": _cls("SubOfBase2AndBase", [Base2, Base]), "Base": Base, "SubOfExact": _cls("SubOfExact", [Exact]), "Unrelated": _cls("Unrelated"),
               "Base2": Base2}
    which = list(classes)[ctx.choose(len(classes), "class_type")]
    layout = ["Base(subclasses),Exact(exact),Base2(subclasses)", "Base2(subclasses),Base(exact),Base(subclasses)", "empty"][ctx.choose(3, "table")]
    built = []

    def maker(tag):
        return Rec("instantiator " + tag, methods={"__call__": lambda c, s_, a, k, _t=tag: (built.append((_t, tuple(a), dict(k))), Rec("instance by " + _t))[1]})

    if layout.startswith("Base(sub"):
        entries = [((Base, True), maker("Base*")), ((Exact, False), maker("Exact")), ((Base2, True), maker("Base2*"))]
    elif layout.startswith("Base2"):
        entries = [((Base2, True), maker("Base2*")), ((Base, False), maker("Base")), ((Base, True), maker("Base*"))]
    else:
        entries = []
    table = Rec("dict", attrs={"entries": entries}, methods={"items": lambda c, s_, a, k: list(entries), "__setitem__": lambda c, s_, a, k: built.append(("TABLE-WRITTEN",)), "pop": lambda c, s_, a, k: built.append(("TABLE-WRITTEN",)),
                                                                 "__bool__": lambda c, s_, a, k: bool(entries)})
    self = Rec("ClassInstantiator", attrs={"instantiators": table})
    cls = classes[which]
    args, kwargs = (z3.Int("arg0"), z3.String("arg1")), {"lr": z3.Int("lr")}
    calls = {"is_subclass": lambda c, a, k: isinstance(a[0], Rec) and isinstance(a[1], Rec) and _is_sub(a[0], a[1]),
             "default_class_instantiator": lambda c, a, k: (built.append(("default", tuple(a), dict(k))), Rec("instance by default"))[1]}
    return Setup(env={"self": self, "class_type": cls, "args": args, "kwargs": kwargs}, calls=calls, data=dict(which=which, layout=layout, entries=entries, n=len(entries), cls=cls, built=built, args=args, kwargs=kwargs, self_=self, snap=_snap(self)))


def ci_call_post(ctx, st, result):
    d = st.data
    tag = f"[{d['which']};table:{d['layout']}]"
    want = "default"
    for (c, subclasses), inst in d["entries"]:  # from the statement: the first entry, in table order, that is for this class (or a base of it when it says so)
        if d["cls"] is c or (subclasses and _is_sub(d["cls"], c)):
            want = inst.cls[len("instantiator "):]
            break
    b = d["built"]
    ok = len(b) == 1 and b[0][0] == want and len(b[0][1]) == 3 and b[0][1][0] is d["cls"] and _same(b[0][1][1], d["args"][0]) and _same(b[0][1][2], d["args"][1]) and set(b[0][2]) == {"lr"} and _same(b[0][2]["lr"], d["kwargs"]["lr"])
    ctx.oblige("post", "exactly-one-object-is-built:by-the-first-entry(in table order)-for-the-class-itself-or,when-the-entry-covers-subclasses,for-a-base-of-it;else-by-the-default;with-the-class-and-the-arguments-as-given" + tag, ok, note=f"{[x[0] for x in b]} vs {want}")
    ctx.oblige("post", "that-object-is-returned" + tag, isinstance(result, Rec) and result.cls == "instance by " + want)
    ctx.oblige("frame", "the-table-and-the-instantiator-object-are-only-read(nothing is remembered for the next call)" + tag, len(d["entries"]) == d["n"] and not _changed(d["self_"], d["snap"]))


def class_instantiator_call_unit(prop):
    return Unit(prop, COMMON + "ClassInstantiator.__call__", ci_call_setup, ci_call_post, _no_exc,
                trusted=["is_subclass(a, b) is issubclass for classes (its own unit)", "an instantiator called with (class, *args, **kwargs) builds the object"])


def ci_init_setup(ctx):
    table = {} if ctx.choose(2, "table-empty") == 1 else {("k", True): Rec("instantiator")}
    self = Rec("ClassInstantiator")
    return Setup(env={"self": self, "instantiators": table}, data=dict(table=table, copy=dict(table), self_=self))


def ci_init_post(ctx, st, result):
    d = st.data
    kept = d["self_"].attrs.get("instantiators")
    ctx.oblige("post", "the-instantiator-holds-exactly-the-entries-handed-in,in-their-order(table order decides which one builds),nothing-else-is-set,the-caller's-table-is-not-written",
               isinstance(kept, dict) and list(kept.items()) == list(d["copy"].items()) and all(kept[k] is d["copy"][k] for k in kept) and set(d["self_"].attrs) == {"instantiators"} and list(d["table"].items()) == list(d["copy"].items()) and result is None)


def class_instantiator_init_unit(prop):
    return Unit(prop, COMMON + "ClassInstantiator.__init__", ci_init_setup, ci_init_post, _no_exc)


def dci_setup(ctx):
    built = []
    fails = ctx.choose(2, "constructor-raises") == 1

    def construct(c, s_, a, k):
        built.append((tuple(a), dict(k)))
        if fails:
            raise PyRaise(ExcVal("TypeError", origin="constructor"))
        return Rec("instance")

    cls = Rec("class K", methods={"__call__": construct})
    args, kwargs = (z3.Int("a0"),), {"b": z3.String("b")}
    return Setup(env={"class_type": cls, "args": args, "kwargs": kwargs}, data=dict(built=built, fails=fails, args=args, kwargs=kwargs, cls=cls))


def dci_check(ctx, d):
    b = d["built"]
    ctx.oblige("post", "the-class-is-called-once,with-exactly-the-arguments-given", len(b) == 1 and len(b[0][0]) == 1 and _same(b[0][0][0], d["args"][0]) and set(b[0][1]) == {"b"} and _same(b[0][1]["b"], d["kwargs"]["b"]))


def dci_post(ctx, st, result):
    dci_check(ctx, st.data)
    ctx.oblige("post", "what-the-class-built-is-returned", isinstance(result, Rec) and result.cls == "instance" and not st.data["fails"])


def dci_raises(ctx, st, exc):
    dci_check(ctx, st.data)
    ctx.oblige("raises", f"only-the-constructor's-own-exception(got {exc.cls}@{exc.origin})", exc.origin == "constructor" and st.data["fails"])


def default_instantiator_unit(prop):
    return Unit(prop, COMMON + "default_class_instantiator", dci_setup, dci_post, dci_raises, expect_cover=("return", "raise:TypeError"))


# ================================================================================================ _formatters: yaml comments (C01)
def _ruyaml_map(name, content, log):
    """A ruyaml CommentedMap: keys in order, nested maps or scalars; every method that would change the *data* is recorded."""
    r = Rec("CommentedMap", attrs={"name": name})
    r.methods.update({
        "keys": lambda c, s_, a, k: list(content), "__getitem__": lambda c, s_, a, k: content[a[0]], "__contains__": lambda c, s_, a, k: a[0] in content,
        "items": lambda c, s_, a, k: list(content.items()), "values": lambda c, s_, a, k: list(content.values()), "get": lambda c, s_, a, k: content.get(a[0], a[1] if len(a) > 1 else None),
        "__isinstance__": lambda c, s_, a, k: a[0] in ("dict", "CommentedMap", "object", "Mapping", "MutableMapping"),
        "yaml_set_start_comment": lambda c, s_, a, k: log.append(("ruyaml-start-comment", s_, tuple(a), dict(k))),
        "yaml_set_comment_before_after_key": lambda c, s_, a, k: log.append(("ruyaml-key-comment", s_, tuple(a), dict(k))),
    })
    for m in ("__setitem__", "__delitem__", "pop", "popitem", "update", "insert", "clear", "setdefault", "move_to_end"):
        r.methods[m] = lambda c, s_, a, k, _m=m: log.append(("DATA-WRITE", s_, _m))
    return r


def yc_setup(ctx):
    with_sub = ctx.choose(2, "parser-has-subcommands") == 1
    described = ctx.choose(2, "parser.description") == 1
    log = []
    scal = {n: z3.Int("value." + n) for n in ("lr", "depth", "hidden", "x", "nohelp")}
    model = _ruyaml_map("model", {"depth": scal["depth"], "hidden": scal["hidden"]}, log)
    content = {"lr": scal["lr"], "model": model, "nohelp": scal["nohelp"]}
    maps = {"": None, "model": model}
    if with_sub:
        fit = _ruyaml_map("fit", {"x": scal["x"]}, log)
        content["fit"] = fit
        maps["fit"] = fit
    root = _ruyaml_map("<root>", content, log)
    maps[""] = root
    SUP = "==SUPPRESS=="
    helps = {"lr": z3.String("help.lr"), "model.depth": z3.String("help.depth"), "model.hidden": SUP, "nohelp": None, "fit.x": z3.String("help.x")}
    actions = {k: Rec("ActionTypeHint", attrs={"dest": k, "help": h}) for k, h in helps.items()}
    loader = Rec("_ActionConfigLoad", attrs={"dest": "model", "help": z3.String("help.model(loader)")})
    sub_action_x = Rec("ActionTypeHint", attrs={"dest": "x", "help": helps["fit.x"]})
    subparser = Rec("ArgumentParser", attrs={"tag": "fit", "description": "fit description", "_subparsers": None,
                                            "_action_groups": [Rec("ArgumentGroup", attrs={"title": "options(fit)", "_group_actions": [sub_action_x]})]})
    subcommands = Rec("_ActionSubCommands", attrs={"dest": "subcommand", "choices": {"fit": subparser}, "help": "h"})
    g_opts = Rec("ArgumentGroup", attrs={"title": "options", "_group_actions": [actions["lr"], actions["nohelp"]] + ([subcommands] if with_sub else [])})
    g_model = Rec("ArgumentGroup", attrs={"title": z3.String("title.model"), "_group_actions": [loader, actions["model.depth"], actions["model.hidden"]]})
    parser = Rec("ArgumentParser", attrs={"tag": "root", "description": z3.String("description") if described else None, "_action_groups": [g_opts, g_model],
                                         "_subparsers": Rec("group", attrs={"_group_actions": [subcommands]}) if with_sub else None})
    text_in, text_out = z3.String("dumped-config"), z3.String("commented-config")
    out = Rec("StringIO", methods={"getvalue": lambda c, s_, a, k: text_out})

    def snapshot():
        return {n: (id(m), list(m.methods["keys"](None, m, (), {}))) for n, m in maps.items()}

    yaml = Rec("ruyaml.YAML", methods={"load": lambda c, s_, a, k: (log.append(("load", a[0])), root)[1], "dump": lambda c, s_, a, k: log.append(("dump", a[0], a[1] if len(a) > 1 else None, snapshot()))})
    ruyaml = Rec("module ruyaml", methods={"YAML": lambda c, s_, a, k: yaml})
    expanded = {}

    def expand_help(c, s_, a, k):
        t = z3.String("expanded(" + a[0].attrs["dest"] + ")")
        expanded[id(a[0])] = t
        log.append(("expand_help", a[0]))
        return t

    self = Rec("DefaultHelpFormatter", methods={
        "_expand_help": expand_help,
        "set_yaml_start_comment": lambda c, s_, a, k: log.append(("start", a[0], a[1])),
        "set_yaml_group_comment": lambda c, s_, a, k: log.append(("group", a[0], a[1], a[2], a[3])),
        "set_yaml_argument_comment": lambda c, s_, a, k: log.append(("argument", a[0], a[1], a[2], a[3])),
    })

    def find_action(c, a, k):
        if a[0] is not parser:
            log.append(("FIND-ON-WRONG-PARSER", a[0]))
            return None
        if a[1] == "fit.x":
            return sub_action_x if with_sub else None
        if a[1] == "model":
            return loader
        return actions.get(a[1])

    import re as _re
    for n in ("ActionConfigFile", "_ActionSubCommands", "_ActionConfigLoad", "ActionTypeHint"):
        ctx.classes.add(n, ["Action"])
    calls = {"import_ruyaml": lambda c, a, k: ruyaml, "parent_parser.get": lambda c, a, k: parser, "filter_default_actions": lambda c, a, k: list(a[0]), "re.sub": lambda c, a, k: _re.sub(*a, **k),
             "_find_action": find_action, "StringIO": lambda c, a, k: out}
    consts = {"SUPPRESS": SUP}
    return Setup(env={"self": self, "cfg": text_in}, calls=calls, consts=consts,
                 data=dict(with_sub=with_sub, described=described, log=log, root=root, maps=maps, model=model, parser=parser, text_in=text_in, text_out=text_out, out=out, snap0=snapshot(), actions=actions,
                           sub_action_x=sub_action_x, expanded=expanded, g_model=g_model, snap_parser=_snap(parser), helps=helps))


def yc_post(ctx, st, result):
    d = st.data
    log = d["log"]
    tag = f"[subcommands={d['with_sub']},description={d['described']}]"
    loads, dumps = [e for e in log if e[0] == "load"], [e for e in log if e[0] == "dump"]
    ctx.oblige("post", "the-text-given-is-loaded-once,the-very-object-loaded-is-dumped-once(last of all),and-the-dumped-text-is-returned" + tag,
               len(loads) == 1 and loads[0][1] is d["text_in"] and len(dumps) == 1 and dumps[0][1] is d["root"] and dumps[0][2] is d["out"] and log[-1] is dumps[0] and result is d["text_out"])
    ctx.oblige("post", "C01:between-load-and-dump-no-item-of-the-configuration(at any depth)-is-set,deleted,moved-or-replaced:only-comments-are-attached" + tag,
               not [e for e in log if e[0] == "DATA-WRITE"] and bool(dumps) and dumps[0][3] == d["snap0"] and not [e for e in log if e[0].startswith("ruyaml-")])
    comments = [e for e in log if e[0] in ("group", "argument")]
    depth_of = {id(d["root"]): 0, id(d["model"]): 1}
    if d["with_sub"]:
        depth_of[id(d["maps"]["fit"])] = 1
    ok = all(isinstance(e[2], Rec) and id(e[2]) in depth_of and e[3] in e[2].methods["keys"](None, e[2], (), {}) and e[4] == depth_of[id(e[2])] for e in comments)
    ctx.oblige("post", "every-comment-is-attached-to-a-key-that-exists-in-the-map-it-is-attached-to,with-that-map's-nesting-depth" + tag, ok)
    where = [(id(e[2]), e[3]) for e in comments]
    ctx.oblige("post", "at-most-one-comment-per-key" + tag, len(where) == len(set(where)))

    def comment_of(m, key):
        return [e for e in comments if e[2] is m and e[3] == key]

    ex = d["expanded"]

    def help_comment(m, key, action):
        """the key carries exactly one argument comment, the action's expanded help - unless the help is the SUPPRESS marker or expands to nothing"""
        got = comment_of(m, key)
        present = len(got) == 1 and got[0][0] == "argument" and got[0][1] is ex.get(id(action))
        h = lift(action.attrs["help"])
        if id(action) not in ex:
            return z3.And(z3.BoolVal(not got), h == S_("==SUPPRESS=="))
        return z3.If(z3.And(h != S_("==SUPPRESS=="), z3.Length(ex[id(action)]) > 0), z3.BoolVal(present), z3.BoolVal(not got))

    ctx.oblige("post", "an-argument-with-help-gets-its-own-expanded-help-as-an-argument-comment(top level and inside a group;ALL help strings:none for the SUPPRESS marker or an empty text)" + tag,
               z3.And(help_comment(d["root"], "lr", d["actions"]["lr"]), help_comment(d["model"], "depth", d["actions"]["model.depth"])), strings=True)
    ctx.oblige("post", "a-hidden-argument-and-one-without-help-get-no-comment" + tag, not comment_of(d["model"], "hidden") and not comment_of(d["root"], "nohelp"))
    grp = comment_of(d["root"], "model")
    title = d["g_model"].attrs["title"]
    ctx.oblige("post", "a-group's-section-gets-the-group's-title-as-a-group-comment(none for an empty title;never the help of its loader option)" + tag,
               z3.If(z3.Length(title) > 0, z3.BoolVal(len(grp) == 1 and grp[0][0] == "group" and grp[0][1] is title), z3.BoolVal(not grp)), strings=True)
    if d["with_sub"]:
        ctx.oblige("post", "an-argument-of-a-subcommand-gets-its-help-inside-the-subcommand's-section" + tag, help_comment(d["maps"]["fit"], "x", d["sub_action_x"]), strings=True)
    starts = [e for e in log if e[0] == "start"]
    if d["described"]:
        ctx.oblige("post", "the-parser's-description-is-the-start-comment-of-the-document" + tag, len(starts) == 1 and starts[0][1] is d["parser"].attrs["description"] and starts[0][2] is d["root"])
    else:
        ctx.oblige("post", "no-description=>no-start-comment" + tag, not starts)
    ctx.oblige("frame", "the-parser-is-only-read(found through the context variable,never another parser)" + tag, not _changed(d["parser"], d["snap_parser"]) and not [e for e in log if e[0] == "FIND-ON-WRONG-PARSER"])


def yaml_comments_unit(prop):
    return Unit(prop, FMT + "DefaultHelpFormatter.add_yaml_comments", yc_setup, yc_post, _no_exc,
                trusted=["ruyaml round-trips a document it loaded: dumping the loaded object without touching its items reproduces the data lines; attached comments are emitted as '#' lines only",
                         "set_yaml_*_comment attach one comment (their own units)", "_find_action / _expand_help / filter_default_actions by their own contracts", "re.sub evaluated by CPython on concrete keys"])


def _sy_setup(kind):
    def setup(ctx):
        log = []
        cfg = _ruyaml_map("section", {"k": z3.Int("v"), "other": z3.Int("w")}, log)
        text, depth = z3.String("text"), z3.Int("depth")
        env = {"self": Rec("DefaultHelpFormatter"), "text": text, "cfg": cfg}
        if kind != "start":
            env.update(key=z3.String("key"), depth=depth)
        return Setup(env=env, data=dict(log=log, cfg=cfg, text=text, depth=depth, key=env.get("key")))
    return setup


def _sy_post(kind):
    def post(ctx, st, result):
        d = st.data
        log = d["log"]
        ok = len(log) == 1 and log[0][1] is d["cfg"] and log[0][0] == ("ruyaml-start-comment" if kind == "start" else "ruyaml-key-comment")
        ctx.oblige("post", "C01:exactly-one-ruyaml-comment-call-on-the-map-given;no-item-of-the-map-is-written", ok)
        if not ok:
            return
        a, k = log[0][2], log[0][3]
        if kind == "start":
            ctx.oblige("post", "the-start-comment-is-the-text-given", len(a) + len(k) == 1 and _same((list(a) + list(k.values()))[0], d["text"]))
        else:
            ok = len(a) == 1 and _same(a[0], d["key"]) and set(k) == {"before", "indent"} and is_z3(k["before"]) and is_z3(k["indent"])
            ctx.oblige("post", "the-comment-goes-before-the-key-given(never after it:a comment after a key would follow its value on the data line)", ok)
            if ok:
                ctx.oblige("post", "its-text-is-a-blank-line-followed-by-the-text-given,indented-by-two-columns-per-nesting-level", z3.And(k["before"] == z3.Concat(S_("\n"), d["text"]), k["indent"] == 2 * d["depth"]), strings=True)
    return post


def yaml_comment_setter_units(prop):
    return [Unit(prop, FMT + "DefaultHelpFormatter.set_yaml_" + kind + "_comment", _sy_setup(kind), _sy_post(kind), _no_exc,
                 trusted=["CommentedMap.yaml_set_start_comment / yaml_set_comment_before_after_key attach comment tokens, items are not changed (ruyaml)"]) for kind in ("start", "group", "argument")]


# ================================================================================================ _formatters: help strings
EMPTY_HELP = "_EMPTY_HELP_"


def ghs_setup(ctx):
    kind = ["plain", "typehint", "config-file", "help-action"][ctx.choose(4, "action")]
    for n in ("ActionConfigFile", "ActionTypeHint"):
        ctx.classes.add(n, ["Action"])
    ctx.classes.add("_HelpAction", ["Action"])
    h = z3.String("help")
    extra = z3.String("extra_help")
    if kind == "help-action":
        text = ["show this help message and exit", "Show help.", "x"][ctx.choose(3, "help-text")]
        action = Rec("_HelpAction", attrs={"help": text, "default": "==SUPPRESS==", "option_strings": ["-h", "--help"], "nargs": 0, "dest": "help"})
        dims = dict(text=text)
    elif kind == "config-file":
        empty = ctx.choose(2, "help-is-the-empty-marker") == 1
        action = Rec("ActionConfigFile", attrs={"help": EMPTY_HELP if empty else h, "default": None, "option_strings": ["--cfg"], "nargs": None, "dest": "cfg", "_required": True})
        dims = dict(empty=empty)
    else:
        required = [("no-attribute" if kind == "plain" else "False"), "True"][ctx.choose(2, "_required")]  # no attribute at all (argparse's own actions) counts as not required
        default = ["None", "SUPPRESS", "value"][ctx.choose(3, "default")]
        optional = ctx.choose(2, "positional") == 0
        nargs = None if optional else [None, "?", "*"][ctx.choose(3, "nargs")]
        type_str = [None, "int"][ctx.choose(2, "type-known")]
        empty = False  # ALL help strings, the 'no help given' marker among them (the path forks on it)
        attrs = {"help": EMPTY_HELP if empty else h, "default": {"None": None, "SUPPRESS": "==SUPPRESS==", "value": z3.Int("default")}[default], "option_strings": ["--x"] if optional else [], "nargs": nargs, "dest": "x"}
        if required != "no-attribute":
            attrs["_required"] = required == "True"
        action = Rec("ActionTypeHint" if kind == "typehint" else "Action", attrs=attrs, methods={"extra_help": lambda c, s_, a, k: extra} if kind == "typehint" else {})
        dims = dict(required=required == "True", default=default, optional=optional, nargs=nargs, type_str=type_str, empty=empty)
    self = Rec("DefaultHelpFormatter", methods={"_get_type_str": lambda c, s_, a, k: dims.get("type_str")})
    consts = {"empty_help": EMPTY_HELP, "SUPPRESS": "==SUPPRESS==", "OPTIONAL": "?", "ZERO_OR_MORE": "*"}
    return Setup(env={"self": self, "action": action}, consts=consts, data=dict(kind=kind, dims=dims, h=h, extra=extra, action=action, snap=_snap(action)), watch={"help": h})


def ghs_post(ctx, st, result):
    d = st.data
    kind, m, h = d["kind"], d["dims"], d["h"]
    tag = f"[{kind},{ {k: v for k, v in m.items()} }]"
    ctx.oblige("frame", "the-action-is-only-read" + tag, not _changed(d["action"], d["snap"]) and not ctx.mutlog)
    if kind == "help-action":
        want = {"show this help message and exit": "Show this help message and exit.", "Show help.": "Show help.", "x": "X."}[m["text"]]
        ctx.oblige("post", "the-help-option's-text-is-capitalised-and-ends-with-one-full-stop" + tag, result == want)
        return
    base = S_(" ") if m["empty"] else z3.If(h == S_(EMPTY_HELP), S_(" "), h)  # the marker 'no help given' is shown as a blank
    if kind == "config-file":
        ctx.oblige("post", "a-config-file-option-shows-its-help-text-as-written(no required / default marker: it has no default to show)" + tag, lift(result) == base, strings=True)
        return

    def expected(has_type_ref, has_default_ref):
        parts = []
        if m["required"]:
            parts.append("required")
        if not has_type_ref and m["type_str"] is not None:
            parts.append("type: %(type)s")
        shows_default = m["default"] != "SUPPRESS" and (m["default"] != "None" or not m["required"]) and (m["optional"] or m["nargs"] in ("?", "*"))
        if not has_default_ref and shows_default:  # 'default values are always included' - for everything that can be left out on the command line
            parts.append("default: %(default)s")
        inner = S_(", ".join(parts))
        if kind == "typehint":
            inner = z3.Concat(inner, d["extra"])
        return z3.Concat(base, z3.If(z3.Length(inner) > 0, z3.Concat(S_(" ("), inner, S_(")")), S_("")))

    if m["empty"]:
        goal = lift(result) == expected(False, False)
    else:
        ct, cd = z3.Contains(base, S_("%(type)")), z3.Contains(base, S_("%(default)"))
        goal = z3.And(*[z3.Implies(z3.And(ct == bool(a), cd == bool(b)), lift(result) == expected(a, b)) for a in (0, 1) for b in (0, 1)])
    ctx.oblige("post", "the-help-text-as-written,then-in-brackets:required(if so),the-type(if known and not already referenced),the-default(always,for what may be left out;not a suppressed one,not None for a required one;not if already referenced),the-type's-extra-help" + tag,
               goal, strings=True)


def get_help_string_unit(prop):
    return Unit(prop, FMT + "DefaultHelpFormatter._get_help_string", ghs_setup, ghs_post, _no_exc, max_paths=20000,
                trusted=["_get_type_str / ActionTypeHint.extra_help return the type's name and extra text (their own contracts)"])


def fai_setup(ctx):
    kinds = ["subcommands", "positional", "option", "help-option", "print-config-option", "class-help-option", "shtab-option", "no-parser-in-context"]
    kind = kinds[ctx.choose(len(kinds), "action")]
    for n, b in (("_HelpAction", "Action"), ("ShtabAction", "Action"), ("_ActionSubCommands", "Action"), ("_ActionHelpClassPath", "Action"), ("_ActionPrintConfig", "Action"), ("ActionTypeHint", "Action")):
        ctx.classes.add(n, [b])
    cls = {"subcommands": "_ActionSubCommands", "positional": "ActionTypeHint", "option": "ActionTypeHint", "help-option": "_HelpAction", "print-config-option": "_ActionPrintConfig", "class-help-option": "_ActionHelpClassPath",
           "shtab-option": "ShtabAction", "no-parser-in-context": "ActionTypeHint"}[kind]
    action = Rec(cls, attrs={"dest": "x", "option_strings": [] if kind in ("positional", "subcommands") else ["--x"]})
    default_env = z3.Bool("default_env")
    parser = None if kind == "no-parser-in-context" else Rec("ArgumentParser", attrs={"default_env": default_env, "env_prefix": "APP"})
    inv, envname = z3.String("argparse-invocation"), z3.String("ENV-NAME")
    log = []
    self = Rec("DefaultHelpFormatter")
    calls = {"parent_parser.get": lambda c, a, k: parser, "get_env_var": lambda c, a, k: (log.append(("get_env_var", tuple(a))), envname)[1],
             "super": lambda c, a, k: Rec("super()", methods={"_format_action_invocation": lambda c2, s2, a2, k2: (log.append(("argparse", tuple(a2))), inv)[1]})}
    return Setup(env={"self": self, "action": action}, calls=calls, data=dict(kind=kind, action=action, parser=parser, default_env=default_env, inv=inv, envname=envname, log=log, self_=self,
                                                                                 snap_a=_snap(action), snap_p=_snap(parser) if parser else None))


def fai_post(ctx, st, result):
    d = st.data
    kind, env, inv, E = d["kind"], d["default_env"], d["inv"], d["envname"]
    tag = f"[{kind}]"
    ctx.oblige("post", "answered=>a-parser-is-in-context" + tag, d["parser"] is not None)
    if d["parser"] is None:
        return
    if kind == "subcommands":
        want = z3.If(env, z3.Concat(S_("ENV:   "), E, S_("\n\n  Available subcommands:")), S_("Available subcommands:"))
    elif kind == "positional":
        want = inv
    elif kind == "option":
        want = z3.If(env, z3.Concat(S_("ARG:   "), inv, S_("\n  ENV:   "), E), inv)
    else:
        want = z3.If(env, z3.Concat(S_("ARG:   "), inv), inv)  # options that cannot come from the environment show no ENV: line
    ctx.oblige("post", "with-default_env:options-are-preceded-by-ARG:-and-followed-by-ENV:+their-environment-variable(not help/print-config/class-help/completion options);positionals-and-parsers-without-default_env:argparse's-text" + tag,
               lift(result) == want, strings=True)
    ok = all(e[1] == (d["self_"], d["action"]) if e[0] == "get_env_var" else e[1] == (d["action"],) for e in d["log"])
    ctx.oblige("post", "the-variable-name-shown-is-the-one-computed-for-this-very-action(the name the environment is read by)" + tag, ok)
    ctx.oblige("frame", "action-and-parser-are-only-read" + tag, not _changed(d["action"], d["snap_a"]) and not _changed(d["parser"], d["snap_p"]) and not ctx.mutlog)


def fai_raises(ctx, st, exc):
    d = st.data
    ctx.oblige("raises", f"only-the-assertion-that-a-parser-is-in-context(got {exc.cls})[{d['kind']}]", exc.cls == "AssertionError" and d["parser"] is None)


def format_action_invocation_unit(prop):
    return Unit(prop, FMT + "DefaultHelpFormatter._format_action_invocation", fai_setup, fai_post, fai_raises, expect_cover=("return", "raise:AssertionError"),
                trusted=["get_env_var(formatter, action) is the name _load_env_vars reads (env_var_unit)", "argparse's _format_action_invocation (super()) renders the option strings and metavar"])


def units(prop):
    return [
        parser_mode_unit(prop), default_meta_unit(prop), dump_header_unit(prop), parser_init_unit(prop), container_init_unit(prop), format_help_unit(prop), print_usage_unit(prop),
        check_config_unit(prop), set_parsing_settings_unit(prop), get_parsing_setting_unit(prop), debug_mode_unit(prop),
        class_instantiator_init_unit(prop), class_instantiator_call_unit(prop), default_instantiator_unit(prop),
        add_subparsers_unit(prop), check_suppressed_unit(prop), parse_optional_unit(prop), add_argument_group_unit(prop),
        yaml_comments_unit(prop), get_help_string_unit(prop), format_action_invocation_unit(prop),
    ] + yaml_comment_setter_units(prop)


CARRIES = {
    "C09": ["ArgumentParser.parser_mode[setter+getter]", "ArgumentParser.default_meta[setter+getter]", "ArgumentParser.dump_header[setter+getter]", "ArgumentParser.__init__", "ActionsContainer.__init__",
            "ArgumentParser.format_help", "ArgumentParser.print_usage", "set_parsing_settings", "get_parsing_setting", "debug_mode_active",
            "ClassInstantiator.__init__", "ClassInstantiator.__call__", "default_class_instantiator",
            "DefaultHelpFormatter._get_help_string", "DefaultHelpFormatter._format_action_invocation"],
    "C06": ["ArgumentParser._parse_optional", "ActionsContainer.add_argument_group", "ArgumentParser.add_subparsers", "ParserDeprecations.check_config", "get_parsing_setting"],
    "C04": ["check_suppressed_default"],
    "C01": ["ArgumentParser.dump_header[setter+getter]", "DefaultHelpFormatter.add_yaml_comments", "DefaultHelpFormatter.set_yaml_start_comment", "DefaultHelpFormatter.set_yaml_group_comment",
            "DefaultHelpFormatter.set_yaml_argument_comment"],
}
