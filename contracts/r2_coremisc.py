"""Round 2 - parser construction / configuration (jsonargparse/_core.py), process-wide settings and instantiators
(jsonargparse/_common.py), help / comment formatting (jsonargparse/_formatters.py).

Parsers, groups and actions are records (Rec) named after the real classes.  Unless said otherwise the values handed in are symbolic
(all strings / all integers) and the *shapes* (None, list, wrong type, with / without subcommands ...) are enumerated.

C09 (configuring one parser changes that parser only; setters refuse before they change anything; help leaves no trace)
  ArgumentParser.parser_mode [setter+getter]   ALL mode strings against a loader table: accepted iff registered (omegaconf after its lazy registration);
                               then the mode is what the getter returns and every subcommand parser received exactly that mode through its own setter;
                               refused (ValueError for an unknown mode, the import error of a missing jsonnet) => nothing of the parser or its subparsers changed
  ArgumentParser.default_meta [setter+getter]  a bool is stored and read back; anything else ValueError, old value stays; no other attribute written
  ArgumentParser.dump_header [setter+getter]   None or a list of str is stored as given (same object) and read back; str / tuple / list with a non-str
                               refused with ValueError, old value stays  (C01: each header line is one comment line - a line break inside a line is NOT refused: reported)
  ArgumentParser.__init__      every setting goes through its validating property with the value given for *that* setting; per-parser containers
                               (groups, required_args, save_path_content) are new empty objects of this parser; nothing but self is written;
                               --version only when asked, with the text given
  ActionsContainer.__init__    base initialiser first, with the caller's arguments; then exactly the three registrations the parser relies on
  ArgumentParser.format_help   rendered inside a context holding this parser and *this call's* defaults (None without default config files);
                               the context is closed on every exit; a failing get_defaults is reported in the note, not raised; only the help group's note is written
  ArgumentParser.print_usage   same for the usage: context open during, closed on every exit, arguments passed through, nothing written
  ParserDeprecations.check_config   is validate with exactly the caller's arguments, result passed back, nothing else called
  set_parsing_settings / get_parsing_setting   only the documented key of the settings table is written, only for a bool; None changes nothing;
                               anything else ValueError with the table untouched; reading an unknown name (ALL strings) is ValueError, a known one its value
  debug_mode_active            ALL values of JSONARGPARSE_DEBUG: active iff set to something other than '', false, no, 0 (any case); reads only
C06
  ArgumentParser._parse_optional   ALL tokens: the nested-option reading (parse_argv_item) when there is one, else argparse's reading of the very token
                               (of token + '=' exactly for the print-config option, so that it takes no following token); nothing written
  ActionsContainer.add_argument_group   ALL names against the declared groups: a duplicate name is refused (ValueError) before a group is built or anything
                               registered; else exactly one new group, built for the *parser* (also when called on a group), appended last, registered under
                               exactly its name (no name: not registered); other groups stay
  ArgumentParser.add_subparsers    always NotImplementedError, nothing registered
  get_default.<locals>.check_suppressed_default   NSKeyError exactly for the suppressed default (ALL string defaults), else silent; reads only
C16-side (instantiators; carried under C09: instantiation does not depend on earlier calls)
  ClassInstantiator.__init__ / __call__ / default_class_instantiator   the table handed in is kept (same object) and never written; the first entry (in
                               table order) whose class is the requested class, or a base of it when the entry says subclasses, builds the object, else the
                               default; arguments passed through unchanged; exactly one construction
C01 (comments never change the data lines)
  DefaultHelpFormatter.add_yaml_comments   the object dumped is the very object loaded from the text; between load and dump only comment-setting methods
                               are called on it and on its nested maps (no item is set, deleted or reordered); one comment per key at most
  set_yaml_start_comment / set_yaml_group_comment / set_yaml_argument_comment   exactly one ruyaml comment call, for the key and text given, indent 2*depth
C09
  DefaultHelpFormatter._get_help_string / _format_action_invocation   what the text contains (required / type / default markers, ARG: / ENV: with default_env);
                               the action and the parser are only read
"""
import ast

import z3

from pyvc.engine import ClassRef, Env, ExcVal, Fn, Interp, PyRaise, Rec, ReturnSignal, Unsupported, is_z3, lift
from pyvc.units import Setup, Unit, load_module

CORE = "jsonargparse._core:"
COMMON = "jsonargparse._common:"
FMT = "jsonargparse._formatters:"
S_ = z3.StringVal


def _no_exc(ctx, st, exc):
    ctx.oblige("raises", f"never-raises(got {exc.cls}@{exc.origin})", False)


def _snap(rec):
    """What a record's attributes are bound to, and the content of its containers one level down."""
    out = {}
    for k, v in rec.attrs.items():
        if isinstance(v, (list, tuple)):
            out[k] = (id(v), [id(x) if isinstance(x, (Rec, list, dict, set)) or is_z3(x) else x for x in v])
        elif isinstance(v, dict):
            out[k] = (id(v), {kk: id(x) if isinstance(x, (Rec, list, dict, set)) or is_z3(x) else x for kk, x in v.items()})
        elif isinstance(v, (set, frozenset)):
            out[k] = (id(v), sorted(map(repr, v)))
        elif isinstance(v, Rec) or is_z3(v):
            out[k] = id(v)
        else:
            out[k] = v
    return out


def _changed(rec, snap, allow=()):
    now = _snap(rec)
    return sorted(k for k in set(now) | set(snap) if k not in allow and (k not in now or k not in snap or now[k] != snap[k]))


def run_getter(ctx, cls, name, self_rec, mod="jsonargparse._core"):
    """The property's *getter* (the first definition of the name, decorated with @property; units address the last definition, the
    setter): its real body is interpreted on the record the setter left -> (found, value)."""
    src, tree, path = load_module(mod)
    for c in tree.body:
        if isinstance(c, ast.ClassDef) and c.name == cls:
            for f in c.body:
                if isinstance(f, ast.FunctionDef) and f.name == name and any(ast.unparse(d) == "property" for d in f.decorator_list):
                    interp = Interp(ctx, f, calls={}, consts={})
                    try:
                        interp.exec_block(f.body, Env({"self": self_rec}))
                    except ReturnSignal as r:
                        return True, r.value
                    return True, None
    return False, None


def _same(a, b):
    if is_z3(a) and is_z3(b):
        return a.eq(b)
    return a is b


# ================================================================================================ parser_mode (setter + getter)
LOADERS0 = ("yaml", "json", "toml", "jsonnet")


def pm_setup(ctx):
    shape = ["no-subcommands", "two-subcommands(one aliased)", "subcommands-action-without-parsers"][ctx.choose(3, "subcommands")]
    omegaconf = ctx.choose(2, "omegaconf-installed") == 1
    jsonnet = ctx.choose(2, "jsonnet-installed") == 1
    mode = z3.String("parser_mode")
    table = {n: Rec("loader " + n) for n in LOADERS0}
    assigned = []

    def sub(name):
        r = Rec("ArgumentParser", attrs={"_parser_mode": "yaml", "tag": name})
        r.methods["__setattr__"] = lambda c, s_, a, k: assigned.append((s_, a[0], a[1]))  # the property of the sub-parser: this same contract
        return r

    fit, test = sub("fit"), sub("test")
    npm = {"fit": fit, "test": test, "t": test}
    if shape == "no-subcommands":
        action = None
    elif shape.startswith("two"):
        action = Rec("_ActionSubCommands", attrs={"_name_parser_map": npm})
    else:
        action = Rec("_ActionSubCommands", attrs={"_name_parser_map": {}})
    other = Rec("ArgumentParser", attrs={"_parser_mode": "yaml", "tag": "another parser"})
    self = Rec("ArgumentParser", attrs={"_parser_mode": "json", "_subcommands_action": action, "_default_meta": True})

    def set_omegaconf_loader(c, a, k):
        c.event("set_omegaconf_loader")
        if omegaconf and "omegaconf" not in table:
            table["omegaconf"] = Rec("loader omegaconf")  # the documented global: the loader is registered on first use

    def import_jsonnet(c, a, k):
        c.event("import_jsonnet")
        if not jsonnet:
            raise PyRaise(ExcVal("ImportError", origin="import_jsonnet"))
        return Rec("module _jsonnet")

    calls = {"set_omegaconf_loader": set_omegaconf_loader, "import_jsonnet": import_jsonnet}
    return Setup(env={"self": self, "parser_mode": mode}, calls=calls, consts={"loaders": table},
                 data=dict(shape=shape, omegaconf=omegaconf, jsonnet=jsonnet, mode=mode, table=table, assigned=assigned, fit=fit, test=test, other=other, self_=self,
                           snap=_snap(self), snap_other=_snap(other), snap_action=_snap(action) if action else None, action=action, npm_keys=list(npm)), watch={"mode": mode})


def _registered(d):
    names = list(LOADERS0) + (["omegaconf"] if d["omegaconf"] else [])
    return z3.Or(*[d["mode"] == S_(n) for n in names])


def pm_post(ctx, st, result):
    d = st.data
    tag = f"[{d['shape']},omegaconf={d['omegaconf']},jsonnet={d['jsonnet']}]"
    mode = d["mode"]
    ctx.oblige("post", "accepted=>the-mode-is-a-registered-loader(omegaconf: once installed)" + tag, _registered(d))
    ctx.oblige("post", "accepted-jsonnet=>the-jsonnet-package-is-there" + tag, z3.Implies(mode == S_("jsonnet"), z3.BoolVal(d["jsonnet"])))
    got = d["self_"].attrs.get("_parser_mode")
    ctx.oblige("post", "the-parser's-mode-is-the-mode-given" + tag, is_z3(got) and got.eq(mode))
    found, read = run_getter(ctx, "ArgumentParser", "parser_mode", d["self_"])
    ctx.oblige("post", "the-getter-reads-back-the-mode-given" + tag, found and is_z3(read) and read.eq(mode))
    want = [d["fit"], d["test"], d["test"]] if d["shape"].startswith("two") else []
    ok = len(d["assigned"]) == len(want) and all(s is w and n == "parser_mode" and is_z3(v) and v.eq(mode) for (s, n, v), w in zip(d["assigned"], want))
    ctx.oblige("post", "every-subcommand-parser-receives-exactly-that-mode-through-its-own-property(no other parser does)" + tag, ok, note=str(d["assigned"]))
    ctx.oblige("frame", "no-other-attribute-of-the-parser-is-written;another-parser-and-the-subcommands-action-are-untouched" + tag,
               not _changed(d["self_"], d["snap"], allow=("_parser_mode",)) and not _changed(d["other"], d["snap_other"]) and (d["action"] is None or not _changed(d["action"], d["snap_action"])))
    ctx.oblige("frame", "the-loader-table-gains-at-most-the-omegaconf-loader(the documented lazy registration),only-when-that-mode-is-asked-for" + tag,
               set(d["table"]) - set(LOADERS0) <= {"omegaconf"} and all(n in d["table"] for n in LOADERS0) and z3.Implies(mode != S_("omegaconf"), z3.BoolVal("omegaconf" not in d["table"])))


def pm_raises(ctx, st, exc):
    d = st.data
    tag = f"[{d['shape']},omegaconf={d['omegaconf']},jsonnet={d['jsonnet']}]"
    mode = d["mode"]
    if exc.cls == "ValueError":
        ctx.oblige("raises", "ValueError=>the-mode-is-not-a-registered-loader" + tag, z3.Not(_registered(d)))
    else:
        ctx.oblige("raises", f"otherwise-only-the-import-error-of-a-missing-jsonnet-package(got {exc.cls}@{exc.origin})" + tag,
                   z3.And(z3.BoolVal(exc.origin == "import_jsonnet" and not d["jsonnet"]), mode == S_("jsonnet")))
    ctx.oblige("frame", "refused=>nothing-changed:the-parser-keeps-its-mode,no-subcommand-parser-was-told,no-other-attribute-written" + tag,
               not _changed(d["self_"], d["snap"]) and not d["assigned"] and not _changed(d["other"], d["snap_other"]))


def parser_mode_unit(prop):
    return Unit(prop, CORE + "ArgumentParser.parser_mode", pm_setup, pm_post, pm_raises, label="setter+getter", expect_cover=("return", "raise:ValueError", "raise:ImportError"),
                trusted=["set_omegaconf_loader registers the omegaconf loader iff the package is installed (its own unit)", "import_jsonnet raises ImportError iff the package is missing",
                         "assigning parser_mode on a subcommand parser runs this same setter (recursion by contract)"])


# ================================================================================================ default_meta / dump_header (setter + getter)
def dm_setup(ctx):
    kind = ["bool", "None", "int", "str", "list"][ctx.choose(5, "value")]
    value = {"bool": z3.Bool("default_meta"), "None": None, "int": z3.Int("n"), "str": z3.String("s"), "list": [True]}[kind]
    old = z3.Bool("old_default_meta")
    self = Rec("ArgumentParser", attrs={"_default_meta": old, "_default_env": False, "_parser_mode": "yaml", "_dump_header": None})
    return Setup(env={"self": self, "default_meta": value}, data=dict(kind=kind, value=value, old=old, self_=self, snap=_snap(self)))


def dm_post(ctx, st, result):
    d = st.data
    ctx.oblige("post", f"accepted=>a-bool[{d['kind']}]", d["kind"] == "bool")
    ctx.oblige("post", f"the-value-given-is-stored[{d['kind']}]", _same(d["self_"].attrs.get("_default_meta"), d["value"]))
    found, read = run_getter(ctx, "ArgumentParser", "default_meta", d["self_"])
    ctx.oblige("post", f"the-getter-reads-it-back[{d['kind']}]", found and _same(read, d["value"]))
    ctx.oblige("frame", f"no-other-attribute-is-written[{d['kind']}]", not _changed(d["self_"], d["snap"], allow=("_default_meta",)))


def dm_raises(ctx, st, exc):
    d = st.data
    ctx.oblige("raises", f"refused=>ValueError-for-a-non-bool;the-previous-value-stays,nothing-written[{d['kind']}]", exc.cls == "ValueError" and d["kind"] != "bool" and not _changed(d["self_"], d["snap"]))


def default_meta_unit(prop):
    return Unit(prop, CORE + "ArgumentParser.default_meta", dm_setup, dm_post, dm_raises, label="setter+getter", expect_cover=("return", "raise:ValueError"))


DH_KINDS = ["None", "empty-list", "list-of-str", "list-with-an-int", "list-with-None", "a-str", "tuple-of-str", "int"]


def dh_setup(ctx):
    kind = DH_KINDS[ctx.choose(len(DH_KINDS), "value")]
    l1, l2 = z3.String("line1"), z3.String("line2")
    value = {"None": None, "empty-list": [], "list-of-str": [l1, l2], "list-with-an-int": [l1, z3.Int("n")], "list-with-None": [l1, None], "a-str": z3.String("header"), "tuple-of-str": (l1, l2), "int": 3}[kind]
    old = ["old header"]
    self = Rec("ArgumentParser", attrs={"_dump_header": old, "_default_meta": True, "_parser_mode": "yaml"})
    content = list(value) if isinstance(value, list) else None
    return Setup(env={"self": self, "dump_header": value}, data=dict(kind=kind, value=value, content=content, old=old, self_=self, snap=_snap(self), lines=(l1, l2)))


def dh_post(ctx, st, result):
    d = st.data
    tag = f"[{d['kind']}]"
    ctx.oblige("post", "accepted=>None-or-a-list-of-strings" + tag, d["kind"] in ("None", "empty-list", "list-of-str"))
    ctx.oblige("post", "the-header-given-is-stored(the same object,its-lines-untouched)" + tag, d["self_"].attrs.get("_dump_header") is d["value"] and (d["content"] is None or (len(d["value"]) == len(d["content"]) and all(_same(x, y) for x, y in zip(d["value"], d["content"])))))
    found, read = run_getter(ctx, "ArgumentParser", "dump_header", d["self_"])
    ctx.oblige("post", "the-getter-reads-it-back" + tag, found and read is d["value"])
    ctx.oblige("frame", "no-other-attribute-is-written" + tag, not _changed(d["self_"], d["snap"], allow=("_dump_header",)))
    if d["kind"] == "list-of-str":
        # C01: the dumper writes '# ' + line per header line; a line holding a line break continues as a *data* line of the dump
        nl = z3.Or(*[z3.Or(z3.Contains(x, S_("\n")), z3.Contains(x, S_("\r"))) for x in d["lines"]])
        ctx.oblige("post", "C01:accepted=>every-header-line-is-one-line(no line break:each line becomes exactly one comment line of the dump)" + tag, z3.Not(nl), strings=True)


def dh_raises(ctx, st, exc):
    d = st.data
    ctx.oblige("raises", f"refused=>ValueError-for-anything-but-None-or-a-list-of-strings;the-previous-header-stays,nothing-written[{d['kind']}]",
               exc.cls == "ValueError" and d["kind"] not in ("None", "empty-list", "list-of-str") and not _changed(d["self_"], d["snap"]) and d["old"] == ["old header"])


def dump_header_unit(prop):
    return Unit(prop, CORE + "ArgumentParser.dump_header", dh_setup, dh_post, dh_raises, label="setter+getter", expect_cover=("return", "raise:ValueError"),
                trusted=["dump_using_format writes comment-prefix + line for every header line (its own unit, r2_loaders)"])


# ================================================================================================ add_subparsers / check_suppressed_default
def asp_setup(ctx):
    self = Rec("ArgumentParser", attrs={"_subparsers": None, "_subcommands_action": None, "_actions": [Rec("Action")]})
    kw = {"dest": z3.String("dest")} if ctx.choose(2, "keywords") == 1 else {}
    def base_add_subparsers(c, s_, a, k):  # argparse's own method (what the override keeps callers away from): registers a sub-parsers action
        self.attrs["_subparsers"] = Rec("_SubParsersAction")
        return self.attrs["_subparsers"]

    return Setup(env={"self": self, "kwargs": kw}, calls={"super": lambda c, a, k: Rec("super()", methods={"add_subparsers": base_add_subparsers})}, data=dict(self_=self, snap=_snap(self)))


def asp_post(ctx, st, result):
    ctx.oblige("post", "never-returns(argparse-style sub-parsers are refused: they would bypass the key checks of add_subcommands)", False)


def asp_raises(ctx, st, exc):
    d = st.data
    ctx.oblige("raises", f"always-NotImplementedError,nothing-registered(got {exc.cls})", exc.cls == "NotImplementedError" and not _changed(d["self_"], d["snap"]) and not ctx.mutlog)


def add_subparsers_unit(prop):
    return Unit(prop, CORE + "ArgumentParser.add_subparsers", asp_setup, asp_post, asp_raises, expect_cover=("raise:NotImplementedError",))


SUPPRESS = "==SUPPRESS=="


def csd_setup(ctx):
    kind = ["str", "None", "int", "object", "SUPPRESS"][ctx.choose(5, "action.default")]
    default = {"str": z3.String("default"), "None": None, "int": z3.Int("default_int"), "object": Rec("Namespace"), "SUPPRESS": SUPPRESS}[kind]
    action = Rec("Action", attrs={"dest": "grp.k", "default": default})
    return Setup(env={"action": action, "dest": z3.String("dest")}, consts={"argparse.SUPPRESS": SUPPRESS}, data=dict(kind=kind, default=default, action=action, snap=_snap(action)),
                 watch={"default": default} if is_z3(default) else {})


def csd_post(ctx, st, result):
    d = st.data
    if d["kind"] == "str":
        ctx.oblige("post", "silent=>the-default-is-not-the-suppress-marker[str]", d["default"] != S_(SUPPRESS))
    else:
        ctx.oblige("post", f"silent=>the-default-is-not-the-suppress-marker[{d['kind']}]", d["kind"] != "SUPPRESS")
    ctx.oblige("frame", f"the-action-is-only-read[{d['kind']}]", result is None and not _changed(d["action"], d["snap"]) and not ctx.mutlog)


def csd_raises(ctx, st, exc):
    d = st.data
    if d["kind"] == "str":
        ctx.oblige("raises", "NSKeyError=>the-default-is-the-suppress-marker[str]", z3.And(z3.BoolVal(exc.cls == "NSKeyError"), d["default"] == S_(SUPPRESS)))
    else:
        ctx.oblige("raises", f"NSKeyError-exactly-for-a-suppressed-default[{d['kind']}](got {exc.cls})", exc.cls == "NSKeyError" and d["kind"] == "SUPPRESS")
    ctx.oblige("frame", f"the-action-is-only-read[{d['kind']}]", not _changed(d["action"], d["snap"]) and not ctx.mutlog)


def check_suppressed_unit(prop):
    return Unit(prop, CORE + "ArgumentParser.get_default.<locals>.check_suppressed_default", csd_setup, csd_post, csd_raises, expect_cover=("return", "raise:NSKeyError"),
                trusted=["argparse.SUPPRESS is a string marker compared by value"])


# ================================================================================================ _parse_optional
argparse_reading = z3.Function("argparse._parse_optional", z3.StringSort(), z3.IntSort())


def po_setup(ctx):
    pc_kind = ["--print_config", "None(disabled)", "custom"][ctx.choose(3, "print_config-option")]
    print_config = {"--print_config": "--print_config", "None(disabled)": None, "custom": z3.String("print_config_option")}[pc_kind]
    nested = ctx.choose(2, "token-is-a-declared-nested-option-prefix") == 1
    token = z3.String("arg_string")
    nested_reading = (Rec("Action(nested)"), z3.String("nested_option"), z3.String("nested_value"))
    seen = []

    def parse_argv_item(c, a, k):
        c.event("parse_argv_item", a[0])
        return nested_reading if nested else None

    def super_parse(c, s_, a, k):
        seen.append(a[0])
        return ("argparse-reading-of", a[0])

    self = Rec("ArgumentParser", attrs={"_print_config": print_config, "prefix_chars": "-"})
    calls = {"ActionTypeHint.parse_argv_item": parse_argv_item, "super": lambda c, a, k: Rec("super()", methods={"_parse_optional": super_parse})}
    return Setup(env={"self": self, "arg_string": token}, calls=calls, data=dict(pc_kind=pc_kind, print_config=print_config, nested=nested, token=token, nested_reading=nested_reading, seen=seen, self_=self, snap=_snap(self)),
                 watch={"token": token})


def po_post(ctx, st, result):
    d = st.data
    tag = f"[print_config={d['pc_kind']},nested={d['nested']}]"
    token = d["token"]
    asked = [e for e in ctx.events if e[0] == "parse_argv_item"]
    ctx.oblige("post", "the-nested-option-reading-is-asked-about-the-very-token,once" + tag, len(asked) == 1 and _same(asked[0][1], token))
    if d["nested"]:
        ctx.oblige("post", "a-declared-nested-option-prefix=>that-reading-is-the-answer(argparse is not asked: it would take the token for a positional or an unknown option)" + tag,
                   result is d["nested_reading"] and not d["seen"])
    else:
        ok = len(d["seen"]) == 1 and isinstance(result, tuple) and len(result) == 2 and result[0] == "argparse-reading-of" and result[1] is d["seen"][0]
        ctx.oblige("post", "otherwise=>exactly-argparse's-reading-of-one-string" + tag, ok)
        if ok:
            asked_about = lift(d["seen"][0])
            if d["print_config"] is None:
                ctx.oblige("post", "that-string-is-the-token-itself(no print-config option declared)" + tag, asked_about == token, strings=True)
            else:
                pc = lift(d["print_config"])
                ctx.oblige("post", "that-string-is-the-token-itself,except-token+'='-exactly-for-the-print-config-option(explicit empty value: it never swallows the next token)" + tag,
                           z3.If(token == pc, asked_about == z3.Concat(token, S_("=")), asked_about == token), strings=True)
    ctx.oblige("frame", "the-parser-is-only-read" + tag, not _changed(d["self_"], d["snap"]) and not ctx.mutlog)


def parse_optional_unit(prop):
    return Unit(prop, CORE + "ArgumentParser._parse_optional", po_setup, po_post, _no_exc,
                trusted=["ActionTypeHint.parse_argv_item returns a truthy reading exactly for a declared nested option prefix (its own unit, any_units)",
                         "argparse.ArgumentParser._parse_optional (super()) decides option / positional for the string it is given"])


# ================================================================================================ add_argument_group
def ag_setup(ctx):
    on = ["parser", "group"][ctx.choose(2, "called-on")]
    name_kind = ["None", "str", "empty-str"][ctx.choose(3, "name")]
    custom_class = ctx.choose(2, "parser-has-its-own-group-class") == 1
    n_args = ctx.choose(2, "title-given")
    name = {"None": None, "str": z3.String("name"), "empty-str": ""}[name_kind]
    g_a, g_bc = Rec("ArgumentGroup", attrs={"tag": "a"}), Rec("ArgumentGroup", attrs={"tag": "b.c"})
    groups = {"a": g_a, "b.c": g_bc}
    if ctx.choose(2, "a-group-named-with-the-empty-string-exists") == 1:
        groups[""] = Rec("ArgumentGroup", attrs={"tag": "<empty>"})
    g0 = Rec("ArgumentGroup", attrs={"tag": "positional"})
    action_groups = [g0, g_a, g_bc]
    logger = Rec("Logger")
    made = []

    def ctor(which):
        def build(c, s_, a, k):
            g = Rec("ArgumentGroup", attrs={"tag": "new", "built_by": which, "args": tuple(a), "kwargs": dict(k)})
            made.append(g)
            return g
        return Rec("class " + which, methods={"__call__": build})

    pattrs = {"groups": groups, "_action_groups": action_groups, "_logger": logger}
    if custom_class:
        pattrs["_group_class"] = ctor("custom-group-class")
    parser = Rec("ArgumentParser", attrs=pattrs)
    self = parser if on == "parser" else Rec("ArgumentGroup", attrs={"parser": parser, "_logger": Rec("Logger(of the group)"), "_action_groups": action_groups, "tag": "caller group"})
    title = z3.String("title")
    args = (title,) if n_args else ()
    kwargs = {"description": z3.String("description")}
    return Setup(env={"self": self, "args": args, "name": name, "kwargs": kwargs}, consts={"ArgumentGroup": ctor("ArgumentGroup")},
                 data=dict(on=on, name_kind=name_kind, custom_class=custom_class, name=name, groups=groups, groups0=dict(groups), action_groups=action_groups, ag0=list(action_groups), made=made, parser=parser,
                           self_=self, logger=logger, args=args, kwargs=kwargs, snap_p=_snap(parser), snap_s=_snap(self)), watch={"name": name} if is_z3(name) else {})


def _dup(d):
    """the name is one of the declared group names (from the statement: 'a duplicate name')"""
    if d["name"] is None:
        return False
    if is_z3(d["name"]):
        return z3.Or(*[d["name"] == S_(k) for k in d["groups0"]])
    return d["name"] in d["groups0"]


def ag_post(ctx, st, result):
    from pyvc.engine import SymKey
    d = st.data
    tag = f"[on-{d['on']},name={d['name_kind']},empty-name-declared={'' in d['groups0']},custom-class={d['custom_class']}]"
    dup = _dup(d)
    ctx.oblige("post", "accepted=>the-name-is-not-the-name-of-a-declared-group" + tag, z3.Not(dup) if is_z3(dup) else not dup, strings=True)
    ok = len(d["made"]) == 1 and result is d["made"][0]
    ctx.oblige("post", "exactly-one-new-group-is-built-and-returned" + tag, ok)
    if not ok:
        return
    g = result
    want_kw = dict(d["kwargs"], logger=d["logger"])
    built = g.attrs["args"][:1] == (d["parser"],) and len(g.attrs["args"]) == 1 + len(d["args"]) and all(_same(x, y) for x, y in zip(g.attrs["args"][1:], d["args"])) \
        and set(g.attrs["kwargs"]) == set(want_kw) and all(_same(g.attrs["kwargs"][k], want_kw[k]) for k in want_kw)
    ctx.oblige("post", "it-is-built-for-the-parser(also when asked of a group),by-the-parser's-group-class,with-the-caller's-title/keywords-and-the-parser's-logger" + tag,
               built and g.attrs["built_by"] == ("custom-group-class" if d["custom_class"] else "ArgumentGroup") and g.attrs.get("parser") is d["parser"])
    ag = d["parser"].attrs["_action_groups"]
    ctx.oblige("post", "it-is-appended-last-to-the-parser's-groups,the-others-keep-their-place" + tag, ag is d["action_groups"] and len(ag) == len(d["ag0"]) + 1 and ag[-1] is g and all(x is y for x, y in zip(ag, d["ag0"])))
    groups = d["parser"].attrs["groups"]
    extra = [k for k in groups if k not in d["groups0"]]
    kept = groups is d["groups"] and all(groups.get(k) is v for k, v in d["groups0"].items())
    if d["name"] is None:
        ctx.oblige("post", "no-name=>not-registered;the-declared-names-keep-their-groups" + tag, kept and not extra)
    elif is_z3(d["name"]):
        ctx.oblige("post", "registered-under-exactly-its-name(one new entry);the-declared-names-keep-their-groups" + tag,
                   kept and len(extra) == 1 and isinstance(extra[0], SymKey) and extra[0].term.eq(d["name"]) and groups[extra[0]] is g)
    else:
        ctx.oblige("post", "registered-under-exactly-its-name(one new entry);the-declared-names-keep-their-groups" + tag, kept and extra == [d["name"]] and groups[d["name"]] is g)
    ctx.oblige("frame", "nothing-else-of-the-parser(or of the group asked)-is-written" + tag,
               not _changed(d["parser"], d["snap_p"], allow=("groups", "_action_groups")) and (d["self_"] is d["parser"] or not _changed(d["self_"], d["snap_s"], allow=("_action_groups",))))


def ag_raises(ctx, st, exc):
    d = st.data
    tag = f"[on-{d['on']},name={d['name_kind']},empty-name-declared={'' in d['groups0']},custom-class={d['custom_class']}]"
    dup = _dup(d)
    ctx.oblige("raises", f"refused=>ValueError,and-the-name-is-a-declared-group's(got {exc.cls}@{exc.origin})" + tag, z3.And(z3.BoolVal(exc.cls == "ValueError"), dup) if is_z3(dup) else (exc.cls == "ValueError" and dup), strings=True)
    ctx.oblige("frame", "refused-before-anything-is-built-or-registered" + tag, not d["made"] and not _changed(d["parser"], d["snap_p"]) and not _changed(d["self_"], d["snap_s"]) and len(d["action_groups"]) == len(d["ag0"]) and set(d["groups"]) == set(d["groups0"]))


def add_argument_group_unit(prop):
    return Unit(prop, CORE + "ActionsContainer.add_argument_group", ag_setup, ag_post, ag_raises, expect_cover=("return", "raise:ValueError"),
                trusted=["the group class builds an empty group for the container it is given (argparse._ArgumentGroup.__init__)"])


def units(prop):
    return [
        parser_mode_unit(prop), default_meta_unit(prop), dump_header_unit(prop), add_subparsers_unit(prop), check_suppressed_unit(prop),
        parse_optional_unit(prop), add_argument_group_unit(prop),
    ]


CARRIES = {
    "C09": ["ArgumentParser.parser_mode[setter+getter]", "ArgumentParser.default_meta[setter+getter]", "ArgumentParser.dump_header[setter+getter]"],
    "C06": ["ArgumentParser._parse_optional", "ActionsContainer.add_argument_group", "ArgumentParser.add_subparsers"],
    "C04": ["check_suppressed_default"],
    "C01": ["ArgumentParser.dump_header[setter+getter]"],
}
