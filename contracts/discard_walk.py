"""ActionTypeHint.discard_init_args_on_class_path_change (the static walk used by merge_config; jsonargparse/_typehints.py).

When a later source changes the class of a class-typed key, the init_args that the earlier source gave for the *old* class must be
dropped before the two are merged (C14: the object is built from its own config).  The walk visits every key of the previous
configuration (branches included); for every key that holds a class spec before and after and whose action is a typed one:
  * the discard (its own unit) is applied once to (action, previous spec, new spec), in key order;
  * when the previous spec had init_args, the same walk continues inside them with the parser of the *new* class;
  * the keys strictly below a handled key (key + '.') are left to that recursion and are not visited again here - while a sibling
    whose name merely starts with the same characters (`model` / `model_ema`) is visited like any other key.
A plain-dict previous configuration is not walked.
"""
from pyvc.engine import ClassRef, Rec
from pyvc.units import Setup, Unit

# (key, kind): the kind decides what the previous and the new configuration hold there
LAYOUT = [("model", "top"), ("model.class_path", "leaf"), ("model.init_args", "branch"), ("model.init_args.sub", "nested"), ("model.init_args.sub.class_path", "leaf"),
          ("model_ema", "top"), ("model_ema.class_path", "leaf"), ("model_ema.init_args", "branch"), ("model_ema.init_args.kernel", "leaf"), ("n", "leaf")]
STATES = ["spec-before-and-after", "spec-before-only", "spec-after-only", "not-a-spec"]


def dw_setup(ctx):
    given = ["parser", "typed-action", "plain-dict-previous"][ctx.choose(3, "given")]
    state = {k: STATES[ctx.choose(len(STATES), f"{k}")] if kind == "top" else [STATES[0], STATES[3]][ctx.choose(2, f"{k}")] if kind == "nested" else "not-a-spec" for k, kind in LAYOUT}
    prev_has_init = {k: ctx.choose(2, f"{k}:previous-spec-has-init_args") == 1 for k, kind in LAYOUT if kind in ("top", "nested") and state[k] == "spec-before-and-after"}
    action_kind = {k: ["typed", "plain", "none"][ctx.choose(3, f"{k}:action")] if (given == "parser" and state[k] == "spec-before-and-after") else "typed" for k, kind in LAYOUT if kind in ("top", "nested")}
    for n in ("ActionTypeHint", "ArgumentParser", "Namespace"):
        ctx.classes.add(n, ["Action"] if n == "ActionTypeHint" else [])
    specs = set()

    def spec(tag, key, has_init):
        init = Rec(f"Namespace({tag} init_args of {key})", methods={"__bool__": lambda c, s_, a, k: True}) if has_init else None
        r = Rec(f"spec({tag},{key})", attrs={"key": key})
        r.methods["get"] = lambda c, s_, a, k: (init if a[0] == "init_args" and init is not None else (a[1] if len(a) > 1 else None))
        r.methods["__getitem__"] = lambda c, s_, a, k: f"pkg.New_{key}" if a[0] == "class_path" else init
        r.attrs["init"] = init
        specs.add(id(r))
        return r

    prev_vals, new_vals = {}, {}
    for k, kind in LAYOUT:
        st = state[k]
        prev_vals[k] = spec("previous", k, prev_has_init.get(k, False)) if st in ("spec-before-and-after", "spec-before-only") else Rec(f"value(previous,{k})")
        new_vals[k] = spec("new", k, ctx.choose(2, f"{k}:new-spec-has-init_args") == 1 if st == "spec-before-and-after" and prev_has_init.get(k) else False) if st in ("spec-before-and-after", "spec-after-only") else Rec(f"value(new,{k})")
    if given == "plain-dict-previous":
        prev_cfg = {"model": 1}
    else:
        prev_cfg = Rec("Namespace", methods={"keys": lambda c, s_, a, k: (c.event("keys", dict(k)), [x for x, _ in LAYOUT])[1], "get": lambda c, s_, a, k: prev_vals.get(a[0])})
    cfg = Rec("Namespace", methods={"get": lambda c, s_, a, k: new_vals.get(a[0])})
    actions = {k: Rec("ActionTypeHint" if v == "typed" else "Action", attrs={"dest": k, "sub_add_kwargs": ("sak", k)}) for k, v in action_kind.items() if v != "none"}
    the_action = Rec("ActionTypeHint", attrs={"dest": "<the action given>", "sub_add_kwargs": ("sak", "given")})
    poa = the_action if given == "typed-action" else Rec("ArgumentParser")
    fresh_ns = []

    def new_ns(c, a, k):
        r = Rec("Namespace()")
        fresh_ns.append(r)
        return r

    calls = {"is_subclass_spec": lambda c, a, k: isinstance(a[0], Rec) and id(a[0]) in specs,
             "_find_action": lambda c, a, k: (c.event("find", a[0], a[1]), actions.get(a[1]))[1],
             "discard_init_args_on_class_path_change": lambda c, a, k: c.event("discard", a[0], a[1], a[2]),
             "ActionTypeHint.get_class_parser": lambda c, a, k: (c.event("class-parser", a[0], a[1]), Rec("ArgumentParser", attrs={"of": a[0]}))[1],
             "ActionTypeHint.discard_init_args_on_class_path_change": lambda c, a, k: c.event("walk-inside", a[0], a[1], a[2]),
             "Namespace": new_ns}
    consts = {"ActionTypeHint": ClassRef("ActionTypeHint")}
    return Setup(env={"parser_or_action": poa, "prev_cfg": prev_cfg, "cfg": cfg}, calls=calls, consts=consts,
                 data=dict(given=given, state=state, prev_vals=prev_vals, new_vals=new_vals, actions=actions, the_action=the_action, poa=poa, action_kind=action_kind, fresh_ns=fresh_ns))


def dw_post(ctx, st, result):
    d = st.data
    ev = ctx.events
    if d["given"] == "plain-dict-previous":
        ctx.oblige("post", "a-plain-dict-previous-configuration-is-not-walked", not ev and result is None)
        return
    handled, expected = [], []
    for k, kind in LAYOUT:
        if any(k.startswith(h + ".") for h in handled):
            continue  # left to the walk inside the handled spec
        if d["state"][k] != "spec-before-and-after":
            continue
        act = d["the_action"] if d["given"] == "typed-action" else d["actions"].get(k)
        if act is None or act.cls != "ActionTypeHint":
            continue
        handled.append(k)
        expected.append((k, act))
    tag = f"[{d['given']};" + ",".join(f"{k}:{d['state'][k]}/{d['action_kind'].get(k)}" for k, kind in LAYOUT if kind in ("top", "nested") and d["state"][k] != "not-a-spec") + "]"
    got = [e for e in ev if e[0] == "discard"]
    ok = len(got) == len(expected) and all(g[1] is a and g[2] is d["prev_vals"][k] and g[3] is d["new_vals"][k] for g, (k, a) in zip(got, expected))
    ctx.oblige("post", "every-key-holding-a-class-spec-before-and-after(typed action,not below a handled key)-gets-the-discard-once,in-key-order:(its action,previous spec,new spec);a-sibling-sharing-only-a-name-prefix-is-not-skipped" + tag, ok,
               note=f"expected {[k for k, _ in expected]}, got {[g[2].attrs.get('key') for g in got]}")
    inside = [e for e in ev if e[0] == "walk-inside"]
    cps = [e for e in ev if e[0] == "class-parser"]
    want_inside = [(k, a) for k, a in expected if d["prev_vals"][k].attrs["init"] is not None]
    ok2 = len(inside) == len(want_inside) == len(cps)
    if ok2:
        for (k, a), w, cp in zip(want_inside, inside, cps):
            new_init = d["new_vals"][k].attrs["init"]
            ok2 = ok2 and cp[1] == f"pkg.New_{k}" and cp[2] == a.attrs["sub_add_kwargs"] and isinstance(w[1], Rec) and w[1].attrs.get("of") == f"pkg.New_{k}" and w[2] is d["prev_vals"][k].attrs["init"] \
                and (w[3] is new_init if new_init is not None else (isinstance(w[3], Rec) and w[3].cls == "Namespace()"))
    ctx.oblige("post", "where-the-previous-spec-had-init_args-the-walk-continues-inside-them-with-the-parser-of-the-new-class(and the new init_args, an empty namespace when there are none)" + tag, ok2)
    finds = [e[2] for e in ev if e[0] == "find"]
    if d["given"] == "parser":
        want_finds = []
        skip = []
        for k, kind in LAYOUT:
            if any(k.startswith(h + ".") for h in skip):
                continue
            if d["state"][k] == "spec-before-and-after":
                want_finds.append(k)
                if (k, d["actions"].get(k)) in [(x, a) for x, a in expected]:
                    skip.append(k)
        ctx.oblige("post", "the-action-of-each-such-key-is-looked-up-by-the-key-itself-in-the-parser-given" + tag, finds == want_finds and all(e[1] is d["poa"] for e in ev if e[0] == "find"))
    else:
        ctx.oblige("post", "an-action-given-directly-is-used-as-it-is(no lookup)" + tag, not finds)


def discard_walk_unit(prop):
    return Unit(prop, "jsonargparse._typehints:ActionTypeHint.discard_init_args_on_class_path_change", dw_setup, dw_post, None, expect_cover=("return",), max_paths=60000,
                trusted=["discard_init_args_on_class_path_change (module level): its own unit", "is_subclass_spec: its own unit", "_find_action by contract (C06)", "get_class_parser: its own unit (C09)",
                         "the recursive walk by contract", "prev_cfg.keys(branches=True) lists every key, a branch before the keys below it (C11 unit of keys/items)"])


UNITS = [discard_walk_unit("C14")]
