"""C17 - exactly one subcommand is selected and only its settings survive.

Units (jsonargparse/_actions.py):
  _ActionSubCommands.get_subcommands   selection rule, removal of the other sections, required check
  _ActionSubCommands.handle_subcommands   merge order: given settings override the sub-parser's defaults / environment
  _ActionSubCommands.__call__          argv path: name under dest, sub-parser result under the name
The number of declared subcommands is finite per scenario (N = 1..3, names distinct); for each N the configuration is
explored completely (every combination of: key present / absent / None / names a declared / an undeclared subcommand,
each section present as a namespace / as another value / absent, prefix, required, fail_no_subcommand, single mode).
That is a complete case analysis for N <= 3, not a proof for arbitrary N (stated in the level note).
"""
import z3

from pyvc.engine import ClassRef, ExcVal, PyRaise, Rec, Unsupported
from pyvc.units import Setup, Unit

NAMES = ["fit", "test", "predict"]


class Cfg:
    """Concrete nested-map view of the cfg Namespace for the keys the unit can touch."""

    def __init__(self, ctx):
        self.d = {}
        self.log = []

    def rec(self):
        me = self

        def get(ctx, s_, a, k):
            return me.d.get(a[0], a[1] if len(a) > 1 else None)

        def getitem(ctx, s_, a, k):
            if a[0] not in me.d:
                raise PyRaise(ExcVal("NSKeyError", origin="cfg[]"))
            return me.d[a[0]]

        def setitem(ctx, s_, a, k):
            me.d[a[0]] = a[1]
            me.log.append(("set", a[0], a[1]))

        def delitem(ctx, s_, a, k):
            if a[0] not in me.d:
                raise PyRaise(ExcVal("NSKeyError", origin="del cfg[]"))
            del me.d[a[0]]
            me.log.append(("del", a[0]))

        return Rec("Namespace", methods={"get": get, "__getitem__": getitem, "__setitem__": setitem, "__delitem__": delitem,
                                         "__contains__": lambda c, s_, a, k: a[0] in me.d})


def gs_setup(ctx):
    n = 1 + ctx.choose(3, "n-declared")
    names = NAMES[:n]
    prefix = ["", "outer."][ctx.choose(2, "prefix")]
    required = ctx.choose(2, "required") == 1
    fail = ctx.choose(2, "fail_no_subcommand") == 1
    single = ctx.choose(2, "single_subcommand") == 1
    dest = "subcommand"
    cfg = Cfg(ctx)
    # explicit key: absent / None / one of the declared names / an undeclared name
    which = ctx.choose(n + 3, "dest-value")
    if which == 1:
        cfg.d[prefix + dest] = None
    elif which >= 2:
        cfg.d[prefix + dest] = (names + ["undeclared"])[which - 2]
    sections = {}
    for nm in names:
        kind = ctx.choose(4, f"section[{nm}]")  # 0 absent, 1 a namespace of settings, 2 some other value, 3 an empty namespace (a subcommand without options, or none given yet)
        if kind in (1, 3):
            sections[nm] = Rec("Namespace", attrs={"of": nm, "empty": kind == 3}, methods={"__bool__": lambda c, s_, a, k: not s_.attrs["empty"], "__len__": lambda c, s_, a, k: 0 if s_.attrs["empty"] else 1})
            cfg.d[prefix + nm] = sections[nm]
        elif kind == 2:
            cfg.d[prefix + nm] = 7
    cfg.d["unrelated"] = 1
    parsers = {nm: Rec("ArgumentParser", attrs={"name": nm}) for nm in names}
    action = Rec("_ActionSubCommands", attrs={"choices": dict(parsers), "dest": dest, "_required": required, "_name_parser_map": dict(parsers)})
    parser = Rec("ArgumentParser", attrs={"_subcommands_action": action})
    before = dict(cfg.d)
    calls = {"single_subcommand.get": lambda c, a, k: single}
    consts = {"Namespace": ClassRef("Namespace")}
    data = dict(names=names, prefix=prefix, required=required, fail=fail, single=single, dest=prefix + dest, cfg=cfg, before=before, sections=sections, parsers=parsers)
    return Setup(env={"parser": parser, "cfg": cfg.rec(), "prefix": prefix, "fail_no_subcommand": fail}, calls=calls, consts=consts, data=data)


def chosen_of(d):
    """The selection rule of the statement."""
    before, dest = d["before"], d["dest"]
    if before.get(dest) is not None:
        return before[dest]
    with_settings = [nm for nm in d["names"] if nm in d["sections"]]
    if with_settings and (d["fail"] or d["single"]):
        return with_settings[0]
    return None


def gs_post(ctx, st, result):
    d = st.data
    after = d["cfg"].d
    c = chosen_of(d)
    tag = f"[n={len(d['names'])}]"
    ok_shape = isinstance(result, tuple) and len(result) == 2
    ctx.oblige("post", "returns-a-pair" + tag, ok_shape)
    if not ok_shape:
        return
    names_out, parsers_out = result
    with_settings = [nm for nm in d["names"] if nm in d["sections"]]
    if c is not None:
        ctx.oblige("post", "returned-name-is-the-chosen-one" + tag, names_out == [c])
        ctx.oblige("post", "key-holds-the-chosen-name" + tag, after.get(d["dest"]) == c)
        ctx.oblige("post", "returned-parser-is-the-chosen-one's" + tag, isinstance(parsers_out, list) and len(parsers_out) == 1 and parsers_out[0] is d["parsers"].get(c))
        others = [nm for nm in d["names"] if nm != c and isinstance(after.get(d["prefix"] + nm), Rec)]
        # a name that is not a declared subcommand selects nothing: it is an error in every mode (it used to come back with a None parser when the subcommand is
        # optional or the call lenient, and the callers then failed with AttributeError - C03; fixed)
        ctx.oblige("post", "a-name-that-is-not-a-declared-subcommand-is-never-returned-as-the-choice" + tag, c in d["parsers"], note=f"chosen={c!r}")
        if c in d["parsers"]:
            ctx.oblige("post", "no-section-of-another-subcommand-remains" + tag, others == [], note=f"chosen={c!r} sections-before={sorted(d['sections'])} remaining={others}")
        if c in d["sections"]:
            ctx.oblige("post", "chosen-section-kept" + tag, after.get(d["prefix"] + c) is d["sections"][c])
    else:
        # nothing chosen: a failing-mode call reports no subcommand; a lenient call (defaults / environment passes) lists every one with settings
        ctx.oblige("post", "nothing-chosen=>no-names(failing mode)-or-all-with-settings(lenient mode)" + tag, (not names_out) if d["fail"] else list(names_out or []) == with_settings)
        ctx.oblige("post", "nothing-chosen=>cfg-unchanged" + tag, after == d["before"])
    ctx.oblige("frame", "unrelated-keys-unchanged" + tag, after.get("unrelated") == 1 and all(after.get(k) == v for k, v in d["before"].items() if k != d["dest"] and not isinstance(v, Rec)))
    must_fail = d["fail"] and d["required"] and c not in d["parsers"]
    ctx.oblige("post", "required-and-undetermined=>error" + tag, not must_fail)


def gs_raises(ctx, st, exc):
    d = st.data
    c = chosen_of(d)
    tag = f"[n={len(d['names'])}]"
    if exc.cls != "NSKeyError" or exc.origin in ("cfg[]", "del cfg[]"):
        ctx.oblige("raises", f"only-the-required-subcommand-error(got {exc.cls}@{exc.origin})" + tag, False)
        return
    ctx.oblige("raises", "NSKeyError=>an-undeclared-name-was-given,or(required,failing mode)nothing-was-chosen" + tag, (c is not None and c not in d["parsers"]) or (d["fail"] and d["required"] and c is None))


# ------------------------------------------------------------------------------------- handle_subcommands
def hs_setup(ctx):
    env_choice = ctx.choose(3, "env:False/True/None(left to the parser)")
    env_on = env_choice == 1
    env_arg = [False, True, None][env_choice]
    defaults = ctx.choose(2, "defaults") == 1
    has_inner = ctx.choose(2, "inner-subparsers") == 1
    given_present = ctx.choose(2, "settings-given") == 1
    prefix = ["", "outer."][ctx.choose(2, "prefix")]
    events = ctx.events
    given = Rec("Namespace", attrs={"tag": "given"})
    store = {prefix + "fit": given} if given_present else {}
    empty = Rec("Namespace", attrs={"tag": "empty"})

    def merge_config(ctx_, s_, a, k):
        ctx_.event("merge", a[0], a[1])
        return Rec("Namespace", attrs={"merged": (a[0], a[1])})

    sub_src = Rec("Namespace", attrs={"tag": "sub-defaults-or-env"})
    subparser = Rec("ArgumentParser", attrs={"_subparsers": Rec("x") if has_inner else None}, methods={
        "parse_env": lambda c, s_, a, k: (c.event("parse_env", k), sub_src)[1],
        "get_defaults": lambda c, s_, a, k: (c.event("get_defaults", k), sub_src)[1],
        "merge_config": merge_config,
    })

    def get_subcommands(ctx_, a, k):
        ctx_.event("get_subcommands", k.get("prefix"), k.get("fail_no_subcommand"), a[0], a[1])
        which = ctx_.choose(2, "selected")
        if which == 0:
            return (None, None)
        return (["fit"], [subparser])

    def recursive(ctx_, a, k):
        ctx_.event("recurse", a[0], a[4] if len(a) > 4 else k.get("prefix"), k.get("fail_no_subcommand"))
        return None

    cfg = Rec("Namespace", methods={
        "get": lambda c, s_, a, k: store.get(a[0], a[1] if len(a) > 1 else None),
        "__setitem__": lambda c, s_, a, k: (store.__setitem__(a[0], a[1]), c.event("store", a[0], a[1]))[0],
    })
    # parse_kwargs is set by parse_args and never reset (parse_kwargs_context): outside argparse's dispatch of that very call it holds the keywords of an *earlier*
    # parse_args - of this or of any other parser. Reading it here would make the answer depend on the history (C09).
    leftover = {"env": z3.Bool("env-keyword-of-an-earlier-parse_args"), "defaults": z3.Bool("defaults-keyword-of-an-earlier-parse_args")}
    calls = {"_ActionSubCommands.get_subcommands": get_subcommands, "_ActionSubCommands.handle_subcommands": recursive, "Namespace": lambda c, a, k: empty,
             "parse_kwargs.get": lambda c, a, k: (c.event("read-of-parse_kwargs"), Rec("dict", methods={"get": lambda c2, s2, a2, k2: leftover.get(a2[0]), "__getitem__": lambda c2, s2, a2, k2: leftover[a2[0]]}))[1]}
    noop = (lambda c, a, k: c.event("parent_parsers_context", a[0], a[1] if len(a) > 1 else None), lambda c, t, e: False)
    fail = z3.Bool("fail_no_subcommand")
    the_parser = Rec("ArgumentParser")
    return Setup(env={"parser": the_parser, "cfg": cfg, "env": env_arg, "defaults": defaults, "prefix": prefix, "fail_no_subcommand": fail},
                 calls=calls, cms={"parent_parsers_context": noop},
                 data=dict(parser=the_parser, cfg=cfg, env_on=env_on, defaults=defaults, has_inner=has_inner, given=given if given_present else empty, prefix=prefix, sub_src=sub_src, store=store, subparser=subparser, fail=fail))


def hs_post(ctx, st, result):
    d = st.data
    ev = ctx.events
    selected = any(x.startswith("selected=1") for x in ctx.decisions_txt)
    ctx.oblige("frame", "no-read-of-parse_kwargs(it holds the keywords of an earlier parse_args - of any parser - unless read inside that call's own argparse dispatch)", not [e for e in ev if e[0] == "read-of-parse_kwargs"])
    key = d["prefix"] + "fit"
    gs = [e for e in ev if e[0] == "get_subcommands"]
    ctx.oblige("post", "the-selection-is-made-on-this-parser-and-this-configuration,with-the-caller's-prefix-and-failure-mode", len(gs) == 1 and gs[0][3] is d["parser"] and gs[0][4] is d["cfg"] and gs[0][1] == d["prefix"] and gs[0][2] is d["fail"])
    ppc = [e for e in ev if e[0] == "parent_parsers_context"]
    if selected and (d["env_on"] or d["defaults"]):
        ctx.oblige("post", "the-sub-parser's-defaults/environment-are-read-with-(key, this parser)-registered-as-parent(so that parent default config files apply below the key)", len(ppc) >= 1 and all(e[1] == key and e[2] is d["parser"] for e in ppc))
    merges = [e for e in ev if e[0] == "merge"]
    if not selected:
        ctx.oblige("post", "nothing-selected=>cfg-untouched", not [e for e in ev if e[0] in ("store", "merge")])
        return
    if d["env_on"] or d["defaults"]:
        ctx.oblige("post", "given-settings-override-sub-defaults-or-env(merge argument order)", len(merges) == 1 and merges[0][1] is d["given"] and merges[0][2] is d["sub_src"])
        ctx.oblige("post", "merged-section-stored-under-the-subcommand's-name", [e[1] for e in ev if e[0] == "store"] == [key])
        ctx.oblige("post", "environment-only-when-enabled", bool([e for e in ev if e[0] == "parse_env"]) == d["env_on"])
    else:
        ctx.oblige("post", "no-defaults-no-env=>section-untouched", not merges and not [e for e in ev if e[0] == "store"])
    rec = [e for e in ev if e[0] == "recurse"]
    ctx.oblige("post", "nested-subcommands-handled-with-prefix-key+dot", (len(rec) == 1 and rec[0][1] is d["subparser"] and rec[0][2] == key + "." and rec[0][3] is d["fail"]) if d["has_inner"] else not rec)


def hs_raises(ctx, st, exc):
    ctx.oblige("raises", f"no-own-exception(got {exc.cls}@{exc.origin})", False)


# ------------------------------------------------------------------------------------- __call__ (argv path)
def call_setup(ctx):
    known = ctx.choose(2, "name-declared") == 1
    had_section = ctx.choose(2, "section-already-in-namespace") == 1
    # a --config given before may already have named a subcommand (another one): the one named on the command line is the later source and wins
    named_before = [None, "test", "fit"][ctx.choose(3, "subcommand-already-named-by-an-earlier-source")]
    store = {}
    if named_before is not None:
        store["subcommand"] = named_before
    prev = Rec("Namespace", attrs={"tag": "prev"}, methods={"clone": lambda c, s_, a, k: Rec("Namespace", attrs={"clone_of": s_})})
    if had_section:
        store["fit"] = prev
    result_ns = Rec("Namespace", attrs={"tag": "subparser-result"})

    def parse_args(ctx_, s_, a, k):
        ctx_.event("sub.parse_args", a[0], k.get("namespace"), k.get("_skip_validation"))
        return result_ns

    subparser = Rec("ArgumentParser", methods={"parse_args": parse_args})
    namespace = Rec("Namespace", methods={
        "__setitem__": lambda c, s_, a, k: (store.__setitem__(a[0], a[1]), c.event("store", a[0]))[0],
        "__contains__": lambda c, s_, a, k: a[0] in store,
        "get": lambda c, s_, a, k: store.get(a[0]),
    })
    self = Rec("_ActionSubCommands", attrs={"dest": "subcommand", "_name_parser_map": {"fit": subparser} if known else {}})
    rest = ["--lr", "0.1"]
    the_parser = Rec("ArgumentParser")
    return Setup(env={"self": self, "parser": the_parser, "namespace": namespace, "values": ["fit"] + rest, "option_string": None},
                 calls={"parse_kwargs.get": lambda c, a, k: {"env": False}},
                 data=dict(store=store, known=known, had=had_section, prev=prev, result=result_ns, rest=rest, self_rec=self, self_snapshot=dict(self.attrs), map_snapshot=dict(self.attrs["_name_parser_map"]), the_parser=the_parser))


def call_frame(ctx, d):
    a = d["self_rec"].attrs
    ctx.oblige("frame", "nothing-of-this-parse-is-remembered-on-the-subcommands-action-or-on-the-parser(a later parse must not see which subcommand an earlier - possibly failed - one named)",
               set(a) == set(d["self_snapshot"]) and all(a[k] is d["self_snapshot"][k] or a[k] == d["self_snapshot"][k] for k in a) and a["_name_parser_map"] == d["map_snapshot"] and d["the_parser"].attrs == {})


def call_post(ctx, st, result):
    d = st.data
    call_frame(ctx, d)
    ctx.oblige("post", "the-name-given-on-the-command-line-is-stored-under-dest(whatever an earlier source named)", d["store"].get("subcommand") == "fit")
    if d["known"]:
        ctx.oblige("post", "subparser-result-stored-under-the-name", d["store"].get("fit") is d["result"])
        ev = [e for e in ctx.events if e[0] == "sub.parse_args"]
        ctx.oblige("post", "rest-of-argv-parsed-by-the-subparser-once", len(ev) == 1 and ev[0][1] == d["rest"])
        ctx.oblige("post", "existing-section-passed-as-a-copy", len(ev) == 1 and ((isinstance(ev[0][2], Rec) and ev[0][2].attrs.get("clone_of") is d["prev"]) if d["had"] else ev[0][2] is None))


def call_raises(ctx, st, exc):
    call_frame(ctx, st.data)
    ctx.oblige("raises", f"no-own-exception(got {exc.cls}@{exc.origin})", False)


UNITS = [
    Unit("C17", "jsonargparse._actions:_ActionSubCommands.get_subcommands", gs_setup, gs_post, gs_raises, split=3, max_paths=20000,
         expect_cover=("return", "raise:NSKeyError"), replayer="replayers.c17:replay_get_subcommands",
         trusted=["cfg (a Namespace) behaves as a mapping for get/[]/in/del/[]= on the keys touched (C11)", "single_subcommand context variable read once"]),
    Unit("C17", "jsonargparse._actions:_ActionSubCommands.handle_subcommands", hs_setup, hs_post, hs_raises,
         trusted=["get_subcommands obeys its contract; merge_config(a, b): a overrides b (C04 contract)"]),
    Unit("C17", "jsonargparse._actions:_ActionSubCommands.__call__", call_setup, call_post, call_raises),
]
from contracts.c10 import pc_post, pc_raises, pc_setup  # noqa: E402
UNITS.append(Unit("C17", "jsonargparse._core:ArgumentParser._parse_common", pc_setup, pc_post, pc_raises, expect_cover=("return", "raise:TypeError")))

VERIFIED_CALLEES = ("_ActionSubCommands.get_subcommands", "_ActionSubCommands.handle_subcommands")
LEVEL = "other"
TECHNIQUE = "contract-based deductive verification (VCs from the real AST; complete case analysis for <= 3 declared subcommands) + bounded run-time contract checking"
LEVEL_TEXT = "Proved by complete case analysis for 1-3 declared subcommands (every combination of explicit key, sections, prefix, required, failing / single mode): get_subcommands returns the subcommand named explicitly else the first with settings, stores it under the key, fails exactly when required and undetermined; handle_subcommands merges so that given settings override the sub-parser's defaults/environment and recurses with prefix key + '.'; the argv action stores name and sub-parser result. The clause `no section of another subcommand remains` is refuted on the shipped code for one case (known finding). Bounded only: trees of depth <= 2(3) x sources."
LEVEL_NOTE = "under construction"
EXPLANATION = "under construction"
ASSUMPTIONS = []
TRUSTED = []
BOUNDED = [{"name": "subcommand-trees-vs-selection-model", "script": "bounded/b17_subcommands.py"}]


from contracts.share import shared  # noqa: E402
UNITS += shared("C17", "contracts.c03", '_ActionSubCommands.add_subcommand')
UNITS += shared("C17", "contracts.c04", 'ArgumentParser._load_env_vars')


# ------------------------------------------------------------------------------------- add_subcommands
def asub_setup(ctx):
    required_sel = ["omitted", "True", "False"][ctx.choose(3, "required")]
    dest_given = ctx.choose(2, "dest-given") == 1
    descr_given = ctx.choose(2, "description-given") == 1
    fails = ctx.choose(2, "argparse-refuses(e.g. a second subcommands action)") == 1
    dcf = ["~/.app.yaml"]
    required_args = set()
    action = Rec("_ActionSubCommands", attrs={"required": True})
    seen_dcf = []

    def add_subparsers(c, s_, a, k):
        seen_dcf.append(list(self.attrs["default_config_files"]))
        c.event("add_subparsers", dict(k))
        if fails:
            raise PyRaise(ExcVal("ArgumentError", args=("cannot have multiple subparser arguments",), origin="argparse.add_subparsers"))
        return action

    self = Rec("ArgumentParser", attrs={"default_config_files": dcf, "required_args": required_args})
    env = {"self": self, "kwargs": {"description": "given"} if descr_given else {}}
    if required_sel != "omitted":
        env["required"] = required_sel == "True"
    if dest_given:
        env["dest"] = "cmd"
    calls = {"super": lambda c, a, k: Rec("super()", methods={"add_subparsers": add_subparsers}), "get_env_var": lambda c, a, k: ("env-var-of", a[0])}
    return Setup(env=env, calls=calls, data=dict(required=required_sel != "False", dest="cmd" if dest_given else "subcommand", descr_given=descr_given, fails=fails, dcf=dcf, self_=self, action=action,
                                                 required_args=required_args, seen_dcf=seen_dcf))


def asub_post(ctx, st, result):
    d = st.data
    tag = f"[required={d['required']},dest={d['dest']}]"
    a = d["action"].attrs
    ctx.oblige("post", "a-required-subcommand(the default)-is-recorded-under-its-dest-and-enforced-by-this-parser(argparse's own flag is cleared)" + tag,
               d["required_args"] == ({d["dest"]} if d["required"] else set()) and a.get("_required") is d["required"] and a.get("required") is False)
    ctx.oblige("post", "the-action-knows-its-parent-parser-and-the-environment-prefix-of-its-subcommands" + tag, a.get("parent_parser") is d["self_"] and a.get("env_prefix") == ("env-var-of", d["self_"]))
    ev = [e for e in ctx.events if e[0] == "add_subparsers"]
    ctx.oblige("post", "argparse-declares-it-once-under-the-dest(default: subcommand)" + tag, len(ev) == 1 and ev[0][1].get("dest") == d["dest"] and (ev[0][1].get("description") == "given" if d["descr_given"] else "description" in ev[0][1]))
    ctx.oblige("post", "the-parser-remembers-its-subcommands-action-and-returns-it" + tag, result is d["action"] and d["self_"].attrs.get("_subcommands_action") is d["action"])
    ctx.oblige("frame", "the-default-config-files-are-what-they-were(they are only hidden from argparse while it builds the action)" + tag, d["self_"].attrs["default_config_files"] is d["dcf"] and d["seen_dcf"] == [[]])


def asub_raises(ctx, st, exc):
    d = st.data
    ctx.oblige("raises", f"only-argparse's-refusal-propagates(got {exc.cls}@{exc.origin})", d["fails"] and exc.origin == "argparse.add_subparsers")
    ctx.oblige("frame", "a-refused-declaration-leaves-the-parser's-default-config-files-as-they-were", d["self_"].attrs["default_config_files"] is d["dcf"])


UNITS.append(Unit("C17", "jsonargparse._core:ArgumentParser.add_subcommands", asub_setup, asub_post, asub_raises, expect_cover=("return", "raise:ArgumentError"),
                  trusted=["argparse.add_subparsers (super()) creates the action or refuses through parser.error", "get_env_var: its own unit"]))


# ------------------------------------------------------------------------------------- get_subcommand (exactly one)
def gs1_setup(ctx):
    fate = ["none", "one", "several"][ctx.choose(3, "get_subcommands-returns")]
    names, parsers = ["fit", "test"], [Rec("fit parser"), Rec("test parser")]
    ret = {"none": (None, None), "one": (names[:1], parsers[:1]), "several": (list(names), list(parsers))}[fate]
    parser, cfg = Rec("ArgumentParser"), Rec("Namespace")
    fail = z3.Bool("fail_no_subcommand")
    prefix_sel = ["given", "omitted"][ctx.choose(2, "prefix")]
    env = {"parser": parser, "cfg": cfg, "fail_no_subcommand": fail}
    if prefix_sel == "given":
        env["prefix"] = "outer."
    calls = {"_ActionSubCommands.get_subcommands": lambda c, a, k: (c.event("get_subcommands", a[0], a[1], dict(k)), ret)[1]}
    return Setup(env=env, calls=calls, data=dict(fate=fate, ret=ret, parser=parser, cfg=cfg, fail=fail, prefix="outer." if prefix_sel == "given" else ""))


def gs1_post(ctx, st, result):
    d = st.data
    want = (None, None) if d["fate"] == "none" else (d["ret"][0][0], d["ret"][1][0])
    ctx.oblige("post", f"exactly-one-subcommand-is-selected:the-first-of-what-get_subcommands-determines(or none)[{d['fate']}]", isinstance(result, tuple) and len(result) == 2 and result[0] == want[0] and result[1] is want[1])
    ev = [e for e in ctx.events if e[0] == "get_subcommands"]
    ctx.oblige("post", "determined-on-this-parser-and-configuration,with-the-caller's-prefix-and-failure-mode", len(ev) == 1 and ev[0][1] is d["parser"] and ev[0][2] is d["cfg"] and ev[0][3] == {"prefix": d["prefix"], "fail_no_subcommand": d["fail"]})


def gs1_raises(ctx, st, exc):
    ctx.oblige("raises", f"no-own-exception(got {exc.cls}@{exc.origin})", False)


UNITS.append(Unit("C17", "jsonargparse._actions:_ActionSubCommands.get_subcommand", gs1_setup, gs1_post, gs1_raises, trusted=["get_subcommands: its own unit"]))


# ------------------------------------------------------------------------------------- default_env (setter): the setting reaches every level of the subcommand tree
def de_setup(ctx):
    osenv = ["", "true", "false", "yes"][ctx.choose(4, "JSONARGPARSE_DEFAULT_ENV")]
    given = [True, False, "not-a-bool"][ctx.choose(3, "value-given")]
    has_sub = ctx.choose(2, "has-subcommands") == 1
    subs = [Rec(f"ArgumentParser(sub{i})", attrs={}) for i in range(2)]
    for sp in subs:
        sp.methods["__setattr__"] = lambda c, s_, a, k: c.event("sub-set", s_, a[0], a[1])
    self = Rec("ArgumentParser", attrs={"_default_env": z3.Bool("before"), "_subcommands_action": Rec("action", attrs={"_name_parser_map": {"a": subs[0], "b": subs[1]}}) if has_sub else None})
    calls = {"os.getenv": lambda c, a, k: osenv.upper() if osenv == "true" else osenv}
    return Setup(env={"self": self, "default_env": given}, calls=calls, data=dict(osenv=osenv, given=given, has_sub=has_sub, subs=subs, self_=self))


def de_effective(d):
    if d["osenv"] in ("true", "false"):
        return d["osenv"] == "true"
    return d["given"] if isinstance(d["given"], bool) else None


def de_post(ctx, st, result):
    d = st.data
    eff = de_effective(d)
    tag = f"[env var={d['osenv']!r},given={d['given']!r}{',subcommands' if d['has_sub'] else ''}]"
    ctx.oblige("post", "accepted=>a-boolean-was-given(or the environment variable decides)" + tag, eff is not None)
    ctx.oblige("post", "the-parser's-setting-is-the-value-given,unless-JSONARGPARSE_DEFAULT_ENV-says-true/false" + tag, d["self_"].attrs["_default_env"] is eff)
    sets = [e for e in ctx.events if e[0] == "sub-set"]
    if d["has_sub"]:
        ctx.oblige("post", "every-subcommand-parser-gets-the-same-setting-through-its-own-default_env(which hands it on to the levels below: the whole tree follows)" + tag,
                   [(e[1], e[2], e[3]) for e in sets] == [(sp, "default_env", eff) for sp in d["subs"]])
    else:
        ctx.oblige("post", "no-subcommands=>nothing-else-is-set" + tag, not sets)


def de_raises(ctx, st, exc):
    d = st.data
    ctx.oblige("raises", f"ValueError-exactly-for-a-non-boolean-when-the-environment-variable-does-not-decide(got {exc.cls})", exc.cls == "ValueError" and de_effective(d) is None)


UNITS.append(Unit("C17", "jsonargparse._core:ArgumentParser.default_env", de_setup, de_post, de_raises, label="setter", expect_cover=("return", "raise:ValueError"),
                  trusted=["assigning subparser.default_env runs this same setter on the sub-parser (induction over the depth of the subcommand tree)"]))

from contracts.share import carried as _carried  # noqa: E402
UNITS += _carried("C17")

# a --config with sections for several subcommands and no name is parsed inside not_single_subcommand: it must not select (and keep only) the first one
from contracts.share import shared as _c17_shared  # noqa: E402
UNITS += [u for u in _c17_shared("C17", "contracts.c04", "ActionConfigFile.apply_config") if not u.label]
