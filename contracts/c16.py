"""C16 - classes are instantiated in an order compatible with every link.

Units under contract (all in jsonargparse/_link_arguments.py, read from /repo on every run):
  DirectedGraph.topological_sort   recursive DFS; loop invariant LI(k); recursion by contract; ghost `rank`
  DirectedGraph.get_topological_order
  DirectedGraph.add_edge           representation invariant wf + abstract edge set
The contract text follows DESIGN.md Appendix A.
"""
import z3

from pyvc.engine import ExcVal, LoopSpec, PyRaise, Rec, SymList, And, Implies
from pyvc.units import Setup, Unit

I = z3.IntSort()
B = z3.BoolSort()
IA = z3.ArraySort(I, I)
BA = z3.ArraySort(I, B)
Node = z3.DeclareSort("Node")

# abstract graph shared by topological_sort / get_topological_order: adjacency lists as uninterpreted functions
n = z3.Int("n")
elen = z3.Function("elen", I, I)
earr = z3.Function("earr", I, I, I)
Edge = z3.Function("Edge", I, I, B)
Reach = z3.Function("Reach", I, I, B)
Cyc = z3.Bool("Cyc")
u, k, v, i, a, b, c, g = z3.Ints("u k v i a b c g")


def graph_axioms():
    return [
        n >= 0,
        # WF: adjacency entries are node indices; Edge is (at least) the adjacency relation
        z3.ForAll([u, k], z3.Implies(z3.And(0 <= u, u < n, 0 <= k, k < elen(u)), z3.And(0 <= earr(u, k), earr(u, k) < n, Edge(u, earr(u, k)))), patterns=[earr(u, k)]),
        z3.ForAll([u], elen(u) >= 0, patterns=[elen(u)]),
        # Reach: any relation closed under reflexivity and edge steps (true reachability is the least one)
        z3.ForAll([a], Reach(a, a), patterns=[Reach(a, a)]),
        z3.ForAll([a, b, c], z3.Implies(z3.And(Reach(a, b), Edge(b, c)), Reach(a, c)), patterns=[z3.MultiPattern(Reach(a, b), Edge(b, c))]),
        # a cycle: some node reaches a predecessor of itself
        z3.ForAll([a, b], z3.Implies(z3.And(Reach(a, b), Edge(b, a)), Cyc), patterns=[z3.MultiPattern(Reach(a, b), Edge(b, a))]),
    ]


class St:
    """Snapshot of (visited, exploring, order, rank)."""

    def __init__(self, vis, expl, olen, oarr, rank):
        self.vis, self.expl, self.olen, self.oarr, self.rank = vis, expl, olen, oarr, rank


def Inv(s: St):
    return z3.And(
        s.olen >= 0,
        z3.ForAll([v], z3.Implies(z3.And(0 <= v, v < n, s.vis[v]), z3.And(0 <= s.rank[v], s.rank[v] < s.olen, s.oarr[s.olen - 1 - s.rank[v]] == v)), patterns=[s.vis[v]]),
        z3.ForAll([i], z3.Implies(z3.And(0 <= i, i < s.olen), z3.And(0 <= s.oarr[i], s.oarr[i] < n, s.vis[s.oarr[i]], s.rank[s.oarr[i]] == s.olen - 1 - i)), patterns=[s.oarr[i]]),
        z3.ForAll([u, k], z3.Implies(z3.And(0 <= u, u < n, s.vis[u], 0 <= k, k < elen(u)), z3.And(s.vis[earr(u, k)], s.rank[earr(u, k)] < s.rank[u])), patterns=[earr(u, k)]),
        z3.ForAll([v], z3.Implies(z3.And(0 <= v, v < n, s.vis[v]), z3.Not(s.expl[v])), patterns=[s.vis[v]]),
    )


def G(s: St, cur):
    """every node being explored reaches the current node"""
    return z3.ForAll([g], z3.Implies(z3.And(0 <= g, g < n, s.expl[g]), Reach(g, cur)), patterns=[s.expl[g]])


def Pre(s: St, src):
    return z3.And(0 <= src, src < n, z3.Not(s.vis[src]), z3.Not(s.expl[src]), Inv(s), G(s, src))


def Post(s0: St, s: St, src):
    return z3.And(
        Inv(s), s.vis[src],
        z3.ForAll([v], z3.Implies(z3.And(0 <= v, v < n), s.expl[v] == s0.expl[v]), patterns=[s.expl[v]]),
        z3.ForAll([v], z3.Implies(z3.And(0 <= v, v < n, s0.vis[v]), s.vis[v]), patterns=[s0.vis[v]]),
        # old order is a suffix of the new one
        s.olen >= s0.olen,
        z3.ForAll([i], z3.Implies(z3.And(0 <= i, i < s0.olen), s.oarr[s.olen - s0.olen + i] == s0.oarr[i]), patterns=[s0.oarr[i]]),
    )


class OrderList(SymList):
    """`order` with the ghost finish-rank: rank[x] := old len after order.insert(0, x) (position from the end)."""

    def __init__(self, ctx, name):
        super().__init__(ctx, name, I)
        self.rank = ctx.fresh(name + ".rank", IA)

    def havoc(self):
        super().havoc()
        self.rank = self.ctx.fresh(self.name + ".rank", IA)

    def insert0(self, x):
        old = self.len
        super().insert0(x)
        self.rank = z3.Store(self.rank, x, old)

    def append(self, x):
        from pyvc.engine import Unsupported
        raise Unsupported("order.append: the ghost rank of C16 is defined for insert(0, x) only")


def snap(vis: SymList, expl: SymList, order: OrderList) -> St:
    return St(vis.arr, expl.arr, order.len, order.arr, order.rank)


def adjacency(ctx):
    """self.edges_dict[u] -> the adjacency list of u (read-only view over elen/earr)."""
    kk = z3.Int("k!adj")

    def getitem(ctx_, rec, args, kwargs):
        (uu,) = args
        from pyvc.engine import lift
        uu = lift(uu)
        return SymList(ctx_, "adj", I, length=elen(uu), arr=z3.Lambda([kk], earr(uu, kk)))

    return Rec("defaultdict", methods={"__getitem__": getitem})


def lists_wellsized(vis, expl):
    return z3.And(vis.len == n, expl.len == n)


# ------------------------------------------------------------------------------------- topological_sort
def topo_setup(ctx):
    for ax in graph_axioms():
        ctx.axiom(ax)
    src = z3.Int("source")
    visited = SymList(ctx, "visited", B)
    exploring = SymList(ctx, "exploring", B)
    order = OrderList(ctx, "order")
    nodes = SymList(ctx, "nodes", Node)
    ctx.assume(nodes.len == n)
    ctx.assume(lists_wellsized(visited, exploring))
    s0 = snap(visited, exploring, order)
    ctx.assume(Pre(s0, src))

    def rec_call(ctx_, rec, args, kwargs):
        tgt, ex_, vi_, or_ = args
        if ex_ is not exploring or vi_ is not visited or or_ is not order:
            from pyvc.engine import Unsupported
            raise Unsupported("recursive call does not pass the same three lists")
        before = snap(visited, exploring, order)
        ctx_.oblige("call-pre", "topological_sort", Pre(before, tgt))
        which = ctx_.choose(2, "rec-call")  # 0: returns, 1: raises ValueError (then the graph is cyclic)
        if which == 1:
            ctx_.assume(Cyc)
            raise PyRaise(ExcVal("ValueError", origin="propagated-from-recursive-call"))
        visited.havoc(); exploring.havoc(); order.havoc()
        ctx_.assume(lists_wellsized(visited, exploring))
        ctx_.assume(Post(before, snap(visited, exploring, order), tgt))
        return None

    self = Rec("DirectedGraph", attrs={"nodes": nodes, "edges_dict": adjacency(ctx)}, methods={"topological_sort": rec_call})

    def inv(ctx_, env, kk):
        s = snap(visited, exploring, order)
        return z3.And(
            lists_wellsized(visited, exploring), Inv(s), G(s, src), z3.Not(s.vis[src]), s.expl[src], 0 <= kk, kk <= elen(src),
            z3.ForAll([v], z3.Implies(z3.And(0 <= v, v < n, v != src), s.expl[v] == s0.expl[v]), patterns=[s.expl[v]]),
            z3.ForAll([v], z3.Implies(z3.And(0 <= v, v < n, s0.vis[v]), s.vis[v]), patterns=[s0.vis[v]]),
            z3.ForAll([i], z3.Implies(z3.And(0 <= i, i < kk), s.vis[earr(src, i)]), patterns=[earr(src, i)]),
            s.olen >= s0.olen,
            z3.ForAll([i], z3.Implies(z3.And(0 <= i, i < s0.olen), s.oarr[s.olen - s0.olen + i] == s0.oarr[i]), patterns=[s0.oarr[i]]),
        )

    def havoc(ctx_, env):
        visited.havoc(); exploring.havoc(); order.havoc()

    loops = {0: LoopSpec(inv=inv, havoc=havoc, havoc_vars=(), havoc_objs=lambda c_, e_: (visited, exploring, order))}
    env = {"self": self, "source": src, "exploring": exploring, "visited": visited, "order": order}
    return Setup(env=env, loops=loops, data={"s0": s0, "src": src, "lists": (visited, exploring, order)},
                 watch={"n": n, "source": src})


def topo_post(ctx, st, result):
    visited, exploring, order = st.data["lists"]
    ctx.oblige("post", "Inv+visited+exploring-restored+suffix", z3.And(lists_wellsized(visited, exploring), Post(st.data["s0"], snap(visited, exploring, order), st.data["src"])))


def topo_raises(ctx, st, exc):
    if exc.cls == "ValueError":
        ctx.oblige("raises", f"ValueError=>graph-has-cycle({exc.origin})", Cyc)
    else:
        ctx.oblige("raises", f"only-ValueError(got {exc.cls}@{exc.origin})", False)


# ------------------------------------------------------------------------------------- get_topological_order
def gto_setup(ctx):
    for ax in graph_axioms():
        ctx.axiom(ax)
    nodes = SymList(ctx, "nodes", Node)
    ctx.assume(nodes.len == n)
    state = {}

    def cur(env):
        vis, expl, order = env.lookup("visited"), env.lookup("exploring"), env.lookup("order")
        if isinstance(order, list):  # `order = []` before the first havoc
            assert order == []
            o = OrderList(ctx, "order0")
            o.len = z3.IntVal(0)
            return vis, expl, o
        return vis, expl, order

    def topo_call(ctx_, rec, args, kwargs):
        src, ex_, vi_, or_ = args
        before = snap(vi_, ex_, or_)
        ctx_.oblige("call-pre", "topological_sort", z3.And(lists_wellsized(vi_, ex_), Pre(before, src)))
        which = ctx_.choose(2, "topo-call")
        if which == 1:
            ctx_.assume(Cyc)
            raise PyRaise(ExcVal("ValueError", origin="propagated-from-topological_sort"))
        vi_.havoc(); ex_.havoc(); or_.havoc()
        ctx_.assume(lists_wellsized(vi_, ex_))
        ctx_.assume(Post(before, snap(vi_, ex_, or_), src))
        return None

    self = Rec("DirectedGraph", attrs={"nodes": nodes, "edges_dict": adjacency(ctx)}, methods={"topological_sort": topo_call})

    def inv(ctx_, env, kk):
        vis, expl, order = cur(env)
        s = snap(vis, expl, order)
        return z3.And(
            lists_wellsized(vis, expl), Inv(s), 0 <= kk, kk <= n,
            z3.ForAll([v], z3.Implies(z3.And(0 <= v, v < n), z3.Not(s.expl[v])), patterns=[s.expl[v]]),
            z3.ForAll([v], z3.Implies(z3.And(0 <= v, v < kk), s.vis[v]), patterns=[s.vis[v]]),
        )

    def havoc(ctx_, env):
        vis, expl = env.lookup("visited"), env.lookup("exploring")
        vis.havoc(); expl.havoc()
        o = OrderList(ctx_, "order")
        env.set("order", o)
        state["order"] = o

    loops = {0: LoopSpec(inv=inv, havoc=havoc, havoc_vars=("order",), havoc_objs=lambda c_, e_: (e_.lookup("visited"), e_.lookup("exploring"), e_.lookup("order")))}
    return Setup(env={"self": self}, loops=loops, data={"nodes": nodes, "state": state}, watch={"n": n})


def gto_post(ctx, st, result):
    env = st.data["env"]
    nodes = st.data["nodes"]
    order = env.lookup("order")
    if not isinstance(result, SymList) or not isinstance(order, OrderList):
        ctx.oblige("post", "result-is-list-built-from-order", False)
        return
    pos = lambda x: order.len - 1 - order.rank[x]  # noqa: E731  position of node index x in `order`
    # the result lists nodes[order[j]] for every j
    ctx.oblige("post", "result[j]==nodes[order[j]]", z3.And(result.len == order.len, z3.ForAll([i], z3.Implies(z3.And(0 <= i, i < order.len), result.arr[i] == nodes.arr[order.arr[i]]))))
    # permutation: order is a bijection between positions [0,len) and node indices [0,n)
    ctx.oblige("post", "order-is-a-permutation-of-node-indices", z3.And(
        z3.ForAll([v], z3.Implies(z3.And(0 <= v, v < n), z3.And(0 <= pos(v), pos(v) < order.len, order.arr[pos(v)] == v))),
        z3.ForAll([i], z3.Implies(z3.And(0 <= i, i < order.len), z3.And(0 <= order.arr[i], order.arr[i] < n, pos(order.arr[i]) == i))),
    ))
    # every edge goes forward: the source is nearer the front than the target
    ctx.oblige("post", "every-edge-goes-forward", z3.ForAll([u, k], z3.Implies(z3.And(0 <= u, u < n, 0 <= k, k < elen(u)), pos(u) < pos(earr(u, k)))))


def gto_raises(ctx, st, exc):
    if exc.cls == "ValueError":
        ctx.oblige("raises", f"ValueError=>graph-has-cycle({exc.origin})", Cyc)
    else:
        ctx.oblige("raises", f"only-ValueError(got {exc.cls}@{exc.origin})", False)


SIZES = tuple(f"(assert (= n {k}))" for k in range(1, 7))

UNITS = [
    Unit("C16", "jsonargparse._link_arguments:DirectedGraph.topological_sort", topo_setup, topo_post, topo_raises,
         expect_cover=("return", "raise:ValueError"), replayer="replayers.c16:replay_graph", refute_hints=SIZES,
         trusted=["Reach is any relation closed under reflexivity and edge steps; Cyc follows from Reach(a,b) & Edge(b,a) (spec axioms)"]),
    Unit("C16", "jsonargparse._link_arguments:DirectedGraph.get_topological_order", gto_setup, gto_post, gto_raises,
         expect_cover=("return", "raise:ValueError"), replayer="replayers.c16:replay_graph", refute_hints=SIZES),
]

from contracts.core_units import instantiate_unit  # noqa: E402
UNITS.append(instantiate_unit("C16"))

VERIFIED_CALLEES = ("self.topological_sort",)
LEVEL = "other"
TECHNIQUE = "contract-based deductive verification: VCs generated from the real AST (loop invariant, recursion by contract, ghost rank), discharged by z3/cvc5; bounded run-time contract checking as stand-in for the parts not under proof"
LEVEL_TEXT = "Proved for every graph of every size (partial correctness): DirectedGraph.topological_sort / get_topological_order return a permutation of the nodes in which every edge goes forward, raise ValueError only if the graph has a cycle, and never index out of range (loop invariant, recursion by contract, ghost finish rank); add_edge for every node list. Verified by complete case analysis: ActionLink.reorder (<= 3 order keys x <= 3 components, keys and dests arbitrary strings: first matching key decides, declaration order inside a group, nothing lost), instantiation_order (edges source -> target and nested target -> enclosing target), apply_instantiation_links (a due link applied exactly once, also for attribute values None / 0; final pass in the reordered order), instantiate_classes (nothing remembered on the parser), ActionLink.__init__ (cycle check at link creation; a refused link leaves the parser as it was - this found that a refused cyclic link corrupted the parser; fixed). Also: find_subclass_action_or_class_group, get_nested_links, ActionTypeHint.instantiate_classes (every value of the option instantiated once, in order, with the option's own settings). Bounded only: the end-to-end construction order through real parsers (every digraph <= 4/5 nodes; every link graph over <= 3/4 class groups in every declaration order)."
LEVEL_NOTE = "under construction"
EXPLANATION = "under construction"
ASSUMPTIONS = [
    "A1 pyvc implements the stated Python semantics for the supported subset (DESIGN 2.3)",
    "A5 partial correctness: termination of the recursion is not proved",
    "A9 z3 5.1 / cvc5 1.0.3 are sound; only `unsat` counts as discharged",
]
TRUSTED = []
BOUNDED = [
    {"name": "graph-contracts-all-small-digraphs", "script": "bounded/b16_graph.py"},
    {"name": "link-graphs-through-real-parsers", "script": "bounded/b16_links.py"},
]


# ------------------------------------------------------------------------------------- add_edge
AA = z3.ArraySort(I, IA)


class Adjacency:
    """edges_dict (a defaultdict(list)) as two arrays: alen[u] = number of targets of node index u, aarr[u][k] = k-th target."""

    def __init__(self, ctx):
        self.ctx = ctx
        self.alen = ctx.fresh("adj.len", IA)
        self.aarr = ctx.fresh("adj.arr", AA)

    def rec(self):
        me = self

        def getitem(c, s_, a, k):
            return AdjView(me, lift_(a[0]))

        return Rec("defaultdict", methods={"__getitem__": getitem})


def lift_(x):
    from pyvc.engine import lift
    return lift(x)


class AdjView(SymList):
    """The list object edges_dict[u]: reads and writes go through to the adjacency arrays (aliasing preserved)."""

    def __init__(self, adj, u):
        self.adj, self.u = adj, u
        self.ctx, self.name, self.esort = adj.ctx, "adj[u]", I

    @property
    def len(self):
        return self.adj.alen[self.u]

    @len.setter
    def len(self, v):
        self.adj.alen = z3.Store(self.adj.alen, self.u, v)

    @property
    def arr(self):
        return self.adj.aarr[self.u]

    @arr.setter
    def arr(self, v):
        self.adj.aarr = z3.Store(self.adj.aarr, self.u, v)


def wf(nlen, narr, alen, aarr):
    j1, j2, k1, k2 = z3.Ints("j1 j2 k1 k2")
    return z3.And(
        nlen >= 0,
        z3.ForAll([j1, j2], z3.Implies(z3.And(0 <= j1, j1 < j2, j2 < nlen), narr[j1] != narr[j2]), patterns=[z3.MultiPattern(narr[j1], narr[j2])]),
        z3.ForAll([u], z3.Implies(z3.And(0 <= u, u < nlen), alen[u] >= 0), patterns=[alen[u]]),
        z3.ForAll([u], z3.Implies(z3.Or(u < 0, u >= nlen), alen[u] == 0), patterns=[alen[u]]),
        z3.ForAll([u, k], z3.Implies(z3.And(0 <= u, u < nlen, 0 <= k, k < alen[u]), z3.And(0 <= aarr[u][k], aarr[u][k] < nlen)), patterns=[aarr[u][k]]),
        z3.ForAll([u, k1, k2], z3.Implies(z3.And(0 <= u, u < nlen, 0 <= k1, k1 < k2, k2 < alen[u]), aarr[u][k1] != aarr[u][k2]), patterns=[z3.MultiPattern(aarr[u][k1], aarr[u][k2])]),
    )


def ae_setup(ctx):
    nodes = SymList(ctx, "nodes", Node)
    adj = Adjacency(ctx)
    source, target = z3.Const("source", Node), z3.Const("target", Node)
    n0, a0, l0, r0 = nodes.len, nodes.arr, adj.alen, adj.aarr
    ctx.assume(wf(n0, a0, l0, r0))
    self = Rec("DirectedGraph", attrs={"nodes": nodes, "edges_dict": adj.rec()})
    return Setup(env={"self": self, "source": source, "target": target}, data=dict(nodes=nodes, adj=adj, n0=n0, a0=a0, l0=l0, r0=r0, source=source, target=target), watch={"n0": n0})


def ae_post(ctx, st, result):
    d = st.data
    nodes, adj = d["nodes"], d["adj"]
    n1, a1, l1, r1 = nodes.len, nodes.arr, adj.alen, adj.aarr
    n0, a0, l0, r0 = d["n0"], d["a0"], d["l0"], d["r0"]
    ctx.oblige("post", "representation-invariant-preserved(nodes distinct, adjacency indices in range, no duplicate targets)", wf(n1, a1, l1, r1))
    ctx.oblige("post", "old-nodes-stay-a-prefix(indices of existing nodes never change)", z3.And(n1 >= n0, n1 <= n0 + 2, z3.ForAll([i], z3.Implies(z3.And(0 <= i, i < n0), a1[i] == a0[i]), patterns=[a0[i]])))
    si, ti = z3.Ints("si ti")
    has = lambda L, R, x, y: z3.Exists([k], z3.And(0 <= k, k < L[x], R[x][k] == y))  # noqa: E731
    ctx.oblige("post", "both-end-points-are-nodes-and-the-edge-is-present", z3.Exists([si, ti], z3.And(0 <= si, si < n1, 0 <= ti, ti < n1, a1[si] == d["source"], a1[ti] == d["target"], has(l1, r1, si, ti))))
    ctx.oblige("post", "every-old-edge-is-still-present", z3.ForAll([u, v], z3.Implies(z3.And(0 <= u, u < n0, has(l0, r0, u, v)), has(l1, r1, u, v))))
    ctx.oblige("post", "no-edge-other-than-(source,target)-is-added", z3.ForAll([u, v], z3.Implies(z3.And(0 <= u, u < n1, has(l1, r1, u, v), z3.Not(z3.And(a1[u] == d["source"], a1[v] == d["target"]))), z3.And(u < n0, has(l0, r0, u, v)))))


def ae_raises(ctx, st, exc):
    ctx.oblige("raises", f"never-raises(got {exc.cls}@{exc.origin})", False)


UNITS.append(Unit("C16", "jsonargparse._link_arguments:DirectedGraph.add_edge", ae_setup, ae_post, ae_raises, refute_hints=tuple(f"(assert (= nodes.len!0 {k}))" for k in range(0, 4)),
                  trusted=["edges_dict is a defaultdict(list): indexing a missing key yields an empty list stored under that key"]))


# ------------------------------------------------------------------------------------- apply_instantiation_links
def ail_setup(ctx):
    from pyvc.engine import ClassRef
    mode = ["target", "final-pass-with-order"][ctx.choose(2, "mode")]
    src_kind = ["whole-object", "attribute"][ctx.choose(2, "source-kind")]
    attr_state = ["value", "None", "missing"][ctx.choose(3, "attribute-state")] if src_kind == "attribute" else None
    src_is_subclass = ctx.choose(2, "source-is-subclass-typed") == 1 if src_kind == "attribute" else False
    has_fn = ctx.choose(2, "compute_fn") == 1
    matches = ["exact", "below-target", "other"][ctx.choose(3, "target-key")] if mode == "target" else "exact"
    already = ctx.choose(2, "already-applied") == 1
    nested = ctx.choose(2, "nested-link") == 1
    attr_val = z3.Int("source.attr")
    obj_attrs = {}
    if attr_state == "value":
        obj_attrs["size"] = attr_val
    elif attr_state == "None":
        obj_attrs["size"] = None
    source_obj = Rec("SourceInstance", attrs=obj_attrs)
    source_action = Rec("ActionTypeHint", attrs={"dest": "data"})
    computed = z3.Int("compute_fn(...)")
    target_key = {"exact": "model", "below-target": "model.init_args.n", "other": "other.x"}[matches]

    def call_fn(c, s_, a, k):
        c.event("compute", tuple(a[0]))
        return computed

    action = Rec("ActionLink", attrs={"target": (target_key, Rec("Action")), "source": [("data" if src_kind == "whole-object" else "data.size", source_action)],
                                      "compute_fn": Rec("fn") if has_fn else None, "option_strings": ["--x"]}, methods={"call_compute_fn": call_fn})
    applied = set([action]) if already else set()
    applied_rec = Rec("set", attrs={"items": applied}, methods={"add": lambda c, s_, a, k: (applied.add(a[0]), c.event("mark-applied", a[0]))[1]})
    store = {"data": source_obj}
    stored_back = {}
    key = "__applied_instantiation_links__"
    has_key = ctx.choose(2, "applied-set-in-cfg") == 1

    def cfg_setitem(c, s_, a, k):
        stored_back[a[0]] = a[1]

    cfg = Rec("Namespace", methods={"__contains__": lambda c, s_, a, k: a[0] == key and has_key, "pop": lambda c, s_, a, k: applied_rec,
                                    "__getitem__": lambda c, s_, a, k: store[a[0]], "__setitem__": cfg_setitem})
    parser = Rec("ArgumentParser", attrs={"_links_group": Rec("g"), "logger": Rec("Logger", methods={"debug": lambda c, s_, a, k: None})})

    def get_link_actions(c, a, k):
        skip = k.get("skip")
        items = skip.attrs["items"] if isinstance(skip, Rec) else skip
        return [x for x in [action] if x not in items]

    def set_model(c, a, k):
        return Rec("set", attrs={"items": applied}, methods=applied_rec.methods) if not has_key else applied_rec

    calls = {
        "get_link_actions": get_link_actions, "set": lambda c, a, k: applied_rec,
        "ActionLink.reorder": lambda c, a, k: list(a[1]),
        "is_nested_instantiation_link": lambda c, a, k: nested,
        "split_key_leaf": lambda c, a, k: a[0].rsplit(".", 1),
        "ActionTypeHint.is_subclass_typehint": lambda c, a, k: src_is_subclass,
        "ActionLink.set_target_value": lambda c, a, k: c.event("set-target", a[0], a[1]),
    }
    env = {"parser": parser, "cfg": cfg, "target": "model" if mode == "target" else None, "order": ["data", "model"] if mode != "target" else None}
    return Setup(env=env, calls=calls, data=dict(mode=mode, src_kind=src_kind, attr_state=attr_state, src_is_subclass=src_is_subclass, has_fn=has_fn, matches=matches, already=already, nested=nested,
                                                 action=action, source_obj=source_obj, attr_val=attr_val, computed=computed, applied=applied, stored_back=stored_back, key=key, applied_rec=applied_rec))


def ail_post(ctx, st, result):
    d = st.data
    sets = [e for e in ctx.events if e[0] == "set-target"]
    tag = f"[{d['mode']},{d['src_kind']}{':' + d['attr_state'] if d['attr_state'] else ''}{',subclass-source' if d['src_is_subclass'] else ''}{',fn' if d['has_fn'] else ''},{d['matches']}{',already' if d['already'] else ''}{',nested' if d['nested'] else ''}]"
    due = (not d["already"]) and (not d["nested"]) and (d["mode"] != "target" or d["matches"] in ("exact", "below-target"))
    skippable = d["src_kind"] == "attribute" and d["attr_state"] == "missing" and d["src_is_subclass"]
    if due and d["attr_state"] == "missing" and not d["src_is_subclass"]:
        ctx.oblige("post", "a-missing-attribute-of-a-non-subclass-source-is-an-error" + tag, False)
        return
    if due and not skippable:
        ctx.oblige("post", "a-due-link-is-applied-exactly-once" + tag, len(sets) == 1 and sets[0][1] is d["action"])
        if len(sets) == 1:
            src_val = d["source_obj"] if d["src_kind"] == "whole-object" else (d["attr_val"] if d["attr_state"] == "value" else None)
            if d["has_fn"]:
                comp = [e for e in ctx.events if e[0] == "compute"]
                ctx.oblige("post", "compute_fn-gets-the-source-object/attribute(also when the attribute is None)" + tag, len(comp) == 1 and len(comp[0][1]) == 1 and comp[0][1][0] is src_val)
                ctx.oblige("post", "the-target-receives-compute_fn(source)" + tag, sets[0][2] is d["computed"])
            else:
                ctx.oblige("post", "the-target-receives-the-source-object/attribute(also when the attribute is None)" + tag, sets[0][2] is src_val)
        ctx.oblige("post", "an-applied-link-is-recorded-as-applied" + tag, d["action"] in d["applied"])
    else:
        ctx.oblige("post", "a-link-that-is-not-due(other target, nested, already applied, or attribute absent on a subclass source)-is-not-applied" + tag, not sets)
    if d["mode"] == "target":
        ctx.oblige("post", "the-applied-set-is-stored-back-for-the-next-component" + tag, d["stored_back"].get(d["key"]) is not None)


def ail_raises(ctx, st, exc):
    d = st.data
    ok = exc.cls == "AttributeError" and d["attr_state"] == "missing" and not d["src_is_subclass"]
    ctx.oblige("raises", f"only-a-missing-attribute-of-a-non-subclass-source-raises(got {exc.cls}@{exc.origin})", ok)


UNITS.append(Unit("C16", "jsonargparse._link_arguments:ActionLink.apply_instantiation_links", ail_setup, ail_post, ail_raises, max_paths=20000,
                  trusted=["set_target_value(action, value, cfg) stores value at the link's target (C15 unit)", "get_link_actions lists the instantiate links not yet applied", "one link with one source per scenario"]))


# ------------------------------------------------------------------------------------------------ ActionLink.reorder
# instantiate_classes builds the components in reorder(instantiation_order, components): a component belongs to the first key of the
# order that names it (its dest equals the key or lies below it); groups follow the order of the keys; components named by no key
# come last; inside a group and among the rest the declaration order is kept; every component appears exactly once.
def ro_setup(ctx):
    n, m = [(0, 2), (1, 1), (1, 3), (2, 2), (2, 3), (3, 2), (3, 3), (2, 4)][ctx.choose(8, "sizes(order,components)")]
    keys = [z3.String(f"order{i}") for i in range(n)]
    dests = [z3.String(f"dest{j}") for j in range(m)]
    comps = [Rec("Action", attrs={"dest": d, "index": j}) for j, d in enumerate(dests)]
    return Setup(env={"order": list(keys), "components": list(comps)}, data=dict(keys=keys, dests=dests, comps=comps, n=n, m=m))


def ro_post(ctx, st, result):
    d = st.data
    n, m = d["n"], d["m"]
    tag = f"[{n} keys,{m} components]"
    once = isinstance(result, list) and len(result) == m and sorted(c.attrs["index"] for c in result) == list(range(m)) and all(result[i] is d["comps"][result[i].attrs["index"]] for i in range(m))
    ctx.oblige("post", "every-component-appears-exactly-once(nothing dropped, nothing duplicated)" + tag, once)
    if not once:
        return
    dot = z3.StringVal(".")

    def named(i, j):
        return z3.Or(d["keys"][i] == d["dests"][j], z3.PrefixOf(z3.Concat(d["keys"][i], dot), d["dests"][j]))

    def group(j):
        g = z3.IntVal(n)  # named by no key: after all groups
        for i in reversed(range(n)):
            g = z3.If(named(i, j), z3.IntVal(i), g)
        return g

    idx = [c.attrs["index"] for c in result]
    goals = []
    for a, b in zip(idx, idx[1:]):
        goals.append(z3.Or(group(a) < group(b), z3.And(group(a) == group(b), z3.BoolVal(a < b))))
    ctx.oblige("post", "components-follow-the-order-of-the-keys(first key that names them);declaration-order-within-a-group-and-among-the-unnamed,which-come-last" + tag,
               z3.And(*goals) if goals else z3.BoolVal(True), strings=True)


def ro_raises(ctx, st, exc):
    ctx.oblige("raises", f"never-raises(got {exc.cls}@{exc.origin})", False)


UNITS.append(Unit("C16", "jsonargparse._link_arguments:ActionLink.reorder", ro_setup, ro_post, ro_raises, max_paths=20000, split=8,
                  trusted=["complete case analysis for <= 3 order keys x <= 3 components (and 2 x 4), keys and dests arbitrary strings"]))


# ------------------------------------------------------------------------------------------------ ActionLink.instantiation_order
def io_setup(ctx):
    scen = ["no-links", "one-link", "chain", "two-sources", "init_args-target", "nested-targets", "nested-init_args-targets", "same-target-twice", "three-levels-of-targets"][ctx.choose(9, "links")]
    A = lambda dest: Rec("Action", attrs={"dest": dest})  # noqa: E731
    L = lambda sources, target: Rec("ActionLink", attrs={"source": [(s, A(s)) for s in sources], "target": (target, A(target.split(".")[0]))})  # noqa: E731
    links = {
        "no-links": [],
        "one-link": [L(["a"], "b.x")],
        "chain": [L(["a"], "b.x"), L(["b"], "c.y")],
        "two-sources": [L(["a", "d"], "b.x")],
        "init_args-target": [L(["a"], "m.init_args.x")],
        "nested-targets": [L(["a"], "b.x"), L(["c"], "b.sub.y")],
        "nested-init_args-targets": [L(["a"], "m.init_args.x"), L(["c"], "m.init_args.child.init_args.y")],
        "same-target-twice": [L(["a"], "b.x"), L(["c"], "b.y")],
        "three-levels-of-targets": [L(["a"], "b.x"), L(["c"], "b.sub.y"), L(["d"], "b.sub.deep.z")],
    }[scen]
    edges = []
    order_result = Rec("topological order")
    graph = Rec("DirectedGraph", methods={"add_edge": lambda c, s_, a, k: edges.append((a[0], a[1])), "get_topological_order": lambda c, s_, a, k: (c.event("order-of", list(edges)), order_result)[1]})

    def re_sub(c, a, k):
        import re as _re
        return _re.sub(a[0], a[1], a[2])  # concrete strings: CPython's own re

    calls = {"get_link_actions": lambda c, a, k: (c.event("links-looked-up", a[1]), list(links))[1], "DirectedGraph": lambda c, a, k: graph, "re.sub": re_sub}
    return Setup(env={"parser": Rec("ArgumentParser")}, calls=calls, inline={"split_key_leaf": "jsonargparse._namespace:split_key_leaf", "split_key": "jsonargparse._namespace:split_key"},
                 data=dict(scen=scen, edges=edges, order_result=order_result))


IO_EXPECT = {
    # edges source component -> target component; plus target -> enclosing target (the inner object is built first and handed to the outer one)
    "one-link": {("a", "b")}, "chain": {("a", "b"), ("b", "c")}, "two-sources": {("a", "b"), ("d", "b")}, "init_args-target": {("a", "m")},
    "nested-targets": {("a", "b"), ("c", "b.sub"), ("b.sub", "b")}, "nested-init_args-targets": {("a", "m"), ("c", "m.init_args.child"), ("m.init_args.child", "m")},
    "same-target-twice": {("a", "b"), ("c", "b")},
    "three-levels-of-targets": {("a", "b"), ("c", "b.sub"), ("d", "b.sub.deep"), ("b.sub", "b"), ("b.sub.deep", "b"), ("b.sub.deep", "b.sub")},
}


def io_post(ctx, st, result):
    d = st.data
    tag = f"[{d['scen']}]"
    if d["scen"] == "no-links":
        ctx.oblige("post", "no-instantiation-links=>no-constraint(empty order)" + tag, result == [] and not d["edges"])
        return
    ctx.oblige("post", "one-edge-per-(source component -> target component)-and-per-(nested target -> enclosing target);no-other-edge" + tag, set(d["edges"]) == IO_EXPECT[d["scen"]])
    ctx.oblige("post", "the-order-returned-is-the-topological-order-of-exactly-that-graph" + tag, result is d["order_result"] and [e for e in ctx.events if e[0] == "order-of"] == [("order-of", list(d["edges"]))])
    ctx.oblige("post", "only-links-applied-on-instantiate-are-considered" + tag, ("links-looked-up", "instantiate") in ctx.events)


def io_raises(ctx, st, exc):
    ctx.oblige("raises", f"never-raises(got {exc.cls}@{exc.origin})", False)


UNITS.append(Unit("C16", "jsonargparse._link_arguments:ActionLink.instantiation_order", io_setup, io_post, io_raises,
                  trusted=["DirectedGraph.add_edge / get_topological_order by contract (their own units)", "get_link_actions(parser, 'instantiate') lists the instantiation links", "re.sub on concrete strings evaluated by CPython"]))

# the declaration of a link (cycle check at link creation; a refused link leaves the parser usable)
from contracts.share import shared  # noqa: E402
UNITS += shared("C16", "contracts.c15", "ActionLink.__init__")


# apply_instantiation_links, final pass: the links that are still due are applied in the instantiation order (a link whose source is
# itself a link target must see the value the earlier link put there), i.e. in the order reorder(order, links) gives
def ail2_setup(ctx):
    with_order = ctx.choose(2, "order-given") == 1
    n_due = ctx.choose(3, "links-still-due")
    objs = {"s1": Rec("object s1"), "s2": Rec("object s2")}
    mk = lambda i: Rec("ActionLink", attrs={"target": (f"t{i}", Rec("Action")), "source": [(f"s{i}", Rec("Action", attrs={"dest": f"s{i}"}))], "compute_fn": None, "option_strings": [f"--l{i}"], "dest": f"t{i}"})  # noqa: E731
    links = [mk(1), mk(2)][:n_due]
    applied = set()
    cfg = Rec("Namespace", methods={"__contains__": lambda c, s_, a, k: False, "__getitem__": lambda c, s_, a, k: objs[a[0]], "__setitem__": lambda c, s_, a, k: c.event("cfg-set", a[0], a[1])})
    parser = Rec("ArgumentParser", attrs={"_links_group": Rec("g"), "logger": Rec("Logger", methods={"debug": lambda c, s_, a, k: None})})
    order = ["t2", "t1"] if with_order else None

    def reorder(c, a, k):
        c.event("reorder", a[0], list(a[1]))
        return list(reversed(a[1]))

    calls = {"get_link_actions": lambda c, a, k: (c.event("due-links", a[1], k.get("skip")), list(links))[1], "set": lambda c, a, k: applied, "ActionLink.reorder": reorder,
             "is_nested_instantiation_link": lambda c, a, k: False, "ActionLink.set_target_value": lambda c, a, k: c.event("set-target", a[0], a[1])}
    return Setup(env={"parser": parser, "cfg": cfg, "target": None if with_order else "t1", "order": order}, calls=calls, data=dict(with_order=with_order, links=links, objs=objs, order=order, applied=applied))


def ail2_post(ctx, st, result):
    d = st.data
    tag = f"[{'final pass with order' if d['with_order'] else 'one target'},{len(d['links'])} links due]"
    sets = [e for e in ctx.events if e[0] == "set-target"]
    ro = [e for e in ctx.events if e[0] == "reorder"]
    if d["with_order"]:
        want = list(reversed(d["links"]))
        ctx.oblige("post", "with-an-instantiation-order-the-due-links-are-applied-in-the-order-reorder(order, links)-gives" + tag,
                   [e[1] for e in sets] == want and (len(ro) == (1 if d["links"] else 0)) and all(e[1] is d["order"] and e[2] == d["links"] for e in ro))
    else:
        want = [x for x in d["links"] if x.attrs["target"][0] == "t1"]
        ctx.oblige("post", "for-one-target-only-the-links-into-it-are-applied,in-declaration-order,without-reordering" + tag, [e[1] for e in sets] == want and not ro)
    ctx.oblige("post", "each-applied-link-feeds-its-target-with-its-source-object-and-is-marked-applied" + tag,
               all(e[2] is d["objs"][e[1].attrs["source"][0][0]] for e in sets) and d["applied"] == set(e[1] for e in sets))
    dl = [e for e in ctx.events if e[0] == "due-links"]
    ctx.oblige("post", "only-instantiation-links-not-applied-yet-are-considered" + tag, len(dl) == 1 and dl[0][1] == "instantiate" and dl[0][2] is d["applied"])


UNITS.append(Unit("C16", "jsonargparse._link_arguments:ActionLink.apply_instantiation_links", ail2_setup, ail2_post, ail_raises, label="order-of-application", max_paths=200,
                  trusted=["ActionLink.reorder: its own unit", "get_link_actions: its own unit (C15)", "set_target_value: its own unit (C15)"]))


from contracts.link_helpers import find_subclass_action_or_class_group_unit, get_nested_links_unit  # noqa: E402
UNITS += [find_subclass_action_or_class_group_unit("C16"), get_nested_links_unit("C16")]

from contracts.any_units import typehint_instantiate_unit  # noqa: E402
UNITS.append(typehint_instantiate_unit("C16"))

from contracts.share import carried as _carried  # noqa: E402
UNITS += _carried("C16")
