"""C04 - sources override each other in the documented order, left to right.

What a precedence bug is: a swapped pair of merge arguments, or sources applied in the wrong sequence.  Proved here, on
the real bodies, over the abstract override operator ov(base, top):
  ArgumentParser._parse_defaults_and_environ   result == ov(defaults, env)           (environment overrides defaults)
  ArgumentParser.merge_config                   result == ov(cfg_to, cfg_from) on clones (arguments untouched)
  ArgumentParser.parse_args                     argparse is seeded with ov(ov(defaults, env), namespace)
  ArgumentParser.parse_object                   ov(ov(pde, cfg_base) applied, cfg_obj applied)
  ArgumentParser.parse_string                   ov(pde, loaded string)
  ActionConfigFile.apply_config                 cfg' == ov(cfg so far, parsed file)   (takes effect at its argv position)
  ArgumentParser._load_env_vars                 config variable first, then subcommand, then the individual variables
  get_env_var                                   PREFIX_LEV__OPT spelling
"""
import z3

from contracts.parse_models import ParserModel, cfg, expr_of, noop_cm, ov
from pyvc.engine import ClassRef, ExcVal, PyRaise, Rec, Unsupported, lift, is_z3
from pyvc.units import Setup, Unit


def no_exc(ctx, st, exc):
    ctx.oblige("raises", f"no-exception-in-the-fault-free-model(got {exc.cls}@{exc.origin})", False)


# ------------------------------------------------------------------------------------- _parse_defaults_and_environ
def pde_setup(ctx):
    pm = ParserModel(ctx)
    defaults = ctx.choose(2, "defaults") == 1
    env = [None, True, False][ctx.choose(3, "env")]
    default_env = ctx.choose(2, "self._default_env") == 1
    pm.rec.attrs["_default_env"] = default_env
    environ = [None, Rec("dict", attrs={"tag": "given-environ"})][ctx.choose(2, "environ-given")]
    calls = {"Namespace": lambda c, a, k: cfg("EMPTY")}
    consts = {"os.environ": Rec("dict", attrs={"tag": "os.environ"})}
    return Setup(env={"self": pm.rec, "defaults": defaults, "env": env, "environ": environ}, calls=calls, consts=consts, cms={"parser_context": noop_cm("parser_context")},
                 data=dict(defaults=defaults, env_on=(env is True or (env is None and default_env)), environ=environ))


def pde_post(ctx, st, result):
    d = st.data
    base = "DEFAULTS" if d["defaults"] else "EMPTY"
    calls = [e for e in ctx.events if e[0] == "call"]
    if d["env_on"]:
        envs = [e for e in calls if e[1] == "_load_env_vars"]
        ok_env = len(envs) == 1 and (envs[0][3].get("env") is d["environ"] if d["environ"] is not None else getattr(envs[0][3].get("env"), "attrs", {}).get("tag") == "os.environ")
        ctx.oblige("post", "environment-read-from-the-given-mapping-or-os.environ", ok_env)
        want = ov(base, ("ENV", envs[0][3].get("env"))) if envs else None
        ctx.oblige("post", "result==ov(defaults, environment)", expr_of(result) == want, note=f"got {expr_of(result)}")
        ctx.oblige("post", "environment-loaded-with-the-same-defaults-flag", len(envs) == 1 and envs[0][3].get("defaults") is d["defaults"])
    else:
        ctx.oblige("post", "environment-off=>defaults-only", expr_of(result) == base and not [e for e in calls if e[1] == "_load_env_vars"])


# ------------------------------------------------------------------------------------- merge_config
def mc_setup(ctx):
    log = ctx.events

    def mk(name):
        def clone(c, s_, a, k):
            c.event("clone", name)
            copy = Rec("Namespace", attrs={"expr": name, "is_clone_of": name}, methods={"update": update})
            return copy
        return Rec("Namespace", attrs={"expr": name}, methods={"clone": clone, "update": lambda c, s_, a, k: c.event("MUTATED-ARGUMENT", name)})

    def update(c, s_, a, k):
        c.event("update", s_.attrs["is_clone_of"], getattr(a[0], "attrs", {}).get("is_clone_of"))
        s_.attrs["expr"] = ov(s_.attrs["expr"], expr_of(a[0]))
        return s_

    cfg_from, cfg_to = mk("FROM"), mk("TO")
    calls = {
        "ActionTypeHint.discard_init_args_on_class_path_change": lambda c, a, k: c.event("discard", a[1].attrs.get("is_clone_of"), a[2].attrs.get("is_clone_of")),
        "ActionTypeHint.apply_appends": lambda c, a, k: c.event("apply_appends", a[1].attrs.get("is_clone_of")),
    }
    return Setup(env={"self": Rec("ArgumentParser"), "cfg_from": cfg_from, "cfg_to": cfg_to}, calls=calls, cms={"parser_context": noop_cm("parser_context")}, data={})


def mc_post(ctx, st, result):
    ev = ctx.events
    ctx.oblige("post", "result==ov(cfg_to, cfg_from)(cfg_from overrides)", expr_of(result) == ov("TO", "FROM"), note=str(expr_of(result)))
    ctx.oblige("frame", "both-arguments-are-cloned-and-never-updated-in-place", not [e for e in ev if e[0] == "MUTATED-ARGUMENT"] and sorted(e[1] for e in ev if e[0] == "clone") == ["FROM", "TO"])
    ctx.oblige("post", "result-is-the-clone-of-cfg_to(a new object)", isinstance(result, Rec) and result.attrs.get("is_clone_of") == "TO")
    ctx.oblige("post", "appends-resolved-after-the-update", [e[0] for e in ev if e[0] in ("update", "apply_appends")] == ["update", "apply_appends"])
    ctx.oblige("post", "init_args-of-a-changed-class-discarded-in-(cfg_to, cfg_from)-order-before-the-update", [e for e in ev if e[0] in ("discard", "update")][:1] == [("discard", "TO", "FROM")])


# ------------------------------------------------------------------------------------- parse_args / parse_object / parse_string
def common_calls(ctx):
    return {
        "get_private_kwargs": lambda c, a, k: tuple(k.values()) if len(k) > 1 else list(k.values())[0],
        "return_parser_if_captured": lambda c, a, k: None,
        "handle_completions": lambda c, a, k: None,
        "previous_config.get": lambda c, a, k: None,
        "recreate_branches": lambda c, a, k: (c.event("copy", a[0]), cfg(expr_of(a[0])))[1],  # contract of recreate_branches (C08 unit): an equal, fresh copy
    }


def pa_setup(ctx, faults=False):
    pm = ParserModel(ctx, faults=faults)
    ns_given = ctx.choose(2, "namespace-given") == 1
    namespace = cfg("NAMESPACE") if ns_given else None
    args = ["--a=1"]
    env = {"self": pm.rec, "args": args, "namespace": namespace, "env": None, "defaults": True, "with_meta": None, "kwargs": {}}
    cms = {"_ActionSubCommands.parse_kwargs_context": noop_cm("parse_kwargs_context")}
    return Setup(env=env, calls=common_calls(ctx), cms=cms, data=dict(ns_given=ns_given, pm=pm))


def pa_post(ctx, st, result):
    d = st.data
    calls = [e for e in ctx.events if e[0] == "call"]
    known = [e for e in calls if e[1] == "parse_known_args"]
    seed = ov(("defaults+env", True, None), "NAMESPACE") if d["ns_given"] else ("defaults+env", True, None)
    ctx.oblige("post", "argparse-is-seeded-with-ov(ov(defaults, env), namespace)", len(known) == 1 and expr_of(known[0][3].get("namespace")) == seed, note=str([expr_of(e[3].get("namespace")) for e in known]))
    ctx.oblige("post", "leftover-arguments-are-never-accepted", not any(x == "leftover-arguments=1" for x in ctx.decisions_txt))
    ctx.oblige("post", "returns-what-_parse_common-made-of-the-argv-result", expr_of(result) == ("common", ("argv-applied-left-to-right-on", seed)))


def po_setup(ctx, faults=False):
    pm = ParserModel(ctx, faults=faults)
    base_given = ctx.choose(2, "cfg_base-given") == 1
    env = {"self": pm.rec, "cfg_obj": cfg("OBJ"), "cfg_base": cfg("BASE") if base_given else None, "env": None, "defaults": True, "with_meta": None, "kwargs": {}}
    return Setup(env=env, calls=common_calls(ctx), data=dict(base_given=base_given, pm=pm))


def po_post(ctx, st, result):
    d = st.data
    pde = ("defaults+env", True, None)
    start = ov(pde, "BASE") if d["base_given"] else pde
    want = ("common", ov(("applied", start), ("applied", "OBJ")))
    ctx.oblige("post", "result==common(ov(applied(ov(defaults+env, cfg_base)), applied(cfg_obj)))", expr_of(result) == want, note=str(expr_of(result)))
    ap = [e for e in ctx.events if e[0] == "call" and e[1] == "_apply_actions"]
    ctx.oblige("post", "the-object-is-applied-with-the-base-configuration-as-previous-values", len(ap) == 2 and expr_of(ap[1][3].get("prev_cfg")) == ("applied", start))
    ctx.oblige("frame", "the-caller's-object-itself-is-never-handed-to-_apply_actions(which adapts values in place): a copy is", len(ap) == 2 and ap[1][2][0] is not st.env["cfg_obj"] and expr_of(ap[1][2][0]) == "OBJ")


def ps_setup(ctx, faults=False):
    pm = ParserModel(ctx, faults=faults)
    defaults = ctx.choose(2, "defaults") == 1
    env_flag = [None, True, False][ctx.choose(3, "env")]
    env = {"self": pm.rec, "cfg_str": z3.String("cfg_str"), "cfg_path": "", "ext_vars": None, "env": env_flag, "defaults": defaults, "with_meta": None, "kwargs": {}}
    return Setup(env=env, calls=common_calls(ctx), cms={"parser_context": noop_cm("parser_context")}, data=dict(defaults=defaults, env_flag=env_flag, pm=pm))


def ps_post(ctx, st, result):
    d = st.data
    loaded = ("loaded", "cfg_str")
    if d["defaults"] or d["env_flag"]:
        want = ("common", ov(("defaults+env", d["defaults"], d["env_flag"]), loaded))
    else:
        want = ("common", loaded)
    ctx.oblige("post", "result==common(ov(defaults+env, loaded string))", expr_of(result) == want, note=str(expr_of(result)))


# ------------------------------------------------------------------------------------- ActionConfigFile.apply_config
def ac_setup(ctx):
    is_path = ctx.choose(2, "value-is-a-readable-path") == 1
    store = {"expr": "CFG-SO-FAR", "cfg": None}
    dict_rec = Rec("dict", methods={"update": lambda c, s_, a, k: (store.__setitem__("expr", a[0].attrs["expr"]), c.event("in-place-update"))[1]})
    dest_list = []
    cfg_rec = Rec("Namespace", attrs={"expr": "CFG-SO-FAR", "__dict__": dict_rec}, methods={
        "get": lambda c, s_, a, k: store["cfg"], "__setitem__": lambda c, s_, a, k: store.__setitem__("cfg", a[1]), "__getitem__": lambda c, s_, a, k: store["cfg"]})
    path_obj = Rec("Path")

    def path_ctor(c, a, k):
        if is_path:
            return path_obj
        raise PyRaise(ExcVal("PathError", origin="Path()"))

    file_cfg = Rec("Namespace", attrs={"expr": "FILE"})
    merged = {}

    def merge_config(c, s_, a, k):
        c.event("merge", expr_of(a[0]), expr_of(a[1]))
        return Rec("Namespace", attrs={"expr": ov(expr_of(a[1]), expr_of(a[0])), "__dict__": Rec("dict", attrs={"expr": ov(expr_of(a[1]), expr_of(a[0]))})})

    parser = Rec("ArgumentParser", methods={
        "parse_path": lambda c, s_, a, k: (c.event("parse_path", dict(k)), file_cfg)[1],
        "parse_string": lambda c, s_, a, k: (c.event("parse_string", dict(k)), file_cfg)[1],
        "merge_config": merge_config})
    calls = {"Path": path_ctor, "get_config_read_mode": lambda c, a, k: "fr", "load_value": lambda c, a, k: Rec("dict"), "get_loader_exceptions": lambda c, a, k: (ClassRef("YAMLError"),)}
    cms = {"_ActionSubCommands.not_single_subcommand": noop_cm("not_single"), "previous_config_context": noop_cm("previous_config"), "skip_apply_links": noop_cm("skip_links")}
    ctx.classes.add("YAMLError", ["Exception"])
    return Setup(env={"parser": parser, "cfg": cfg_rec, "dest": "cfg", "value": z3.String("value")}, calls=calls, cms=cms, data=dict(store=store, is_path=is_path, path_obj=path_obj))


def ac_post(ctx, st, result):
    d = st.data
    merges = [e for e in ctx.events if e[0] == "merge"]
    ctx.oblige("post", "cfg'==ov(cfg so far, config file)(the file overrides what came before it)", merges == [("merge", "FILE", "CFG-SO-FAR")] and d["store"]["expr"] == ov("CFG-SO-FAR", "FILE"), note=str(merges))
    sub = [e for e in ctx.events if e[0] in ("parse_path", "parse_string")]
    ctx.oblige("post", "the-file-is-parsed-without-defaults-and-environment(so it only carries its own settings)", len(sub) == 1 and sub[0][1].get("env") is False and sub[0][1].get("defaults") is False)
    ctx.oblige("post", "read-as-a-path-when-it-is-one-else-as-a-string", len(sub) == 1 and sub[0][0] == ("parse_path" if d["is_path"] else "parse_string"))
    ctx.oblige("post", "the-config-path-is-recorded-under-dest", isinstance(d["store"]["cfg"], list) and len(d["store"]["cfg"]) == 1 and d["store"]["cfg"][0] is (d["path_obj"] if d["is_path"] else None))


# ------------------------------------------------------------------------------------- _load_env_vars
def le_setup(ctx):
    order = [(0, 1, 2), (2, 1, 0), (1, 0, 2), (2, 0, 1)][ctx.choose(4, "declaration-order")]
    kinds = ["ActionConfigFile", "_ActionSubCommands", "ActionTypeHint"]
    acts = [Rec(kinds[i], attrs={"dest": ["cfg", "subcommand", "a"][i], "choices": {"fit": 1}, "_name_parser_map": {"fit": Rec("ArgumentParser", methods={"parse_env": lambda c, s_, a, k: (c.event("sub.parse_env"), Rec("Namespace", attrs={"vars": {"x": 1}}))[1]})}}) for i in order]
    envmap = {"APP_CFG": z3.String("env.cfg"), "APP_SUBCOMMAND": "fit", "APP_A": z3.String("env.a")}
    present = {k: ctx.choose(2, f"{k}-set") == 1 for k in envmap}
    env_rec = Rec("dict", methods={"__contains__": lambda c, s_, a, k: present.get(a[0], False), "__getitem__": lambda c, s_, a, k: envmap[a[0]]})
    store = {}
    cfg_rec = Rec("Namespace", methods={"__setitem__": lambda c, s_, a, k: (store.__setitem__(a[0], a[1]), c.event("set", a[0]))[1]})
    self = Rec("ArgumentParser", attrs={"_actions": acts}, methods={
        "_check_value_key": lambda c, s_, a, k: (c.event("check", a[0].attrs["dest"], a[1]), a[1])[1],
        "_apply_actions": lambda c, s_, a, k: c.event("apply_actions")})
    calls = {
        "filter_default_actions": lambda c, a, k: list(a[0]),
        "get_env_var": lambda c, a, k: {"cfg": "APP_CFG", "subcommand": "APP_SUBCOMMAND", "a": "APP_A"}[a[1].attrs["dest"]],
        "ActionConfigFile.apply_config": lambda c, a, k: c.event("apply_config", a[2], a[3]),
        "Namespace": lambda c, a, k: cfg_rec, "_is_action_value_list": lambda c, a, k: False,
        "vars": lambda c, a, k: a[0].attrs["vars"],
    }
    return Setup(env={"self": self, "env": env_rec, "defaults": True}, calls=calls, data=dict(present=present, envmap=envmap, store=store))


def le_post(ctx, st, result):
    d = st.data
    seq = [e[0] + ":" + str(e[1]) for e in ctx.events if e[0] in ("apply_config", "check")]
    want = (["apply_config:cfg"] if d["present"]["APP_CFG"] else []) + (["check:subcommand"] if d["present"]["APP_SUBCOMMAND"] else []) + (["check:a"] if d["present"]["APP_A"] else [])
    ctx.oblige("post", "order:config-variable,then-subcommand,then-individual-variables(whatever the declaration order)", seq == want, note=f"{seq} vs {want}")
    if d["present"]["APP_A"]:
        ctx.oblige("post", "an-individual-variable-ends-up-as-the-value-of-its-key(overriding the env config)", d["store"].get("a") is d["envmap"]["APP_A"])
    if d["present"]["APP_SUBCOMMAND"]:
        ctx.oblige("post", "subcommand-environment-is-merged-under-the-subcommand's-name", "fit.x" in d["store"] and d["store"].get("subcommand") == "fit")


UNITS = [
    Unit("C04", "jsonargparse._core:ArgumentParser._parse_defaults_and_environ", pde_setup, pde_post, no_exc),
    Unit("C04", "jsonargparse._core:ArgumentParser.merge_config", mc_setup, mc_post, no_exc,
         trusted=["Namespace.update(top): top's leaves override, `key+` marks are resolved by apply_appends (C11/C04 bounded)", "Namespace.clone returns a new object"]),
    Unit("C04", "jsonargparse._core:ArgumentParser.parse_args", pa_setup, pa_post, lambda c, s, e: c.oblige("raises", f"only-through-self.error(got {e.cls}@{e.origin})", e.origin == "self.error"),
         trusted=["argparse applies the command line items left to right on the namespace it is seeded with (A8)"]),
    Unit("C04", "jsonargparse._core:ArgumentParser.parse_object", po_setup, po_post, no_exc),
    Unit("C04", "jsonargparse._core:ArgumentParser.parse_string", ps_setup, ps_post, no_exc),
    Unit("C04", "jsonargparse._actions:ActionConfigFile.apply_config", ac_setup, ac_post, no_exc,
         trusted=["parser.parse_path / parse_string return the file's own settings when called with env=False, defaults=False"]),
    Unit("C04", "jsonargparse._core:ArgumentParser._load_env_vars", le_setup, le_post, no_exc),
]
from contracts.misc_units import default_config_files_unit  # noqa: E402
UNITS.append(default_config_files_unit("C04"))

VERIFIED_CALLEES = ("self.merge_config", "self._parse_defaults_and_environ", "parser.merge_config")
LEVEL = "other"
TECHNIQUE = "contract-based deductive verification of the merge argument order and source sequence (VCs from the real AST over an abstract override operator, ghost events) + bounded run-time comparison with a reference fold"
LEVEL_TEXT = 'Proved on the real bodies over an abstract override operator: environment overrides defaults (_parse_defaults_and_environ), merge_config(from, to) = to overridden by from on clones, parse_args seeds argparse with ov(ov(defaults, env), namespace), parse_object / parse_string merge orders, a config file takes effect at its position (apply_config), and _load_env_vars applies config variable, subcommand, individual variables in this order whatever the declaration order. Bounded only: the end-to-end fold over real sources (0-3 default config files, env config, env variables, <= 3-4 argv items) against a reference fold.'
LEVEL_NOTE = "under construction"
EXPLANATION = "under construction"
ASSUMPTIONS = []
TRUSTED = []
BOUNDED = [{"name": "precedence-vs-reference-fold", "script": "bounded/b04_precedence.py"}]
