"""C04 - sources override each other in the documented order, left to right.

What a precedence bug is: a swapped pair of merge arguments, or sources applied in the wrong sequence.  Proved here, on
the real bodies, over the abstract override operator ov(base, top):
  ArgumentParser._parse_defaults_and_environ   result == ov(defaults, env)           (environment overrides defaults)
  ArgumentParser.merge_config                   result == ov(cfg_to, cfg_from) on clones (arguments untouched)
  ArgumentParser.parse_args                     argparse is seeded with ov(ov(defaults, env), namespace)
  ArgumentParser.parse_object                   ov(ov(pde, cfg_base) applied, cfg_obj applied)
  ArgumentParser.parse_string                   ov(pde, loaded string)
  ActionConfigFile.apply_config                 cfg' == ov(cfg so far, parsed file)   (takes effect at its argv position)
  ArgumentParser._load_env_vars                 config variable first, then subcommand, then the individual variables
  get_env_var                                   PREFIX_LEV__OPT spelling
"""
import z3

from contracts.parse_models import ParserModel, cfg, expr_of, noop_cm, ov
from pyvc.engine import ClassRef, ExcVal, PyRaise, Rec, Unsupported, lift, is_z3
from pyvc.units import Setup, Unit


def no_exc(ctx, st, exc):
    ctx.oblige("raises", f"no-exception-in-the-fault-free-model(got {exc.cls}@{exc.origin})", False)


# ------------------------------------------------------------------------------------- _parse_defaults_and_environ
def pde_setup(ctx):
    pm = ParserModel(ctx)
    defaults = ctx.choose(2, "defaults") == 1
    env = [None, True, False][ctx.choose(3, "env")]
    default_env = ctx.choose(2, "self._default_env") == 1
    pm.rec.attrs["_default_env"] = default_env
    # the environment mapping given by the caller is used as it is - also when it is empty (an empty mapping means: no variables, not "use the process environment")
    environ = [None, Rec("dict", attrs={"tag": "given-environ"}), Rec("dict", attrs={"tag": "given-environ(empty)"}, methods={"__bool__": lambda c, s_, a, k: False, "__len__": lambda c, s_, a, k: 0})][ctx.choose(3, "environ-given")]
    calls = {"Namespace": lambda c, a, k: cfg("EMPTY")}
    consts = {"os.environ": Rec("dict", attrs={"tag": "os.environ"})}
    return Setup(env={"self": pm.rec, "defaults": defaults, "env": env, "environ": environ}, calls=calls, consts=consts, cms={"parser_context": noop_cm("parser_context")},
                 data=dict(defaults=defaults, env_on=(env is True or (env is None and default_env)), environ=environ))


def pde_post(ctx, st, result):
    d = st.data
    base = "DEFAULTS" if d["defaults"] else "EMPTY"
    calls = [e for e in ctx.events if e[0] == "call"]
    if d["env_on"]:
        envs = [e for e in calls if e[1] == "_load_env_vars"]
        ok_env = len(envs) == 1 and (envs[0][3].get("env") is d["environ"] if d["environ"] is not None else getattr(envs[0][3].get("env"), "attrs", {}).get("tag") == "os.environ")
        ctx.oblige("post", "environment-read-from-the-given-mapping-or-os.environ", ok_env)
        want = ov(base, ("ENV", envs[0][3].get("env"))) if envs else None
        ctx.oblige("post", "result==ov(defaults, environment)", expr_of(result) == want, note=f"got {expr_of(result)}")
        ctx.oblige("post", "environment-loaded-with-the-same-defaults-flag", len(envs) == 1 and envs[0][3].get("defaults") is d["defaults"])
    else:
        ctx.oblige("post", "environment-off=>defaults-only", expr_of(result) == base and not [e for e in calls if e[1] == "_load_env_vars"])


# ------------------------------------------------------------------------------------- merge_config
def mc_setup(ctx):
    log = ctx.events

    def mk(name):
        def clone(c, s_, a, k):
            c.event("clone", name)
            copy = Rec("Namespace", attrs={"expr": name, "is_clone_of": name}, methods={"update": update})
            return copy
        return Rec("Namespace", attrs={"expr": name}, methods={"clone": clone, "update": lambda c, s_, a, k: c.event("MUTATED-ARGUMENT", name)})

    def update(c, s_, a, k):
        c.event("update", s_.attrs["is_clone_of"], getattr(a[0], "attrs", {}).get("is_clone_of"))
        s_.attrs["expr"] = ov(s_.attrs["expr"], expr_of(a[0]))
        return s_

    cfg_from, cfg_to = mk("FROM"), mk("TO")
    calls = {
        "ActionTypeHint.discard_init_args_on_class_path_change": lambda c, a, k: c.event("discard", a[1].attrs.get("is_clone_of"), a[2].attrs.get("is_clone_of")),
        "ActionTypeHint.apply_appends": lambda c, a, k: c.event("apply_appends", a[1].attrs.get("is_clone_of")),
    }
    return Setup(env={"self": Rec("ArgumentParser"), "cfg_from": cfg_from, "cfg_to": cfg_to}, calls=calls, cms={"parser_context": noop_cm("parser_context")}, data={})


def mc_post(ctx, st, result):
    ev = ctx.events
    ctx.oblige("post", "result==ov(cfg_to, cfg_from)(cfg_from overrides)", expr_of(result) == ov("TO", "FROM"), note=str(expr_of(result)))
    ctx.oblige("frame", "both-arguments-are-cloned-and-never-updated-in-place", not [e for e in ev if e[0] == "MUTATED-ARGUMENT"] and sorted(e[1] for e in ev if e[0] == "clone") == ["FROM", "TO"])
    ctx.oblige("post", "result-is-the-clone-of-cfg_to(a new object)", isinstance(result, Rec) and result.attrs.get("is_clone_of") == "TO")
    ctx.oblige("post", "appends-resolved-after-the-update", [e[0] for e in ev if e[0] in ("update", "apply_appends")] == ["update", "apply_appends"])
    ctx.oblige("post", "init_args-of-a-changed-class-discarded-in-(cfg_to, cfg_from)-order-before-the-update", [e for e in ev if e[0] in ("discard", "update")][:1] == [("discard", "TO", "FROM")])


# ------------------------------------------------------------------------------------- parse_args / parse_object / parse_string
def common_calls(ctx):
    return {
        "get_private_kwargs": lambda c, a, k: tuple(k.values()) if len(k) > 1 else list(k.values())[0],
        "return_parser_if_captured": lambda c, a, k: None,
        "handle_completions": lambda c, a, k: None,
        "previous_config.get": lambda c, a, k: None,
        "recreate_branches": lambda c, a, k: (c.event("copy", a[0]), cfg(expr_of(a[0])))[1],  # contract of recreate_branches (C08 unit): an equal, fresh copy
    }


def pa_setup(ctx, faults=False):
    pm = ParserModel(ctx, faults=faults)
    ns_given = ctx.choose(2, "namespace-given") == 1
    namespace = cfg("NAMESPACE") if ns_given else None
    # defaults=False without environment gives an *empty* base configuration (a falsy Namespace): the namespace given is merged all the same
    base_empty = ctx.choose(2, "the-base-configuration(defaults+environment)-is-empty") == 1
    if base_empty:
        def pde(c, s_, a, k):
            c.event("call", "_parse_defaults_and_environ", a, dict(k))
            r = cfg(("defaults+env", a[0] if a else k.get("defaults", True), a[1] if len(a) > 1 else k.get("env")))
            r.truthy = False
            return r
        if not faults:
            pm.rec.methods["_parse_defaults_and_environ"] = pde
    args = ["--a=1"]
    env = {"self": pm.rec, "args": args, "namespace": namespace, "env": None, "defaults": True, "with_meta": None, "kwargs": {}}
    cms = {"_ActionSubCommands.parse_kwargs_context": noop_cm("parse_kwargs_context")}
    return Setup(env=env, calls=common_calls(ctx), cms=cms, data=dict(ns_given=ns_given, pm=pm))


def pa_post(ctx, st, result):
    d = st.data
    calls = [e for e in ctx.events if e[0] == "call"]
    known = [e for e in calls if e[1] == "parse_known_args"]
    seed = ov(("defaults+env", True, None), "NAMESPACE") if d["ns_given"] else ("defaults+env", True, None)
    ctx.oblige("post", "argparse-is-seeded-with-ov(ov(defaults, env), namespace)", len(known) == 1 and expr_of(known[0][3].get("namespace")) == seed, note=str([expr_of(e[3].get("namespace")) for e in known]))
    ctx.oblige("post", "leftover-arguments-are-never-accepted", not any(x == "leftover-arguments=1" for x in ctx.decisions_txt))
    ctx.oblige("post", "returns-what-_parse_common-made-of-the-argv-result", expr_of(result) == ("common", ("argv-applied-left-to-right-on", seed)))
    if d["ns_given"]:
        ctx.oblige("frame", "the-namespace-the-caller-gave-is-never-the-object-argparse-writes-into(a merged copy is, also when the base configuration is empty)", len(known) == 1 and known[0][3].get("namespace") is not st.env["namespace"])


def po_setup(ctx, faults=False):
    pm = ParserModel(ctx, faults=faults)
    base_given = ctx.choose(2, "cfg_base-given") == 1
    env = {"self": pm.rec, "cfg_obj": cfg("OBJ"), "cfg_base": cfg("BASE") if base_given else None, "env": None, "defaults": True, "with_meta": None, "kwargs": {}}
    return Setup(env=env, calls=common_calls(ctx), data=dict(base_given=base_given, pm=pm))


def po_post(ctx, st, result):
    d = st.data
    pde = ("defaults+env", True, None)
    start = ov(pde, "BASE") if d["base_given"] else pde
    want = ("common", ov(("applied", start), ("applied", "OBJ")))
    ctx.oblige("post", "result==common(ov(applied(ov(defaults+env, cfg_base)), applied(cfg_obj)))", expr_of(result) == want, note=str(expr_of(result)))
    ap = [e for e in ctx.events if e[0] == "call" and e[1] == "_apply_actions"]
    ctx.oblige("post", "the-object-is-applied-with-the-base-configuration-as-previous-values", len(ap) == 2 and expr_of(ap[1][3].get("prev_cfg")) == ("applied", start))
    ctx.oblige("frame", "the-caller's-object-itself-is-never-handed-to-_apply_actions(which adapts values in place): a copy is", len(ap) == 2 and ap[1][2][0] is not st.env["cfg_obj"] and expr_of(ap[1][2][0]) == "OBJ")


def ps_setup(ctx, faults=False):
    pm = ParserModel(ctx, faults=faults)
    defaults = ctx.choose(2, "defaults") == 1
    env_flag = [None, True, False][ctx.choose(3, "env")]
    env = {"self": pm.rec, "cfg_str": z3.String("cfg_str"), "cfg_path": "", "ext_vars": None, "env": env_flag, "defaults": defaults, "with_meta": None, "kwargs": {}}
    return Setup(env=env, calls=common_calls(ctx), cms={"parser_context": noop_cm("parser_context")}, data=dict(defaults=defaults, env_flag=env_flag, pm=pm))


def ps_post(ctx, st, result):
    d = st.data
    loaded = ("loaded", "cfg_str")
    # the environment counts when the call asks for it (env=True) or leaves it to a parser built with default_env (env=None): as for parse_args / parse_object.
    # (with defaults=False and env=None the shipped code skipped a default_env parser's environment in parse_string / parse_path only; fixed)
    de = d["pm"].default_env
    env_counts = True if d["env_flag"] else False if d["env_flag"] is False else de
    base_used = True if d["defaults"] else env_counts
    with_base = ("common", ov(("defaults+env", d["defaults"], d["env_flag"]), loaded))
    got = expr_of(result)
    if isinstance(base_used, bool):
        ctx.oblige("post", "result==common(ov(defaults+env, loaded string));the-base-is-left-out-only-when-neither-defaults-nor-the-environment-count", got == (with_base if base_used else ("common", loaded)), note=str(got))
    else:
        ctx.oblige("post", "result==common(ov(defaults+env, loaded string));the-base-is-left-out-only-when-neither-defaults-nor-the-environment-count[env left to the parser's default_env]",
                   z3.If(base_used, z3.BoolVal(got == with_base), z3.BoolVal(got == ("common", loaded))), note=str(got))


# ------------------------------------------------------------------------------------- ActionConfigFile.apply_config
def ac_setup(ctx):
    # argparse hands over an empty *list* for `--cfg=--` (it strips the '--'): a value that is not text is neither a path nor a configuration
    not_text = ctx.choose(2, "value-is-not-text(an empty list)") == 1
    is_path = ctx.choose(2, "value-is-a-readable-path") == 1 if not not_text else False
    store = {"expr": "CFG-SO-FAR", "cfg": None}
    dict_rec = Rec("dict", methods={"update": lambda c, s_, a, k: (store.__setitem__("expr", a[0].attrs["expr"]), c.event("in-place-update"))[1]})
    dest_list = []
    cfg_rec = Rec("Namespace", attrs={"expr": "CFG-SO-FAR", "__dict__": dict_rec}, methods={
        "get": lambda c, s_, a, k: store["cfg"], "__setitem__": lambda c, s_, a, k: store.__setitem__("cfg", a[1]), "__getitem__": lambda c, s_, a, k: store["cfg"]})
    path_obj = Rec("Path")

    def path_ctor(c, a, k):
        if is_path:
            return path_obj
        raise PyRaise(ExcVal("PathError", origin="Path()"))

    file_cfg = Rec("Namespace", attrs={"expr": "FILE"})
    merged = {}

    def merge_config(c, s_, a, k):
        c.event("merge", expr_of(a[0]), expr_of(a[1]))
        return Rec("Namespace", attrs={"expr": ov(expr_of(a[1]), expr_of(a[0])), "__dict__": Rec("dict", attrs={"expr": ov(expr_of(a[1]), expr_of(a[0]))})})

    parser = Rec("ArgumentParser", methods={
        "parse_path": lambda c, s_, a, k: (c.event("parse_path", dict(k)), file_cfg)[1],
        "parse_string": lambda c, s_, a, k: (c.event("parse_string", dict(k)), file_cfg)[1],
        "merge_config": merge_config})
    def load_value(c, a, k):
        if isinstance(a[0], list):
            raise PyRaise(ExcVal("AttributeError", args=("'list' object has no attribute 'strip'",), origin="load_value"))  # (load_value is for text)
        return Rec("dict")

    calls = {"Path": path_ctor, "get_config_read_mode": lambda c, a, k: "fr", "load_value": load_value, "get_loader_exceptions": lambda c, a, k: (ClassRef("YAMLError"),)}
    cms = {"_ActionSubCommands.not_single_subcommand": noop_cm("not_single"), "previous_config_context": noop_cm("previous_config"), "skip_apply_links": noop_cm("skip_links")}
    ctx.classes.add("YAMLError", ["Exception"])
    return Setup(env={"parser": parser, "cfg": cfg_rec, "dest": "cfg", "value": [] if not_text else z3.String("value")}, calls=calls, cms=cms,
                 data=dict(store=store, is_path=is_path, path_obj=path_obj, not_text=not_text))


def ac_raises(ctx, st, exc):
    d = st.data
    ctx.oblige("raises", f"refused=>TypeError-naming-the-option(what the parse methods report as ArgumentError),only-for-a-value-that-is-not-text(got {exc.cls}@{exc.origin})",
               d["not_text"] and exc.cls == "TypeError" and exc.origin.startswith("raise@"))
    ctx.oblige("frame", "a-refused-value-leaves-the-configuration-so-far-untouched", d["store"]["expr"] == "CFG-SO-FAR" and d["store"]["cfg"] is None)


def ac_post(ctx, st, result):
    d = st.data
    ctx.oblige("post", "accepted=>the-value-is-text", not d["not_text"])
    merges = [e for e in ctx.events if e[0] == "merge"]
    ctx.oblige("post", "cfg'==ov(cfg so far, config file)(the file overrides what came before it)", merges == [("merge", "FILE", "CFG-SO-FAR")] and d["store"]["expr"] == ov("CFG-SO-FAR", "FILE"), note=str(merges))
    sub = [e for e in ctx.events if e[0] in ("parse_path", "parse_string")]
    ctx.oblige("post", "the-file-is-parsed-without-defaults-and-environment(so it only carries its own settings)", len(sub) == 1 and sub[0][1].get("env") is False and sub[0][1].get("defaults") is False)
    ev = ctx.events
    def _pos(pred):
        return next((i for i, e in enumerate(ev) if pred(e)), None)
    i_in, i_parse, i_out = _pos(lambda e: e[:2] == ("enter", "not_single")), _pos(lambda e: e[0] in ("parse_path", "parse_string")), _pos(lambda e: e[:2] == ("exit-cm", "not_single"))
    ctx.oblige("post", "the-file-is-parsed-inside-not_single_subcommand(a file with sections for several subcommands and no name must not settle on the first one: the command line may still name another)",
               None not in (i_in, i_parse, i_out) and i_in < i_parse < i_out)
    ctx.oblige("post", "read-as-a-path-when-it-is-one-else-as-a-string", len(sub) == 1 and sub[0][0] == ("parse_path" if d["is_path"] else "parse_string"))
    ctx.oblige("post", "the-config-path-is-recorded-under-dest", isinstance(d["store"]["cfg"], list) and len(d["store"]["cfg"]) == 1 and d["store"]["cfg"][0] is (d["path_obj"] if d["is_path"] else None))


# ------------------------------------------------------------------------------------- _load_env_vars
def le_setup(ctx):
    from pyvc.engine import ExcVal, PyRaise
    order = [(0, 1, 2, 3), (3, 2, 1, 0), (1, 0, 3, 2), (2, 0, 1, 3)][ctx.choose(4, "declaration-order")]
    kinds = ["ActionConfigFile", "_ActionSubCommands", "ActionTypeHint", "ActionTypeHint"]
    dests = ["cfg", "subcommand", "a", "lst"]
    sub_ns = Rec("Namespace", attrs={"vars": {"x": z3.Int("sub.x")}})
    subparser = Rec("ArgumentParser", methods={"parse_env": lambda c, s_, a, k: (c.event("sub.parse_env", dict(k)), sub_ns)[1]})
    acts = [Rec(kinds[i], attrs={"dest": dests[i], "choices": {"fit": 1}, "_name_parser_map": {"fit": subparser}, "list_valued": dests[i] == "lst"}) for i in order]
    sub_choice = ["fit", "unknown-name"][ctx.choose(2, "subcommand-variable-names")]
    lst_kind = ["a-json-list", "a-scalar", "not-loadable"][ctx.choose(3, "list-variable-holds")]
    envmap = {"APP_CFG": z3.String("env.cfg"), "APP_SUBCOMMAND": sub_choice, "APP_A": z3.String("env.a"), "APP_LST": z3.String("env.lst")}
    present = {k: ctx.choose(2, f"{k}-set") == 1 for k in envmap}
    env_rec = Rec("dict", methods={"__contains__": lambda c, s_, a, k: present.get(a[0], False), "__getitem__": lambda c, s_, a, k: envmap[a[0]]})
    store = {}
    cfg_rec = Rec("Namespace", methods={"__setitem__": lambda c, s_, a, k: (store.__setitem__(a[0], a[1]), c.event("set", a[0]))[1]})
    loaded_list = [z3.String("item0"), z3.String("item1")]
    ctx.classes.add("YAMLError", ["Exception"])

    def load_value(c, a, k):
        c.event("load_value", a[0])
        if lst_kind == "not-loadable":
            raise PyRaise(ExcVal("YAMLError", origin="load_value"))
        return loaded_list if lst_kind == "a-json-list" else z3.Int("loaded-scalar")

    self = Rec("ArgumentParser", attrs={"_actions": acts}, methods={
        "_check_value_key": lambda c, s_, a, k: (c.event("check", a[0].attrs["dest"], a[1], a[2], a[3]), ("checked", a[0].attrs["dest"]) if a[0].attrs["dest"] != "subcommand" else a[1])[1],
        "_apply_actions": lambda c, s_, a, k: c.event("apply_actions", a[0])})
    calls = {
        "filter_default_actions": lambda c, a, k: list(a[0]),
        "get_env_var": lambda c, a, k: (c.event("env-var-of", a[0]), {"cfg": "APP_CFG", "subcommand": "APP_SUBCOMMAND", "a": "APP_A", "lst": "APP_LST"}[a[1].attrs["dest"]])[1],
        "ActionConfigFile.apply_config": lambda c, a, k: c.event("apply_config", a[0], a[1], a[2], a[3]),
        "Namespace": lambda c, a, k: cfg_rec, "_is_action_value_list": lambda c, a, k: a[0].attrs["list_valued"],
        "vars": lambda c, a, k: a[0].attrs["vars"], "load_value": load_value, "get_loader_exceptions": lambda c, a, k: (ClassRef("YAMLError"),),
    }
    defaults = z3.Bool("defaults")
    return Setup(env={"self": self, "env": env_rec, "defaults": defaults}, calls=calls,
                 data=dict(present=present, envmap=envmap, store=store, sub_choice=sub_choice, lst_kind=lst_kind, loaded_list=loaded_list, self_=self, env_rec=env_rec, cfg_rec=cfg_rec, defaults=defaults, sub_ns=sub_ns))


def le_post(ctx, st, result):
    d = st.data
    P = d["present"]
    sub_ok = P["APP_SUBCOMMAND"] and d["sub_choice"] == "fit"
    seq = [e[0] + ":" + str(e[1] if e[0] == "check" else e[3]) for e in ctx.events if e[0] in ("apply_config", "check")]
    want = (["apply_config:cfg"] if P["APP_CFG"] else []) + (["check:subcommand"] if sub_ok else []) + [f"check:{k}" for k, v in (("a", "APP_A"), ("lst", "APP_LST")) if P[v]]
    ctx.oblige("post", "order:config-variable,then-subcommand,then-individual-variables(whatever the declaration order)", sorted(seq[len(want) - sum(P[v] for v in ("APP_A", "APP_LST")):]) == sorted(want[len(want) - sum(P[v] for v in ("APP_A", "APP_LST")):])
               and seq[: len(seq) - sum(P[v] for v in ("APP_A", "APP_LST"))] == want[: len(want) - sum(P[v] for v in ("APP_A", "APP_LST"))], note=f"{seq} vs {want}")
    if P["APP_CFG"]:
        ac = [e for e in ctx.events if e[0] == "apply_config"]
        ctx.oblige("post", "the-config-variable's-content-is-applied-as-a-config-of-this-parser-onto-the-result,under-the-config-option's-dest",
                   len(ac) == 1 and ac[0][1] is d["self_"] and ac[0][2] is d["cfg_rec"] and ac[0][3] == "cfg" and ac[0][4] is d["envmap"]["APP_CFG"])
    if P["APP_A"]:
        ck = [e for e in ctx.events if e[0] == "check" and e[1] == "a"]
        ctx.oblige("post", "an-individual-variable's-text-is-checked-by-its-action(with the configuration so far)-and-the-checked-value-ends-up-under-its-key(overriding the env config)",
                   len(ck) == 1 and ck[0][2] is d["envmap"]["APP_A"] and ck[0][3] == "a" and ck[0][4] is d["cfg_rec"] and d["store"].get("a") == ("checked", "a"))
    if P["APP_LST"]:
        ck = [e for e in ctx.events if e[0] == "check" and e[1] == "lst"]
        given = ck[0][2] if ck else None
        text = d["envmap"]["APP_LST"]
        if d["lst_kind"] == "a-json-list":
            ok = given is d["loaded_list"]
        else:
            ok = isinstance(given, list) and len(given) == 1 and given[0] is text
        ctx.oblige("post", "a-list-valued-option's-variable:a-JSON/YAML-list-is-its-items,anything-else(also unloadable text)-is-one-item-holding-the-text" + f"[{d['lst_kind']}]", len(ck) == 1 and ok and d["store"].get("lst") == ("checked", "lst"))
    if sub_ok:
        se = [e for e in ctx.events if e[0] == "sub.parse_env"]
        # what this function returns is "the environment": the sub-parser's *defaults* are not part of it (they are completed by handle_subcommands,
        # below everything given) - read with defaults=True they overwrote what the environment config or a default config file had given
        # for the subcommand (C17 known finding c17-env-named-subcommand-loses-default-config-settings; fixed)
        ctx.oblige("post", "the-selected-subcommand's-own-environment-is-read-by-its-parser(same mapping,environment values only: without the sub-parser's defaults,unvalidated)-and-merged-under-the-subcommand's-name",
                   "fit.x" in d["store"] and d["store"]["fit.x"] is d["sub_ns"].attrs["vars"]["x"] and d["store"].get("subcommand") == "fit" and len(se) == 1
                   and se[0][1].get("env") is d["env_rec"] and se[0][1].get("defaults") is False and se[0][1].get("_skip_validation") is True)
    elif P["APP_SUBCOMMAND"]:
        ctx.oblige("post", "a-subcommand-variable-that-names-no-subcommand-selects-nothing", "subcommand" not in d["store"] and not [e for e in ctx.events if e[0] == "sub.parse_env"])
    aa = [e for e in ctx.events if e[0] == "apply_actions"]
    ctx.oblige("post", "finally-every-key-collected-meets-its-action(_apply_actions on the result),and-the-result-is-returned", len(aa) == 1 and aa[0][1] is d["cfg_rec"] and ctx.events[-1][0] == "apply_actions" and result is d["cfg_rec"])
    ctx.oblige("post", "every-variable-name-is-computed-for-this-parser", all(e[1] is d["self_"] for e in ctx.events if e[0] == "env-var-of"))


UNITS = [
    Unit("C04", "jsonargparse._core:ArgumentParser._parse_defaults_and_environ", pde_setup, pde_post, no_exc),
    Unit("C04", "jsonargparse._core:ArgumentParser.merge_config", mc_setup, mc_post, no_exc,
         trusted=["Namespace.update(top): top's leaves override, `key+` marks are resolved by apply_appends (C11/C04 bounded)", "Namespace.clone returns a new object"]),
    Unit("C04", "jsonargparse._core:ArgumentParser.parse_args", pa_setup, pa_post, lambda c, s, e: c.oblige("raises", f"only-through-self.error(got {e.cls}@{e.origin})", e.origin == "self.error"),
         trusted=["argparse applies the command line items left to right on the namespace it is seeded with (A8)"]),
    Unit("C04", "jsonargparse._core:ArgumentParser.parse_object", po_setup, po_post, no_exc),
    Unit("C04", "jsonargparse._core:ArgumentParser.parse_string", ps_setup, ps_post, no_exc),
    Unit("C04", "jsonargparse._actions:ActionConfigFile.apply_config", ac_setup, ac_post, ac_raises,
         trusted=["parser.parse_path / parse_string return the file's own settings when called with env=False, defaults=False"]),
    Unit("C04", "jsonargparse._core:ArgumentParser._load_env_vars", le_setup, le_post, no_exc),
]
from contracts.misc_units import default_config_files_unit  # noqa: E402
UNITS.append(default_config_files_unit("C04"))

VERIFIED_CALLEES = ("self.merge_config", "self._parse_defaults_and_environ", "parser.merge_config")
LEVEL = "other"
TECHNIQUE = "contract-based deductive verification of the merge argument order and source sequence (VCs from the real AST over an abstract override operator, ghost events) + bounded run-time comparison with a reference fold"
LEVEL_TEXT = 'Proved on the real bodies over an abstract override operator: environment overrides defaults (_parse_defaults_and_environ), merge_config(from, to) = to overridden by from on clones, parse_args seeds argparse with ov(ov(defaults, env), namespace), parse_object / parse_string merge orders, a config file takes effect at its position (apply_config), and _load_env_vars applies config variable, subcommand, individual variables in this order whatever the declaration order. Also under contract: set_defaults / get_default (the first source of the chain), _get_default_config_files per file (an unreadable match is skipped alone; the all-or-nothing behaviour was refuted and fixed). Bounded only: the end-to-end fold over real sources (0-3 default config files, env config, env variables, <= 3-4 argv items) against a reference fold.'
LEVEL_NOTE = "under construction"
EXPLANATION = "under construction"
ASSUMPTIONS = []
TRUSTED = []
BOUNDED = [{"name": "precedence-vs-reference-fold", "script": "bounded/b04_precedence.py"}]


# ------------------------------------------------------------------------------------------------ get_defaults
# the lowest layer of the documented order: declared defaults (copies), overridden by each default config file in the order of
# _get_default_config_files (a later file over an earlier one), each file loaded relative to its own directory and completed by
# _parse_common without environment / defaults / required check; a failure in a file is an ArgumentError naming it.
def gd_setup(ctx):
    from pyvc.engine import ExcVal, PyRaise
    kinds = [("value",), ("value", "suppressed-default", "value"), ("unknown-default", "value"), ("suppressed-dest", "value"), ()][ctx.choose(5, "declared-actions")]
    files = [(), ("valid",), ("empty",), ("blank", "valid"), ("valid", "valid"), ("valid", "empty", "valid")][ctx.choose(6, "default-config-files")]
    fail = ["none", "TypeError", "KeyError", "ArgumentError", "OSError"][ctx.choose(5, "completing-a-file-fails-with")] if "valid" in files else "none"
    # the text of a default config file may already fail to *load* (broken YAML, a character the loader refuses): the same kind of problem as a bad value in it
    load_fail = ctx.choose(2, "loading-a-file-fails(TypeError: Problems parsing config)") == 1 if ("valid" in files and fail == "none") else False
    skip_validation = z3.Bool("skip_validation")
    ctx.classes.add("UnknownDefault", ["object"])
    ctx.classes.add("Path", ["object"])
    SUPPRESS = "==SUPPRESS=="
    actions, copies = [], {}
    for i, kd in enumerate(kinds):
        dflt = {"value": Rec("declared default", attrs={"i": i}), "suppressed-default": SUPPRESS, "unknown-default": Rec("UnknownDefault"), "suppressed-dest": Rec("declared default", attrs={"i": i})}[kd]
        actions.append(Rec("Action", attrs={"dest": SUPPRESS if kd == "suppressed-dest" else f"k{i}", "default": dflt, "kind": kd}))
    store = {}
    cfg0 = Rec("Namespace", attrs={"expr": "DECLARED", "store": store}, methods={
        "__setitem__": lambda c, s_, a, k: s_.attrs["store"].__setitem__(a[0], a[1]), "get": lambda c, s_, a, k: s_.attrs["store"].get(a[0])})
    paths = [Rec("Path", attrs={"i": i, "kind": kd}, methods={"get_content": lambda c, s_, a, k: {"valid": "a: 1\n", "empty": "", "blank": " \n\t"}[s_.attrs["kind"]]}) for i, kd in enumerate(files)]

    def recreate(c, a, k):
        r = Rec("copy", attrs={"of": a[0]})
        copies[id(a[0])] = r
        return r

    def load(c, s_, a, k):
        c.event("load", a[0], k.get("key"), list(open_cms))
        if load_fail:
            raise PyRaise(ExcVal("TypeError", args=("Problems parsing config",), origin="_load_config_parser_mode"))
        return Rec("Namespace", attrs={"expr": ("FILE", len([e for e in c.events if e[0] == "load"]) - 1)})

    def merge(c, s_, a, k):
        c.event("merge", a[0].attrs["expr"], a[1].attrs["expr"])
        return mk_cfg(("ov", a[1].attrs["expr"], a[0].attrs["expr"]), a[1].attrs.get("store", {}))

    def mk_cfg(expr, st_):
        meta = dict(st_)
        return Rec("Namespace", attrs={"expr": expr, "store": meta}, methods={"__setitem__": lambda c, s_, a, k: s_.attrs["store"].__setitem__(a[0], a[1]), "get": lambda c, s_, a, k: s_.attrs["store"].get(a[0])})

    def parse_common(c, s_, a, k):
        c.event("complete", k["cfg"].attrs["expr"], {x: k[x] for x in ("env", "defaults", "with_meta", "skip_required")}, k["skip_validation"], list(open_cms))
        if fail != "none":
            raise PyRaise(ExcVal(fail, args=("bad value",), origin="_parse_common"))
        return mk_cfg(("completed", k["cfg"].attrs["expr"]), k["cfg"].attrs["store"])

    open_cms = []

    def cm(name):
        return (lambda c, a, k: open_cms.append((name, a[0] if a else k.get("parent_parser"))), lambda c, t, e: (open_cms.pop(), False)[1])

    self = Rec("ArgumentParser", attrs={"_actions": actions, "_logger": Rec("Logger", methods={"debug": lambda c, s_, a, k: None})},
               methods={"_get_default_config_files": lambda c, s_, a, k: [(f"key{i}" if i else None, p) for i, p in enumerate(paths)], "_load_config_parser_mode": load, "merge_config": merge, "_parse_common": parse_common})
    calls = {"deprecated_skip_check": lambda c, a, k: a[2], "Namespace": lambda c, a, k: cfg0, "filter_default_actions": lambda c, a, k: list(a[0]), "recreate_branches": recreate,
             "argument_error": lambda c, a, k: ExcVal("ArgumentError", args=(a[0],), origin="argument_error"),
             "ActionTypeHint.add_sub_defaults": lambda c, a, k: c.event("add_sub_defaults", a[0], a[1])}
    consts = {"argparse": Rec("argparse", attrs={"SUPPRESS": SUPPRESS, "ArgumentError": ClassRef("ArgumentError")}), "UnknownDefault": ClassRef("UnknownDefault"), "Path": ClassRef("Path"),
              "ArgumentParser": Rec("class ArgumentParser", attrs={"get_defaults": Rec("function")})}
    cms = {"change_to_path_dir": cm("cwd"), "parser_context": cm("parser_context"), "_ActionPrintConfig.skip_print_config": cm("skip_print_config")}
    return Setup(env={"self": self, "skip_validation": skip_validation, "kwargs": {}}, calls=calls, consts=consts, cms=cms,
                 data=dict(load_fail=load_fail, kinds=kinds, files=files, fail=fail, actions=actions, copies=copies, store=store, paths=paths, self_=self, skip_validation=skip_validation, open_cms=open_cms))


def gd_expected_expr(files):
    e = "DECLARED"
    n = 0
    for kd in files:
        if kd == "valid":
            e = ("completed", ("ov", e, ("FILE", n)))
            n += 1
    return e


def gd_post(ctx, st, result):
    d = st.data
    tag = f"[actions:{list(d['kinds'])},files:{list(d['files'])}]"
    want_keys = {a.attrs["dest"]: a for a in d["actions"] if a.attrs["kind"] == "value"}
    ok = set(d["store"]) >= set(want_keys) and all(isinstance(d["store"][k], Rec) and d["store"][k].cls == "copy" and d["store"][k].attrs["of"] is a.attrs["default"] for k, a in want_keys.items())
    ctx.oblige("post", "every-declared-default-is-in-the-result-as-a-copy(never the parser's own object);suppressed-and-unknown-defaults-are-left-out" + tag,
               ok and not [k for k in d["store"] if k not in want_keys and k != "__default_config__"])
    ctx.oblige("post", "no-failure-is-swallowed" + tag, d["fail"] == "none")
    ctx.oblige("post", "result==declared-defaults-overridden-by-each-non-empty-default-config-file-in-order(later over earlier),each-completed" + tag, result.attrs["expr"] == gd_expected_expr(d["files"]), note=str(result.attrs["expr"]))
    valid = [p for p in d["paths"] if p.attrs["kind"] == "valid"]
    loads = [e for e in ctx.events if e[0] == "load"]
    comps = [e for e in ctx.events if e[0] == "complete"]
    inside = lambda cms_, p: ("cwd", p) in cms_ and ("parser_context", d["self_"]) in cms_  # noqa: E731
    ctx.oblige("post", "each-file-is-loaded-and-completed-inside-its-own-directory-and-this-parser's-context" + tag,
               len(loads) == len(valid) == len(comps) and all(inside(l[3], p) and inside(c_[4], p) for l, c_, p in zip(loads, comps, valid)))
    ctx.oblige("post", "completion-uses-no-environment,no-defaults,no-required-check,and-the-caller's-skip_validation;no-print_config-inside" + tag,
               all(c_[2] == {"env": False, "defaults": False, "with_meta": None, "skip_required": True} and c_[3] is d["skip_validation"] and any(x[0] == "skip_print_config" for x in c_[4]) for c_ in comps))
    meta = result.attrs["store"].get("__default_config__") if "store" in result.attrs else None
    want_meta = None if not valid else valid[0] if len(valid) == 1 else valid
    ctx.oblige("post", "__default_config__-records-the-files-that-were-applied,in-order" + tag, (meta is want_meta) if not isinstance(want_meta, list) else (isinstance(meta, list) and len(meta) == len(valid) and all(x is y for x, y in zip(meta, valid))))
    ctx.oblige("post", "no-context-is-left-open;sub-defaults-added-last-on-the-result" + tag, not d["open_cms"] and ctx.events[-1][0] == "add_sub_defaults" and ctx.events[-1][2] is result)


def gd_raises(ctx, st, exc):
    d = st.data
    tag = f"[files:{list(d['files'])},fails:{d['fail']}]"
    if d["fail"] in ("TypeError", "KeyError", "ArgumentError") or d["load_fail"]:
        ctx.oblige("raises", "a-problem-in-a-default-config-file(in loading its text as much as in a value it gives)-surfaces-as-ArgumentError-naming-the-file" + tag + ("[load]" if d["load_fail"] else ""),
                   exc.cls == "ArgumentError" and exc.origin == "argument_error")
    else:
        # what happens to other exception classes is not fixed by this property (C03 would want ArgumentError): either is accepted, inventing one is not
        ctx.oblige("raises", f"an-exception-only-when-completing-a-file-failed(got {exc.cls}@{exc.origin})" + tag, d["fail"] == "OSError" and exc.cls in ("OSError", "ArgumentError"))
    ctx.oblige("raises", "no-context-is-left-open-on-failure" + tag, not d["open_cms"])


UNITS.append(Unit("C04", "jsonargparse._core:ArgumentParser.get_defaults", gd_setup, gd_post, gd_raises, max_paths=20000, expect_cover=("return", "raise:ArgumentError"),
                  trusted=["merge_config(a, b) == ov(b, a) (its own unit)", "_parse_common completes a configuration (its own units)", "recreate_branches copies (C08 unit)", "_get_default_config_files lists the files in application order (its own unit)"]))


# ------------------------------------------------------------------------------------------------ _ActionConfigLoad: the whole-group option (--g <config>)
# argv is applied left to right: a whole-group value overrides the members given before it, and only those it names (merge, not replace);
# the text / file is loaded relative to its own directory and its members meet their own actions below the group key;
# whatever goes wrong while loading is a TypeError naming the key (which the parse methods turn into ArgumentError).
def acl_setup(ctx):
    from pyvc.engine import Fn
    mode = ["argv-call", "factory-call"][ctx.choose(2, "use")]
    existing_kind = ["absent", "namespace", "scalar"][ctx.choose(3, "value-already-in-the-namespace")] if mode == "argv-call" else "absent"
    ctx.classes.add("Namespace", ["object"])
    loaded = Rec("Namespace", attrs={"expr": "LOADED"})
    existing = {"absent": None, "namespace": Rec("Namespace", attrs={"expr": "EXISTING"}), "scalar": z3.Int("existing")}[existing_kind]
    store = {"g": existing} if existing is not None else {}
    namespace = Rec("Namespace", methods={"get": lambda c, s_, a, k: store.get(a[0]), "__getitem__": lambda c, s_, a, k: store[a[0]], "__setitem__": lambda c, s_, a, k: store.__setitem__(a[0], a[1])})
    value = z3.String("value")

    def merge(c, s_, a, k):
        c.event("merge", a[0], a[1])
        return Rec("Namespace", attrs={"expr": ("wrapped", ov(a[1].attrs["expr"], a[0].attrs["expr"]))}, methods={"__getitem__": lambda c2, s2, a2, k2: Rec("Namespace", attrs={"expr": ("item", a2[0], s2.attrs["expr"])})})

    parser = Rec("ArgumentParser", methods={"merge_config": merge})
    self = Rec("_ActionConfigLoad", attrs={"dest": "g", "_basetype": Rec("basetype")}, methods={"_load_config": lambda c, s_, a, k: (c.event("load", a[0], a[1]), loaded)[1]})

    def new_ns(c, a, k):
        d = a[0]
        (key, v), = d.items()
        return Rec("Namespace", attrs={"expr": ("wrap", key, v.attrs["expr"] if isinstance(v, Rec) else v)})

    made = []
    calls = {"Namespace": new_ns, "_ActionConfigLoad": lambda c, a, k: (made.append(dict(k)), Rec("new _ActionConfigLoad"))[1]}
    args = (parser, namespace, value, "--g") if mode == "argv-call" else ()
    kwargs = {} if mode == "argv-call" else {"option_strings": ["--g"], "dest": "g"}
    return Setup(env={"self": self, "args": args, "kwargs": kwargs}, calls=calls, consts={"Namespace": ClassRef("Namespace")},
                 data=dict(mode=mode, existing_kind=existing_kind, store=store, loaded=loaded, value=value, parser=parser, made=made, self_=self))


def acl_post(ctx, st, result):
    d = st.data
    tag = f"[{d['mode']},{d['existing_kind']}]"
    if d["mode"] == "factory-call":
        ctx.oblige("post", "called-by-argparse-to-create-the-action:a-new-loader-with-the-same-base-type-and-the-given-keywords" + tag,
                   len(d["made"]) == 1 and d["made"][0] == {"option_strings": ["--g"], "dest": "g", "_basetype": d["self_"].attrs["_basetype"]} and isinstance(result, Rec) and result.cls == "new _ActionConfigLoad")
        return
    loads = [e for e in ctx.events if e[0] == "load"]
    ctx.oblige("post", "the-value-is-loaded-once-with-this-parser" + tag, len(loads) == 1 and loads[0][1] is d["value"] and loads[0][2] is d["parser"])
    got = d["store"].get("g")
    if d["existing_kind"] == "namespace":
        want = ("item", "g", ("wrapped", ov(("wrap", "g", "EXISTING"), ("wrap", "g", "LOADED"))))
        ctx.oblige("post", "members-given-before-are-kept-unless-the-loaded-group-names-them(the loaded value overrides, key by key)" + tag, isinstance(got, Rec) and got.attrs.get("expr") == want, note=str(getattr(got, "attrs", None)))
    else:
        ctx.oblige("post", "without-an-earlier-group-value-the-loaded-group-is-stored-as-it-is" + tag, got is d["loaded"])
    ctx.oblige("post", "returns-nothing(the namespace is the result)" + tag, result is None)


def acl_raises(ctx, st, exc):
    ctx.oblige("raises", f"no-own-exception(got {exc.cls}@{exc.origin})", False)


def lc_setup(ctx):
    from pyvc.engine import ExcVal, PyRaise
    outcome = ["mapping", "scalar", "loader-error", "apply-TypeError", "apply-KeyError"][ctx.choose(5, "what-the-value-is")]
    ctx.classes.add("YAMLError", ["Exception"])
    value = z3.String("value")
    loaded_dict = {"x": 1}
    cfg_path = Rec("Path of the config file")
    applied = Rec("Namespace", attrs={"expr": "APPLIED"})
    open_cms = []

    def parse_value_or_config(c, a, k):
        c.event("parse_value_or_config", a[0], dict(k))
        if outcome == "loader-error":
            raise PyRaise(ExcVal("YAMLError", args=("bad yaml",), origin="loader"))
        return (loaded_dict if outcome != "scalar" else 5, cfg_path)

    def apply_actions(c, s_, a, k):
        c.event("apply", a[0], k.get("parent_key"), list(open_cms))
        if outcome.startswith("apply-"):
            raise PyRaise(ExcVal(outcome.split("-")[1], args=("inner problem",), origin="_apply_actions"))
        return applied

    parser = Rec("ArgumentParser", methods={"_apply_actions": apply_actions})
    self = Rec("_ActionConfigLoad", attrs={"dest": "g"})
    calls = {"parse_value_or_config": parse_value_or_config, "get_loader_exceptions": lambda c, a, k: (ClassRef("YAMLError"),), "indent_text": lambda c, a, k: a[0]}
    cms = {"change_to_path_dir": (lambda c, a, k: open_cms.append(("cwd", a[0])), lambda c, t, e: (open_cms.pop(), False)[1])}
    return Setup(env={"self": self, "value": value, "parser": parser}, calls=calls, cms=cms, data=dict(outcome=outcome, value=value, loaded_dict=loaded_dict, cfg_path=cfg_path, applied=applied, open_cms=open_cms))


def lc_post(ctx, st, result):
    d = st.data
    tag = f"[{d['outcome']}]"
    ctx.oblige("post", "accepted=>the-value-loaded-to-a-mapping-and-nothing-failed" + tag, d["outcome"] == "mapping")
    ap = [e for e in ctx.events if e[0] == "apply"]
    ctx.oblige("post", "the-members-meet-their-own-actions-below-the-group-key,inside-the-directory-of-the-file-the-text-came-from" + tag,
               len(ap) == 1 and ap[0][1] is d["loaded_dict"] and ap[0][2] == "g" and ap[0][3] == [("cwd", d["cfg_path"])] and result is d["applied"] and not d["open_cms"])
    pv = [e for e in ctx.events if e[0] == "parse_value_or_config"]
    ctx.oblige("post", "the-value-is-read-once,as-text-or-as-a-path" + tag, len(pv) == 1 and pv[0][1] is d["value"])


def lc_raises(ctx, st, exc):
    d = st.data
    tag = f"[{d['outcome']}]"
    if d["outcome"] == "apply-KeyError":
        # a KeyError from the members' actions is not re-labelled here; the parse methods catch KeyError as well (C03 units)
        ctx.oblige("raises", f"a-member's-KeyError-propagates(got {exc.cls})" + tag, exc.cls in ("KeyError", "TypeError") and not d["open_cms"])
    else:
        ctx.oblige("raises", f"whatever-goes-wrong-while-loading-is-a-TypeError-naming-the-key(got {exc.cls}@{exc.origin})" + tag,
                   exc.cls == "TypeError" and d["outcome"] in ("scalar", "loader-error", "apply-TypeError") and exc.origin != "_apply_actions" and not d["open_cms"])


UNITS += [
    Unit("C04", "jsonargparse._actions:_ActionConfigLoad.__call__", acl_setup, acl_post, acl_raises, trusted=["merge_config(a, b) == ov(b, a) (its own unit)", "Namespace({k: v}) wraps v under k"]),
    Unit("C04", "jsonargparse._actions:_ActionConfigLoad._load_config", lc_setup, lc_post, lc_raises, expect_cover=("return", "raise:TypeError"),
         trusted=["parse_value_or_config reads text or a path and reports the path", "_apply_actions by contract (its own unit)"]),
]


from contracts.share import shared  # noqa: E402
from contracts.env_var_unit import env_var_unit  # noqa: E402
UNITS.append(env_var_unit("C04"))
from contracts.appends_unit import apply_appends_unit  # noqa: E402
UNITS.append(apply_appends_unit("C04"))


# ------------------------------------------------------------------------------------------------ parse_env
def pe_setup(ctx, faults=False):
    pm = ParserModel(ctx, faults=faults)
    environ = [None, Rec("dict", attrs={"tag": "given-environ"})][ctx.choose(2, "environ-given")]
    defaults = ctx.choose(2, "defaults") == 1
    skip_validation = ctx.choose(2, "_skip_validation") == 1
    env = {"self": pm.rec, "env": environ, "defaults": defaults, "with_meta": None, "kwargs": {"_skip_validation": skip_validation} if skip_validation else {}}
    calls = common_calls(ctx)
    calls["get_private_kwargs"] = lambda c, a, k: (a[0].get("_skip_validation", False), a[0].get("_skip_subcommands", False))
    return Setup(env=env, calls=calls, data=dict(environ=environ, defaults=defaults, skip_validation=skip_validation, pm=pm))


def pe_post(ctx, st, result):
    d = st.data
    calls = [e for e in ctx.events if e[0] == "call"]
    pde = [e for e in calls if e[1] == "_parse_defaults_and_environ"]
    ok = len(pde) == 1 and (pde[0][2] == (d["defaults"],) or pde[0][3].get("defaults") is d["defaults"]) and pde[0][3].get("env") is True and pde[0][3].get("environ") is d["environ"]
    ctx.oblige("post", "the-configuration-starts-from-ov(defaults, environment)-with-the-environment-switched-on-and-read-from-the-mapping-given(or os.environ)", ok)
    pc = [e for e in calls if e[1] == "_parse_common"]
    want = {"env": True, "defaults": d["defaults"], "with_meta": None, "skip_validation": d["skip_validation"], "skip_subcommands": False}
    if d["skip_validation"]:
        want["fail_no_subcommand"] = False
    got = {k: v for k, v in pc[0][3].items() if k != "cfg"} if pc else None
    ctx.oblige("post", "completed-by-_parse_common-with-the-environment-on-and-the-caller's-settings;result-returned", len(pc) == 1 and got == want and expr_of(result) == ("common", expr_of(pc[0][3]["cfg"])), note=str(got))


UNITS.append(Unit("C04", "jsonargparse._core:ArgumentParser.parse_env", pe_setup, pe_post, no_exc))

from contracts.check_type import typehint_call_unit  # noqa: E402
UNITS.append(typehint_call_unit("C04"))
from contracts.defaults_units import default_config_files_setter_unit, env_prefix_setter_unit, get_config_files_unit, get_default_unit, set_defaults_unit  # noqa: E402
UNITS += [set_defaults_unit("C04"), get_default_unit("C04"), default_config_files_setter_unit("C04"), env_prefix_setter_unit("C04"), get_config_files_unit("C04")]


# `--key+=v` (append) and `--key.item=v` (one item) are argv items that build on the value accumulated so far without writing into it
from contracts.adapt_arms import arms_units as _arms_units  # noqa: E402
UNITS += [u for u in _arms_units("C04") if u.label in ("List:append-and-sub-options", "Dict:item-option")]

from contracts.share import carried as _carried  # noqa: E402
UNITS += _carried("C04")

# an argv item builds on the value accumulated so far: _check_type hands the same previous value to every attempt (also to the retry with the original text),
# and with `key+` the list member of a Union is tried first whatever kind of value arrives
from contracts.check_type import check_type_unit as _c04_check_type_unit  # noqa: E402
UNITS.append(_c04_check_type_unit("C04"))
from contracts.sort_unit import sort_subtypes_unit as _sort_subtypes_unit  # noqa: E402
UNITS.append(_sort_subtypes_unit("C04"))
