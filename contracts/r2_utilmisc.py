"""Round 2 - utilities (jsonargparse/_util.py), logger settings (jsonargparse/_common.py), help-only helpers of the type-hint action
(jsonargparse/_typehints.py) and the usage formatter (jsonargparse/_formatters.py).

(under construction)
"""
import z3

from pyvc.engine import ClassRef, ExcVal, Fn, PyRaise, Rec, is_z3, lift
from pyvc.units import Setup, Unit

UTIL = "jsonargparse._util:"
COMMON = "jsonargparse._common:"
TH = "jsonargparse._typehints:"
FMT = "jsonargparse._formatters:"
S_ = z3.StringVal


def _no_exc(ctx, st, exc):
    ctx.oblige("raises", f"never-raises(got {exc.cls}@{exc.origin})", False)


def _snap(rec):
    """What a record's attributes are bound to, and the content of its containers one level down."""
    out = {}
    for k, v in rec.attrs.items():
        if isinstance(v, (list, tuple)):
            out[k] = (id(v), [id(x) if isinstance(x, (Rec, list, dict, set)) or is_z3(x) else x for x in v])
        elif isinstance(v, dict):
            out[k] = (id(v), {kk: id(x) if isinstance(x, (Rec, list, dict, set)) or is_z3(x) else x for kk, x in v.items()})
        elif isinstance(v, (set, frozenset)):
            out[k] = (id(v), sorted(map(repr, v)))
        elif isinstance(v, Rec) or is_z3(v):
            out[k] = id(v)
        else:
            out[k] = v
    return out


def _changed(rec, snap, allow=()):
    now = _snap(rec)
    return sorted(k for k in set(now) | set(snap) if k not in allow and (k not in now or k not in snap or now[k] != snap[k]))


# ================================================================================================ capture_parser and friends
class CaptureFlag:
    """The parser_capture context variable: a cell with set/reset tokens (ContextVar semantics)."""

    def __init__(self, old):
        self.value = old
        self.old = old
        self.history = []

    def set(self, c, v):
        tok = Rec("Token", attrs={"old": self.value})
        self.value = v
        self.history.append(("set", v))
        return tok

    def reset(self, c, tok):
        self.value = tok.attrs["old"]
        self.history.append(("reset", self.value))


FUNCTION_SHAPES = ["builds-a-parser-and-calls-parse_args", "calls-parse_args-on-a-second-parser-afterwards", "never-calls-parse_args", "raises-its-own-error-before-parse_args"]


def cp_setup(ctx):
    shape = FUNCTION_SHAPES[ctx.choose(len(FUNCTION_SHAPES), "function")]
    old = [False, True][ctx.choose(2, "capture-already-on(nested capture)")]
    flag = CaptureFlag(old)
    n_args = ctx.choose(3, "positional-arguments")
    kw = ctx.choose(2, "keyword-arguments")
    args = tuple(z3.String(f"arg{i}") for i in range(n_args))
    kwargs = {"verbose": z3.Bool("kw.verbose"), "name": z3.String("kw.name")} if kw else {}
    P, P2 = Rec("ArgumentParser", attrs={"tag": "the parser the function built"}), Rec("ArgumentParser", attrs={"tag": "a second parser"})
    seen = []

    def parse_args_of(c, parser):
        """contract of ArgumentParser.parse_args' first statement, return_parser_if_captured(self) (its own unit below)"""
        seen.append(("parse_args", parser, flag.value))
        if flag.value is True:
            raise PyRaise(ExcVal("CaptureParserException", ("",), origin="return_parser_if_captured", attrs={"parser": parser}))

    def function(c, s_, a, k):
        seen.append(("call", tuple(a), dict(k), flag.value))
        if shape == "raises-its-own-error-before-parse_args":
            raise PyRaise(ExcVal("ValueError", ("the function's own failure",), origin="function"))
        if shape == "never-calls-parse_args":
            return Rec("the function's result")
        parse_args_of(c, P)
        if shape == "calls-parse_args-on-a-second-parser-afterwards":
            parse_args_of(c, P2)
        return Rec("the function's result")

    fn = Rec("function", methods={"__call__": function})

    def enter(c, a, k):
        # contract of parser_context (contracts/ctxvars.py): the named variables hold the values given inside the body ...
        c.event("parser_context", tuple(a), dict(k))
        toks = []
        for name, v in k.items():
            if name == "parser_capture":
                toks.append(flag.set(c, v))
            else:
                raise PyRaise(ExcVal("KeyError", (name,), origin="parser_context"))
        return (toks, "$token")

    def exit_(c, token, exc):
        # ... and what they held before on every exit
        for t in reversed(token[0]):
            flag.reset(c, t)
        return False

    calls = {"parser_capture.get": lambda c, a, k: flag.value, "parser_capture.set": lambda c, a, k: flag.set(c, a[0]), "parser_capture.reset": lambda c, a, k: flag.reset(c, a[0])}
    return Setup(env={"function": fn, "args": args, "kwargs": kwargs}, calls=calls, cms={"parser_context": (enter, exit_)},
                 data=dict(shape=shape, old=old, flag=flag, args=args, kwargs=kwargs, P=P, P2=P2, seen=seen))


def _cp_common(ctx, d, tag):
    seen = d["seen"]
    called = [e for e in seen if e[0] == "call"]
    ok_args = len(called) == 1 and len(called[0][1]) == len(d["args"]) and all(x is y for x, y in zip(called[0][1], d["args"])) and \
        set(called[0][2]) == set(d["kwargs"]) and all(called[0][2][k] is d["kwargs"][k] for k in d["kwargs"])
    ctx.oblige("post", "the-function-is-run-exactly-once,with-exactly-the-positional-and-keyword-arguments-given" + tag, ok_args)
    ctx.oblige("post", "C12:the-function-runs-with-parser-capture-on" + tag, len(called) == 1 and called[0][3] is True)
    ctx.oblige("frame", "C09:the-capture-flag-holds-what-it-held-before-the-call(on this exit)" + tag, d["flag"].value is d["old"], note=str(d["flag"].history))


def cp_post(ctx, st, result):
    d = st.data
    tag = f"[{d['shape']},capture-was-{'on' if d['old'] else 'off'},{len(d['args'])}+{len(d['kwargs'])} arguments]"
    _cp_common(ctx, d, tag)
    ctx.oblige("post", "returns=>the-function-called-parse_args" + tag, d["shape"] not in ("never-calls-parse_args", "raises-its-own-error-before-parse_args"))
    ctx.oblige("post", "C12:the-result-is-the-very-parser-whose-parse_args-the-function-called-first" + tag, result is d["P"])
    ctx.oblige("post", "execution-stops-at-the-first-parse_args(nothing after it runs)" + tag, [e[1] for e in d["seen"] if e[0] == "parse_args"] == [d["P"]])


def cp_raises(ctx, st, exc):
    d = st.data
    tag = f"[{d['shape']},capture-was-{'on' if d['old'] else 'off'},{len(d['args'])}+{len(d['kwargs'])} arguments]"
    _cp_common(ctx, d, tag)
    if d["shape"] == "raises-its-own-error-before-parse_args":
        ctx.oblige("raises", f"the-function's-own-error-passes-through-unchanged(got {exc.cls}@{exc.origin})" + tag, exc.cls == "ValueError" and exc.origin == "function")
    else:
        ctx.oblige("raises", f"CaptureParserException(without a parser)-exactly-when-the-function-returned-without-calling-parse_args(got {exc.cls}@{exc.origin})" + tag,
                   exc.cls == "CaptureParserException" and d["shape"] == "never-calls-parse_args" and len(exc.args) == 1 and exc.args[0] is None)


def capture_parser_unit(prop):
    return Unit(prop, UTIL + "capture_parser", cp_setup, cp_post, cp_raises, expect_cover=("return", "raise:CaptureParserException", "raise:ValueError"),
                trusted=["parser_context(**kw): inside the body the named context variables hold the values given, on every exit what they held before (its own unit, contracts/ctxvars.py)",
                         "ArgumentParser.parse_args starts with return_parser_if_captured(self) (its own unit below: raises the capture exception carrying the parser iff capture is on)",
                         "CaptureParserException(parser).parser is the parser (its own unit below)"])


# ---------------------------------------------------------------------------------------------- return_parser_if_captured
def rpc_setup(ctx):
    state = ["off", "on"][ctx.choose(2, "capture")]
    parser = Rec("ArgumentParser", attrs={"tag": "p"})
    reads = []
    calls = {"parser_capture.get": lambda c, a, k: (reads.append(1), state == "on")[1]}
    return Setup(env={"parser": parser}, calls=calls, data=dict(state=state, parser=parser, snap=_snap(parser), reads=reads))


def rpc_post(ctx, st, result):
    d = st.data
    ctx.oblige("post", f"returns(None)=>capture-is-off[{d['state']}]", d["state"] == "off" and result is None)
    ctx.oblige("frame", f"the-parser-is-only-read,the-flag-only-read[{d['state']}]", not _changed(d["parser"], d["snap"]) and not ctx.mutlog)


def rpc_raises(ctx, st, exc):
    d = st.data
    ctx.oblige("raises", f"raises=>capture-is-on,and-it-is-the-capture-exception-built-for-this-very-parser(got {exc.cls})[{d['state']}]",
               d["state"] == "on" and exc.cls == "CaptureParserException" and len(exc.args) == 1 and exc.args[0] is d["parser"])
    ctx.oblige("frame", f"the-parser-is-only-read,the-flag-only-read[{d['state']}]", not _changed(d["parser"], d["snap"]) and not ctx.mutlog)


def return_parser_if_captured_unit(prop):
    return Unit(prop, UTIL + "return_parser_if_captured", rpc_setup, rpc_post, rpc_raises, expect_cover=("return", "raise:CaptureParserException"),
                trusted=["parser_capture.get() reads the context variable (False unless inside capture_parser)"])


# ---------------------------------------------------------------------------------------------- CaptureParserException.__init__
def cpe_setup(ctx):
    kind = ["a parser", "None"][ctx.choose(2, "parser")]
    parser = Rec("ArgumentParser", attrs={"tag": "p"}) if kind == "a parser" else None
    self = Rec("CaptureParserException")
    base = []
    calls = {"super": lambda c, a, k: Rec("super()", methods={"__init__": lambda c2, s2, a2, k2: base.append((tuple(a2), dict(k2)))})}
    return Setup(env={"self": self, "parser": parser}, calls=calls, data=dict(kind=kind, parser=parser, self_=self, base=base, snap=_snap(parser) if parser else None))


def cpe_post(ctx, st, result):
    d = st.data
    tag = f"[{d['kind']}]"
    ctx.oblige("post", "the-exception-carries-the-very-parser-given(None when there is none)" + tag, "parser" in d["self_"].attrs and d["self_"].attrs["parser"] is d["parser"])
    ok = len(d["base"]) == 1 and len(d["base"][0][0]) == 1 and not d["base"][0][1] and isinstance(d["base"][0][0][0], str) and (d["base"][0][0][0] == "") == (d["parser"] is not None)
    ctx.oblige("post", "the-base-initialiser-runs-once;the-message-is-empty-for-a-captured-parser-and-says-that-no-parse_args-call-was-made-otherwise" + tag, ok)
    ctx.oblige("frame", "nothing-but-the-exception's-parser-attribute-is-written;the-parser-is-not-touched" + tag,
               set(d["self_"].attrs) == {"parser"} and (d["parser"] is None or not _changed(d["parser"], d["snap"])))


def capture_exception_unit(prop):
    return Unit(prop, UTIL + "CaptureParserException.__init__", cpe_setup, cpe_post, _no_exc, trusted=["Exception.__init__ (super()) stores the message"])


# ================================================================================================ class_from_function (+ its __new__)
CFF_RETURN = ["given-explicitly", "annotation-is-a-class", "no-annotation", "annotation-is-a-string(resolves)", "annotation-is-a-string(resolves to a ForwardRef)", "annotation-is-a-string(unresolvable)"]
CFF_NAME = ["name-given", "name-None", "name-empty"]
CFF_EXISTING = ["module-does-not-define-the-name", "module-holds-the-class-made-earlier-for-this-function", "module-holds-the-class-made-for-another-function", "module-holds-a-class-made-for-this-function-with-another-return-class",
                "module-holds-an-unrelated-class", "module-holds-a-non-class"]
EMPTY = Rec("inspect.Signature.empty")


def _construct(ctx, closure, args, kwargs):
    """Run a function object produced by the unit (a closure over the unit's environment) with its real body."""
    from pyvc.engine import Closure, Interp
    if not isinstance(closure, Closure):
        return False, None
    interp = Interp(ctx, closure.node, calls={}, consts={})
    return True, interp.call_closure(closure, tuple(args), dict(kwargs), closure.node)


def cff_setup(ctx):
    ret = CFF_RETURN[ctx.choose(len(CFF_RETURN), "return-class")]
    name_kind = CFF_NAME[ctx.choose(len(CFF_NAME), "name")]
    existing = CFF_EXISTING[ctx.choose(len(CFF_EXISTING), "caller-module")]
    frame_module_known = ctx.choose(2, "caller-frame-has-a-module") == 1
    Foo = Rec("class Foo", attrs={"__name__": "Foo", "is_class": True})
    Bar = Rec("class Bar", attrs={"__name__": "Bar", "is_class": True})
    calls_log = []
    product = Rec("Foo instance(what the function returned)")

    def run_func(c, s_, a, k):
        calls_log.append((tuple(a), dict(k)))
        return product

    annotation = {"given-explicitly": Bar, "annotation-is-a-class": Foo, "no-annotation": EMPTY}.get(ret, "Foo")  # (an explicit func_return wins over the annotation)
    func = Rec("function", attrs={"__qualname__": "Outer.make", "__name__": "make", "__doc__": z3.String("func.__doc__"), "__globals__": {"Foo": Foo}, "__module__": "pkg.mod"}, methods={"__call__": run_func})
    other_func = Rec("function", attrs={"__qualname__": "Outer.make", "__name__": "make", "__doc__": None, "__globals__": {}}, methods={"__call__": lambda c, s_, a, k: None})
    name = {"name-given": "FooFromMake", "name-None": None, "name-empty": ""}[name_kind]
    final_name = name or "Outer__make_class"

    def made(for_func, for_ret, nm=final_name):
        r = Rec("class ClassFromFunction(earlier)", attrs={"__name__": nm, "wrapped_function": for_func, "is_class": True, "cffb": True})
        r.attrs["__mro__"] = (r, for_ret, Rec("class ClassFromFunctionBase"), Rec("class object"))
        return r

    held = {"module-holds-the-class-made-earlier-for-this-function": lambda: made(func, Foo), "module-holds-the-class-made-for-another-function": lambda: made(other_func, Foo),
            "module-holds-a-class-made-for-this-function-with-another-return-class": lambda: made(func, Bar),
            "module-holds-an-unrelated-class": lambda: Rec("class Unrelated", attrs={"__name__": final_name, "is_class": True, "__mro__": None}),
            "module-holds-a-non-class": lambda: Rec("some object", attrs={"is_class": False})}.get(existing, lambda: None)()
    if isinstance(held, Rec) and held.attrs.get("__mro__") is None and held.attrs.get("is_class"):
        held.attrs["__mro__"] = (held, Rec("class object"))
    caller = Rec("module", attrs={"__name__": "app.main", "unrelated_name": Rec("something else")})
    own = Rec("module", attrs={"__name__": "jsonargparse._util", "unrelated_name": Rec("something else")})
    target_module = caller if frame_module_known else own
    if held is not None:
        target_module.attrs[final_name] = held
    frame0, frame1 = Rec("frame(class_from_function)"), Rec("frame(caller)")
    cff = Rec("function class_from_function")

    def getmodule(c, a, k):
        if a[0] is frame1:
            return caller if frame_module_known else None
        if a[0] is cff:
            return own
        return Rec("module", attrs={"__name__": "WRONG-MODULE"})

    def signature(c, a, k):
        c.event("signature", a[0])
        return Rec("Signature", attrs={"return_annotation": annotation})

    def get_type_hints(c, a, k):
        if ret == "annotation-is-a-string(unresolvable)":
            raise PyRaise(ExcVal("NameError", ("name 'Foo' is not defined",), origin="get_type_hints"))
        if ret == "annotation-is-a-string(resolves to a ForwardRef)":
            return {"return": Rec("ForwardRef", methods={"_evaluate": lambda c2, s2, a2, k2: a2[0].get("Foo") if isinstance(a2[0], dict) else None})}
        return {"return": Foo}

    ctx.classes.add("ForwardRef", ["object"])
    calls = {"inspect.signature": signature, "get_type_hints": get_type_hints, "__import__": lambda c, a, k: Rec("module typing", attrs={"ForwardRef": ClassRef("ForwardRef")}),
             "inspect.stack": lambda c, a, k: [(frame0, "f0"), (frame1, "f1"), (Rec("frame(outer)"), "f2")], "inspect.getmodule": getmodule,
             "inspect.isclass": lambda c, a, k: isinstance(a[0], Rec) and a[0].attrs.get("is_class") is True,
             "inspect.getmro": lambda c, a, k: a[0].attrs["__mro__"],
             "is_subclass": lambda c, a, k: isinstance(a[0], Rec) and a[0].attrs.get("cffb") is True,
             "wraps": lambda c, a, k: Fn(lambda c2, a2, k2: a2[0], "wraps(func)")}
    env = {"func": func}
    if ret == "given-explicitly":
        env["func_return"] = Foo
    if name_kind != "name-None":
        env["name"] = name
    want = None if ret in ("no-annotation", "annotation-is-a-string(unresolvable)") else Foo
    return Setup(env=env, calls=calls, consts={"inspect.Signature.empty": EMPTY, "class_from_function": cff},
                 data=dict(ret=ret, name_kind=name_kind, existing=existing, frame_module_known=frame_module_known, Foo=Foo, Bar=Bar, func=func, held=held, want=want, final_name=final_name,
                           target_module=target_module, other_module=own if frame_module_known else caller, snap_t=_snap(target_module), snap_o=_snap(own if frame_module_known else caller),
                           snap_func=_snap(func), snap_foo=_snap(Foo), calls_log=calls_log, product=product, snap_held=_snap(held) if held is not None else None))


def _cff_tag(d):
    return f"[{d['ret']},{d['name_kind']},{d['existing']},caller-module-{'known' if d['frame_module_known'] else 'unknown'}]"


def cff_post(ctx, st, result):
    d = st.data
    tag = _cff_tag(d)
    Foo, func, nm = d["Foo"], d["func"], d["final_name"]
    ctx.oblige("post", "answered=>the-function's-return-class-is-known(given, annotated, or a string annotation that resolves)" + tag, d["want"] is not None)
    ctx.oblige("post", "answered=>the-caller's-module-does-not-hold-something-else-under-that-name" + tag, d["existing"] in ("module-does-not-define-the-name", "module-holds-the-class-made-earlier-for-this-function"))
    if d["existing"] == "module-holds-the-class-made-earlier-for-this-function":
        ctx.oblige("post", "asked-again-for-the-same-function,return-class-and-name=>the-class-made-earlier-is-returned(no second class),and-nothing-is-written" + tag,
                   result is d["held"] and not _changed(d["target_module"], d["snap_t"]) and not _changed(d["held"], d["snap_held"]))
    else:
        is_new = isinstance(result, Rec) and result is not d["held"] and result is not Foo
        bases = result.attrs.get("__bases__", ()) if isinstance(result, Rec) else ()
        ctx.oblige("post", "C14:the-class-built-is-a-subclass-of-the-class-the-function-returns(its first base),and-of-ClassFromFunctionBase" + tag,
                   is_new and len(bases) == 2 and bases[0] is Foo and isinstance(bases[1], ClassRef) and bases[1].name == "ClassFromFunctionBase")
        if is_new:
            a1, a2, kv = z3.String("ctor.arg1"), z3.Int("ctor.arg2"), z3.Bool("ctor.flag")
            before = len(d["calls_log"])
            ran, built = _construct(ctx, result.attrs.get("__new__"), (result, a1, a2), {"flag": kv})
            log = d["calls_log"][before:]
            ok = ran and len(log) == 1 and len(log[0][0]) == 2 and log[0][0][0] is a1 and log[0][0][1] is a2 and set(log[0][1]) == {"flag"} and log[0][1]["flag"] is kv
            ctx.oblige("post", "C14:constructing-the-class-calls-the-function-exactly-once-with-exactly-the-arguments-given(the class itself is not passed)" + tag, ok and before == 0, note=str(log))
            ctx.oblige("post", "C14:constructing-the-class-returns-what-the-function-returned" + tag, ran and built is d["product"])
            ctx.oblige("post", "the-class-remembers-the-function-it-wraps" + tag, result.attrs.get("wrapped_function") is func)
            ctx.oblige("post", "the-class-is-named-as-asked(default: the function's qualified name with dots doubled to underscores + _class),__qualname__-alike" + tag,
                       result.attrs.get("__name__") == nm and result.attrs.get("__qualname__") == nm)
            ctx.oblige("post", "C14:the-class-is-importable-by-its-own-path:it-is-registered-in-the-caller's-module(jsonargparse._util when the caller has none)-under-its-name,and-names-that-module" + tag,
                       d["target_module"].attrs.get(nm) is result and result.attrs.get("__module__") == d["target_module"].attrs["__name__"])
            ctx.oblige("post", "the-class-carries-the-function's-docstring" + tag, result.attrs.get("__doc__") is func.attrs["__doc__"])
            ctx.oblige("frame", "the-caller's-module-gains-exactly-that-name" + tag, not _changed(d["target_module"], d["snap_t"], allow=(nm,)))
    ctx.oblige("frame", "the-function,the-return-class-and-every-other-module-are-untouched" + tag,
               not _changed(func, d["snap_func"]) and not _changed(Foo, d["snap_foo"]) and not _changed(d["other_module"], d["snap_o"]))


def cff_raises(ctx, st, exc):
    d = st.data
    tag = _cff_tag(d)
    ctx.oblige("raises", f"refused=>ValueError(got {exc.cls}@{exc.origin})" + tag, exc.cls == "ValueError")
    ctx.oblige("raises", "refused=>no-return-class-is-known,or-the-caller's-module-already-holds-something-else-under-that-name" + tag,
               d["want"] is None or d["existing"] not in ("module-does-not-define-the-name", "module-holds-the-class-made-earlier-for-this-function"))
    if d["ret"] == "annotation-is-a-string(unresolvable)":
        ctx.oblige("raises", "an-unresolvable-annotation-is-reported-with-its-cause" + tag, isinstance(exc.cause, ExcVal) and exc.cause.cls == "NameError")
    ctx.oblige("frame", "refused=>no-module-gains-or-loses-a-name;the-function,the-return-class-and-what-the-module-held-are-untouched" + tag,
               not _changed(d["target_module"], d["snap_t"]) and not _changed(d["other_module"], d["snap_o"]) and not _changed(d["func"], d["snap_func"]) and not _changed(d["Foo"], d["snap_foo"])
               and (d["held"] is None or not _changed(d["held"], d["snap_held"])) and not d["calls_log"])


def class_from_function_unit(prop):
    return Unit(prop, UTIL + "class_from_function", cff_setup, cff_post, cff_raises, expect_cover=("return", "raise:ValueError"),
                trusted=["inspect.signature(func).return_annotation is the annotation as written (a class, a string, or Signature.empty)", "typing.get_type_hints(func)['return'] resolves a string annotation to the class / a ForwardRef, or raises",
                         "inspect.stack()[1][0] is the caller's frame; inspect.getmodule(frame) its module or None", "inspect.getmro(cls)[1] is the first base of a class made by this function; inspect.isclass",
                         "functools.wraps(func) returns the decorated function itself (copies metadata only)", "a class statement binds its bases in the order written"])


def cfn_setup(ctx):
    outcome = ["returns", "raises"][ctx.choose(2, "the-function")]
    n = ctx.choose(3, "positional-arguments")
    kw = ctx.choose(2, "keyword-arguments") == 1
    args = tuple([z3.String("a0"), z3.Int("a1")][:n])
    kwargs = {"flag": z3.Bool("flag")} if kw else {}
    log = []
    product = Rec("what the function returned")

    def run_func(c, s_, a, k):
        log.append((tuple(a), dict(k)))
        if outcome == "raises":
            raise PyRaise(ExcVal("TypeError", ("the function's own failure",), origin="func"))
        return product

    func = Rec("function", methods={"__call__": run_func})
    cls = Rec("class ClassFromFunction")
    return Setup(env={"cls": cls, "args": args, "kwargs": kwargs, "func": func}, data=dict(outcome=outcome, args=args, kwargs=kwargs, log=log, product=product, cls=cls, snap=_snap(cls)))


def _cfn_once(d):
    log = d["log"]
    return len(log) == 1 and len(log[0][0]) == len(d["args"]) and all(x is y for x, y in zip(log[0][0], d["args"])) and set(log[0][1]) == set(d["kwargs"]) and all(log[0][1][k] is d["kwargs"][k] for k in d["kwargs"])


def cfn_post(ctx, st, result):
    d = st.data
    tag = f"[{len(d['args'])}+{len(d['kwargs'])} arguments]"
    ctx.oblige("post", "C14:the-function-is-called-exactly-once-with-exactly-the-arguments-given(positional in order,keywords by name;the class is not passed)" + tag, _cfn_once(d))
    ctx.oblige("post", "C14:the-object-constructed-is-the-function's-result" + tag, result is d["product"] and d["outcome"] == "returns")
    ctx.oblige("frame", "the-class-is-not-written" + tag, not _changed(d["cls"], d["snap"]))


def cfn_raises(ctx, st, exc):
    d = st.data
    tag = f"[{len(d['args'])}+{len(d['kwargs'])} arguments]"
    ctx.oblige("raises", f"only-the-function's-own-error,unchanged,after-exactly-one-call(got {exc.cls}@{exc.origin})" + tag, d["outcome"] == "raises" and exc.origin == "func" and _cfn_once(d))


def class_from_function_new_unit(prop):
    return Unit(prop, UTIL + "class_from_function.<locals>.__new__", cfn_setup, cfn_post, cfn_raises, expect_cover=("return", "raise:TypeError"))


# ================================================================================================ logger settings (jsonargparse/_common.py)
LEVELS = {"CRITICAL": 50, "ERROR": 40, "WARNING": 30, "INFO": 20, "DEBUG": 10}
LOGGER_VALUES = ["False", "True", "None", "name(str)", "empty-str", "dict(name,level)", "dict(name)", "dict(level)", "dict()", "dict(name,level,extra-key)", "dict(extra-key)", "Logger-object",
                 "int", "zero", "list", "float"]
LEVEL_KINDS = ["CRITICAL", "ERROR", "WARNING", "INFO", "DEBUG", "some-other-string", "int-10", "None"]


class LogWorld:
    """Python's logging as far as these functions use it: a process-wide registry name -> Logger (getLogger returns the same object for the same name),
    loggers with parent / handlers, handlers with a level."""

    def __init__(self, ctx, class_logger_exists):
        self.ctx = ctx
        self.registry = {}
        self.new = []  # loggers created by getLogger during the call: (name term, logger)
        self.asked = []
        self.made_handlers = []
        self.reconp_calls = []
        self.root = self.logger("root", [self.handler("StreamHandler", 30)], parent=None)
        self.registry[""] = self.root
        self.other = self.logger("other", [self.handler("StreamHandler", 20)], parent=None)  # what another parser's setting {"name": "other", "level": "INFO"} left
        self.registry["other"] = self.other
        self.app = self.logger("app", [self.handler("FileHandler", 40), self.handler("StreamHandler", 10)], parent=self.root)  # the application's own logger
        self.registry["app"] = self.app
        self.bare = self.logger("bare", [], parent=self.root)  # a registered logger without handlers
        self.registry["bare"] = self.bare
        if class_logger_exists:
            self.registry["ArgumentParser"] = self.logger("ArgumentParser", [self.handler("StreamHandler", 30)], parent=None)  # what another parser's logger=True left
        self.null = self.logger("jsonargparse_null_logger", [self.handler("NullHandler", 0)], parent=None)
        self.registry["jsonargparse_null_logger"] = self.null
        self.user = self.logger("user-object", [self.handler("StreamHandler", 40)], parent=self.root)  # handed in as an object (not looked up by name)
        self.reconp = self.logger("plain_logger", [self.handler("StreamHandler", 30)], parent=None)
        self.snap0 = self.snapshot()

    def handler(self, cls, level):
        h = Rec(cls, attrs={"level": level, "formatter": None})
        h.methods["setLevel"] = lambda c, s_, a, k: (s_.attrs.__setitem__("level", a[0]), c.mutated(s_))[0]
        h.methods["setFormatter"] = lambda c, s_, a, k: (s_.attrs.__setitem__("formatter", a[0]), c.mutated(s_))[0]
        return h

    def logger(self, name, handlers, parent):
        lg = Rec("Logger", attrs={"name": name, "parent": parent, "handlers": list(handlers), "level": 0, "propagate": True, "disabled": False})
        lg.methods["addHandler"] = lambda c, s_, a, k: (s_.attrs["handlers"].append(a[0]), c.mutated(s_))[0]
        lg.methods["setLevel"] = lambda c, s_, a, k: (s_.attrs.__setitem__("level", a[0]), c.mutated(s_))[0]
        for m in ("debug", "info", "warning", "error"):
            lg.methods[m] = lambda c, s_, a, k: None
        return lg

    def all_loggers(self):
        return list(self.registry.values()) + [self.user, self.reconp]

    def state(self, lg):
        a = lg.attrs
        return (id(a["parent"]) if a["parent"] is not None else None, id(a["handlers"]), [(id(h), h.attrs["level"], id(h.attrs["formatter"]) if h.attrs["formatter"] is not None else None) for h in a["handlers"]],
                a["level"], a["propagate"], a["disabled"], a["name"] if not is_z3(a["name"]) else id(a["name"]))

    def snapshot(self):
        return {id(lg): self.state(lg) for lg in self.all_loggers()}

    def changed(self, except_=()):
        return [lg.attrs["name"] for lg in self.all_loggers() if lg not in except_ and self.snap0[id(lg)] != self.state(lg)]

    # ---- models
    def getLogger(self, c, a, k):
        name = a[0] if a else None
        self.asked.append(name)
        if name is None:
            return self.root
        if isinstance(name, str):
            if name in self.registry:
                return self.registry[name]
        elif is_z3(name) and name.sort() == z3.StringSort():
            for n, lg in list(self.registry.items()):
                if c.branch(name == S_(n), f"name=={n!r}"):
                    return lg
            for t, lg in self.new:
                if is_z3(t) and t.eq(name):
                    return lg
        else:
            raise PyRaise(ExcVal("TypeError", ("A logger name must be a string",), origin="logging.getLogger"))
        lg = self.logger(name, [], parent=self.root)
        self.new.append((name, lg))
        return lg

    def calls(self, debug, reconp_installed):
        def logger_setup(c, s_, a, k):
            self.reconp_calls.append((tuple(a), dict(k)))
            return self.reconp

        def stream_handler(c, a, k):
            h = self.handler("StreamHandler", 0)
            self.made_handlers.append(h)
            return h

        return {"logging.getLogger": self.getLogger, "logging.StreamHandler": stream_handler, "logging.Formatter": lambda c, a, k: Rec("Formatter", attrs={"fmt": a[0] if a else None}),
                "debug_mode_active": lambda c, a, k: debug, "import_reconplogger": lambda c, a, k: Rec("module reconplogger", methods={"logger_setup": logger_setup}),
                "deprecation_warning": lambda c, a, k: c.event("deprecation_warning")}

    def consts(self, reconp_installed):
        return {"logging.Logger": ClassRef("Logger"), "logging": Rec("module logging", attrs=dict(LEVELS)), "logging_levels": set(LEVELS), "null_logger": self.null, "reconplogger_support": reconp_installed}


def _class_name_hook(ctx, obj, attr):
    if isinstance(obj, ClassRef) and attr == "__name__":
        return obj.name
    if isinstance(obj, ClassRef) and obj.name == "LoggerProperty" and attr == "logger":
        return "<property LoggerProperty.logger>"
    return NotImplemented


def _logger_value(ctx, world, kind):
    """-> (value, name term or None, level or None)"""
    name = z3.String("logger-name")
    level = ABSENT
    if "level" in kind:
        lk = LEVEL_KINDS[ctx.choose(len(LEVEL_KINDS), "level")]
        if lk in LEVELS:
            level = lk
        elif lk == "some-other-string":
            level = z3.String("level")
            ctx.assume(z3.And(*[level != S_(n) for n in LEVELS]))
        else:
            level = {"int-10": 10, "None": None}[lk]
    v = {"False": False, "True": True, "None": None, "name(str)": name, "empty-str": "", "dict(name,level)": {"name": name, "level": level}, "dict(name)": {"name": name}, "dict(level)": {"level": level}, "dict()": {},
         "dict(name,level,extra-key)": {"name": name, "level": level, "format": "%(message)s"}, "dict(extra-key)": {"handlers": []}, "Logger-object": world.user, "int": 5, "zero": 0, "list": [], "float": 2.5}[kind]
    if kind == "name(str)":
        ctx.assume(z3.Length(name) > 0)  # (the empty name is its own case)
    return v, (name if "name" in kind else ("" if kind == "empty-str" else None)), level


def _valid_kind(kind):
    return kind in ("False", "True", "None", "name(str)", "empty-str", "dict(name,level)", "dict(name)", "dict(level)", "dict()", "Logger-object")


ABSENT = "<no level given>"


def _level_ok(level):
    return level is ABSENT or (isinstance(level, str) and level in LEVELS)


def _logger_post(ctx, d, result, tag, effective):
    """Clauses on the logger a setting denotes. `effective`: the setting after the documented replacements (None -> False; a falsy setting -> {'level': 'DEBUG'} in debug mode)."""
    w = d["world"]
    kind, name, level = effective
    ctx.oblige("post", "accepted=>a-documented-kind-of-setting(bool,name,dict of name/level,Logger object)" + tag, _valid_kind(kind))
    if not _valid_kind(kind):
        return None
    ctx.oblige("post", "accepted=>no-key-but-name/level,and-the-level-is-one-of-the-five-level-names" + tag, "extra" not in kind and _level_ok(level))
    want_level = LEVELS.get(level, 30) if isinstance(level, str) else 30
    if kind == "False":
        ctx.oblige("post", "False=>logging-disabled:the-module's-null-logger(unchanged: one NullHandler, no parent)" + tag, result is w.null and not w.changed() and not w.asked and not w.reconp_calls)
        return w.null
    if kind == "Logger-object":
        ctx.oblige("post", "a-Logger-object=>used-as-given,not-reconfigured;no-other-logger-touched" + tag, result is w.user and not w.changed() and not w.asked and not w.reconp_calls)
        return w.user
    if kind in ("True", "dict(level)", "dict()") and d["reconp"]:
        kw = {"level": "DEBUG", "reload": True} if d["debug"] else {}
        ctx.oblige("post", "True/a-dict-without-name,reconplogger-installed=>reconplogger's-logger,set-up-once(level DEBUG iff the debug variable is set);no-other-logger-touched" + tag,
                   result is w.reconp and w.reconp_calls == [((), kw)] and not w.changed() and not w.asked)
        return w.reconp
    # the default logger registered under a name: the one given, else the name of the class
    asked_name = name if name is not None else d["class_name"]
    ok_lookup = len(w.asked) == 1 and (w.asked[0] is asked_name or (isinstance(asked_name, str) and w.asked[0] == asked_name))
    ctx.oblige("post", "a-name/True/a-dict=>the-logger-registered-under-exactly-that-name(the class's name when none is given),looked-up-once;reconplogger-not-involved" + tag,
               ok_lookup and isinstance(result, Rec) and result.cls == "Logger" and (result in w.registry.values() or any(result is lg for _, lg in w.new)) and not w.reconp_calls)
    if isinstance(result, Rec) and result.cls == "Logger":
        hs = result.attrs["handlers"]
        ctx.oblige("post", "that-logger-does-not-propagate-to-a-parent,has-at-least-one-handler(a new stream handler only when it had none),and-every-handler-is-at-the-level-asked(WARNING by default)" + tag,
                   result.attrs["parent"] is None and len(hs) >= 1 and all(h.attrs["level"] == want_level for h in hs)
                   and (len(w.made_handlers) == (1 if w.snap0.get(id(result), (None, None, []))[2] == [] else 0)) and all(h in hs for h in w.made_handlers))
        ctx.oblige("frame", "C09:every-logger-registered-under-another-name,the-null-logger-and-the-root-logger(unless named) are-left-as-they-were" + tag, not w.changed(except_=(result,)), note=str(w.changed(except_=(result,))))
    return result


def lp_setup(ctx):
    kind = LOGGER_VALUES[ctx.choose(len(LOGGER_VALUES), "logger")]
    class_logger_exists = ctx.choose(2, "another-parser-already-enabled-the-default-logger") == 1
    debug = ctx.choose(2, "JSONARGPARSE_DEBUG-set") == 1
    reconp = ctx.choose(2, "reconplogger-installed") == 1
    w = LogWorld(ctx, class_logger_exists)
    value, name, level = _logger_value(ctx, w, kind)
    old = w.other
    self = Rec("ArgumentParser", attrs={"_logger": old, "_parser_mode": "yaml", "prog": "app"})
    B = Rec("ArgumentParser", attrs={"_logger": w.other, "_parser_mode": "yaml", "prog": "other"})
    ctx.classes.add("Logger", ["Filterer"])
    ctx.classes.add("ArgumentParser", ["ActionsContainer"])
    calls = w.calls(debug, reconp)
    return Setup(env={"self": self, "logger": value}, calls=calls, consts=w.consts(reconp), hooks={"getattr": _class_name_hook},
                 inline={"parse_logger": "jsonargparse._common:parse_logger", "setup_default_logger": "jsonargparse._common:setup_default_logger"},
                 data=dict(kind=kind, world=w, debug=debug, reconp=reconp, class_logger_exists=class_logger_exists, value=value, name=name, level=level, self_=self, B=B, old=old, snap_self=_snap(self), snap_B=_snap(B),
                           class_name="ArgumentParser", value_snap=dict(value) if isinstance(value, dict) else None), watch={"name": name} if is_z3(name) else {})


def _lp_tag(d):
    lv = repr(d["level"]) if not is_z3(d["level"]) else "<other string>"
    return f"[{d['kind']}" + (f",level={lv}" if "level" in d["kind"] else "") + f",debug={d['debug']},reconplogger={d['reconp']},default-logger-exists={d['class_logger_exists']}]"


def _effective(d):
    """the setting after the documented replacements"""
    kind, name, level = d["kind"], d["name"], d["level"]
    if kind == "None":
        kind = "False"
    falsy = kind in ("False", "empty-str", "dict()", "zero", "list")
    if falsy and d["debug"]:
        return "dict(level)", None, "DEBUG"
    return kind, name, level


def lp_post(ctx, st, result):
    d = st.data
    tag = _lp_tag(d)
    self = d["self_"]
    stored = self.attrs.get("_logger")
    want = _logger_post(ctx, d, stored, tag, _effective(d))
    from contracts.r2_coremisc import run_getter
    found, read = run_getter(ctx, "LoggerProperty", "logger", self, mod="jsonargparse._common")
    ctx.oblige("post", "the-getter-reads-back-the-logger-the-setting-denotes" + tag, found and read is stored and isinstance(stored, Rec) and stored.cls == "Logger")
    ctx.oblige("frame", "C09:only-this-parser's-logger-attribute-is-written;another-parser-keeps-its-logger-object;the-setting-handed-in-is-not-modified" + tag,
               not _changed(self, d["snap_self"], allow=("_logger",)) and not _changed(d["B"], d["snap_B"]) and (d["value_snap"] is None or (set(d["value"]) == set(d["value_snap"]) and all(d["value"][k] is d["value_snap"][k] for k in d["value"]))))
    ctx.oblige("post", "None-is-deprecated:one-deprecation-warning,then-as-False" + tag, len([e for e in ctx.events if e[0] == "deprecation_warning"]) == (1 if d["kind"] == "None" else 0))


def lp_raises(ctx, st, exc):
    d = st.data
    tag = _lp_tag(d)
    kind, name, level = _effective(d)
    ctx.oblige("raises", f"refused=>ValueError(got {exc.cls}@{exc.origin})" + tag, exc.cls == "ValueError")
    ctx.oblige("raises", "refused=>not-a-documented-kind-of-setting,or-a-dict-key-other-than-name/level,or-a-level-that-is-not-one-of-the-five-level-names" + tag,
               not _valid_kind(kind) or not _level_ok(level))
    w = d["world"]
    ctx.oblige("frame", "C09:refused=>nothing-stored:the-parser-keeps-its-logger,no-logger-was-looked-up,created-or-reconfigured,reconplogger-not-set-up" + tag,
               not _changed(d["self_"], d["snap_self"]) and d["self_"].attrs["_logger"] is d["old"] and not _changed(d["B"], d["snap_B"]) and not w.changed() and not w.asked and not w.new and not w.reconp_calls and not w.made_handlers)


LOG_TRUSTED = ["logging.getLogger(name) returns the one process-wide Logger registered under that name ('' / None: the root logger), creating it (no handlers, parent root) on first use",
               "Logger.addHandler appends to logger.handlers; Handler.setLevel / setFormatter store their argument; logging.<LEVEL NAME> are the level numbers",
               "reconplogger.logger_setup(**kw) returns reconplogger's own logger and accepts level= / reload= (NOT true of reconplogger 5.0.0, see the report)",
               "debug_mode_active() is True iff JSONARGPARSE_DEBUG is set to a truthy text (its own unit, r2_coremisc)",
               "the set logging_levels holds the five level names; membership of a hashable value"]


def logger_property_unit(prop):
    return Unit(prop, COMMON + "LoggerProperty.logger", lp_setup, lp_post, lp_raises, label="setter+getter", expect_cover=("return", "raise:ValueError"), max_paths=20000, trusted=LOG_TRUSTED)


def units(prop):
    return [class_from_function_unit(prop), class_from_function_new_unit(prop), capture_parser_unit(prop), return_parser_if_captured_unit(prop), capture_exception_unit(prop), logger_property_unit(prop)]


CARRIES = {}
