"""Round 2 - utilities (jsonargparse/_util.py), logger settings (jsonargparse/_common.py), help-only helpers of the type-hint action
(jsonargparse/_typehints.py) and the usage formatter (jsonargparse/_formatters.py).

Objects (parsers, actions, loggers, modules, classes, functions) are records; texts (messages, names, paths, widths, stack levels) are symbolic
(ALL strings / integers) unless said otherwise; *shapes* (which kind of value, which hint, which pre-state) are enumerated exhaustively.

C14 ('a callable returning one')
  class_from_function          return class given / annotated / string annotation (resolves, resolves to a ForwardRef, unresolvable) / missing  x  name given / None / ''  x
                               what the caller's module already holds under that name  x  caller module known / unknown:
                               the class built is a subclass of the class the function returns (first base) and of ClassFromFunctionBase; *constructing it (its real
                               __new__ is run) calls the function exactly once with exactly the arguments given - the class itself not passed - and returns its result*;
                               wrapped_function, __name__/__qualname__ (default: qualified name, dots -> '__', + '_class'), __doc__; registered in the caller's module
                               (jsonargparse._util when the caller has none) under its name and naming that module (importable by its own path); asked again for the same
                               function / return class / name: the class made earlier, nothing written; anything else under that name, no return class: ValueError
                               (chained to its cause) with every module, the function and the return class untouched
  class_from_function.<locals>.__new__   one call, positional arguments in order, keywords by name, no class argument; the result is the function's; its error passes unchanged
  register_unresolvable_import_paths     exactly the (builtin) functions of the modules given with __module__ None and a name are registered under <module>.<name> (ALL names);
                               nothing else (object with a module, nameless, constant, instance); earlier entries stay; modules only read; never raises
C12 (auto_cli / capture)
  capture_parser               function shapes (calls parse_args, on two parsers in turn, never, fails first) x capture already on/off x 0-2 positional, 0/2 keyword arguments:
                               the function runs exactly once with exactly the arguments given and *with capture on*; the result is the very parser whose parse_args was called
                               first, nothing after it runs; no parse_args call => CaptureParserException carrying None; the function's own error passes unchanged;
                               C09: on every exit the capture flag holds what it held before
  return_parser_if_captured    raises the capture exception, built for the very parser, exactly when capture is on; parser and flag only read
  CaptureParserException.__init__   carries the parser given; empty message for a parser, the explanatory one for None; nothing else written
  typehint_metavar             24 hints: the metavar spells the accepted values (bool, Optional[bool], Literal with None as null, Enum names, Optional[Enum] + null, [ITEM,...] for
                               tuples / sets, None otherwise), Optional in either member order; hint only read; *never raises* -
                               REFUTED on the shipped code for Union[None, <Enum>] (AttributeError: NoneType has no __members__; add_argument / auto_cli crash): see the report
  hash_item                    own hash; dict / list by the hash of the compact dump; hash of repr when neither works; never raises; item not modified
C09 (logger settings; help leaves no trace)
  LoggerProperty.logger [setter+getter]   16 kinds of setting x 8 kinds of level x JSONARGPARSE_DEBUG x reconplogger x default logger already enabled by another parser, real
                               parse_logger and setup_default_logger interpreted inside (ALL logger names): accepted => a documented kind (bool, name, dict of name/level,
                               Logger object; None deprecated = False; a falsy setting becomes {'level': 'DEBUG'} in debug mode); False => the module's null logger, unchanged;
                               a Logger object => used as given, not reconfigured; True / dict without name with reconplogger => reconplogger's logger (DEBUG iff debug);
                               otherwise the logger registered under exactly the name asked (the class's name by default), looked up once, parent None, >= 1 handler (a new
                               stream handler only when it had none), every handler at the level asked (WARNING by default); *every logger registered under another name, the
                               null logger, a Logger object are left as they were*; only this parser's _logger is written, another parser keeps its logger object, the dict
                               handed in is not modified; refused => ValueError (wrong kind, unknown dict key, level not one of the five names) with *nothing stored, no logger
                               looked up, created or reconfigured, reconplogger not set up*; the getter reads the stored logger back
  parse_logger                 the same clauses for ALL caller names (no None / debug replacement: those are the setter's)
  setup_default_logger         ALL names / callers x 5 levels: the logger registered under the name asked, configured as above; others untouched; data not modified
  LoggerProperty.__init__      the setting goes through the validating property once (False when omitted), nothing else assigned; then the next initialiser once with exactly
                               the other arguments (logger not forwarded); a refused setting: the setter's ValueError unchanged, the next initialiser has not run
  get_argument_group_class     add_argument not overridden / overridden (source fine, unavailable, does not compile, fails when executed): a group class built from the method's
                               own source (ALL sources) on ArgumentGroup in a *copy* of the method's globals, attributed to the parser class's module and registered there under
                               its name only; any failure => ArgumentGroup, debug-logged once, module untouched; never raises; parser / classes only read
  DefaultHelpFormatter._format_usage   argparse's usage once with the arguments given; no parser / nothing to add => unchanged; optionals-as-positionals: nested [a [b]] in
                               declaration order (ALL names), on the last line iff it fits (ALL widths) else on its own line with that line's indent, then the note; otherwise a
                               required option without default loses its brackets, every other keeps them; formatter, parser, actions only read; never raises
  ActionTypeHint.extra_help    17 hints: the subclasses listed are those of the class the hint accepts (Optional either order, return class of a callable, Type[..]), asked once,
                               ', known subclasses: ' + paths joined by ', ' (ALL paths), '' otherwise; action and hint only read; never raises
  ActionTypeHint.completer     13 hints x choices x COMP_TYPE x outcome of the type check: choices as text; true/false(/null); Enum names(/null), Optional in either order; null +
                               sorted file completions; else one hint line 'value already valid' exactly for a non-blank prefix that passes the check ('not yet valid' for a
                               failed check: reported, never raised); action, hint, choices only read
C03
  warning                      ALL message texts, ALL stack levels: never raises; exactly one warning, category asked (JsonargparseWarning by default), stacklevel one more than given,
                               text = the message dedented, wrapped at 110, stripped, indented by four blanks, between two line breaks

Already under contract elsewhere (skipped): get_import_path / import_object (import_paths.py), object_path_serializer / get_module_var_path (r2_regtypes.py),
add_yaml_comments.<locals>.set_comments (interpreted inside r2_coremisc's add_yaml_comments unit), debug_mode_active (r2_coremisc.py).

Observations (real behaviour, reproduced natively, no listed property needs the clause - not kept as clauses; details in the builder's report):
  * two parsers that enable the *default* logger share logging.getLogger(<class name>): parser B's logger={'level': 'DEBUG'} turns parser A's (logger=True) handlers to DEBUG
  * logger={'level': ['DEBUG']} -> TypeError (unhashable), logger={'name': 3} -> TypeError from logging; with JSONARGPARSE_DEBUG set the invalid settings 0 / [] are accepted
  * with reconplogger 5.0.0 installed (allowed by 'reconplogger>=4.4.0') and JSONARGPARSE_DEBUG set, every ArgumentParser() fails: logger_setup() got an unexpected keyword 'reload'
  * register_unresolvable_import_paths tests type(val) against typing.Type: a class with __module__ None is never registered
  * _format_usage interpolates the key into a regular expression unescaped: with --a_b (default) declared before the required --a.b, print_usage shows --a_b as required
"""
import z3

from pyvc.engine import ClassRef, ExcVal, Fn, PyRaise, Rec, is_z3, lift
from pyvc.units import Setup, Unit

UTIL = "jsonargparse._util:"
COMMON = "jsonargparse._common:"
TH = "jsonargparse._typehints:"
FMT = "jsonargparse._formatters:"
S_ = z3.StringVal


def _no_exc(ctx, st, exc):
    ctx.oblige("raises", f"never-raises(got {exc.cls}@{exc.origin})", False)


def _snap(rec):
    """What a record's attributes are bound to, and the content of its containers one level down."""
    out = {}
    for k, v in rec.attrs.items():
        if isinstance(v, (list, tuple)):
            out[k] = (id(v), [id(x) if isinstance(x, (Rec, list, dict, set)) or is_z3(x) else x for x in v])
        elif isinstance(v, dict):
            out[k] = (id(v), {kk: id(x) if isinstance(x, (Rec, list, dict, set)) or is_z3(x) else x for kk, x in v.items()})
        elif isinstance(v, (set, frozenset)):
            out[k] = (id(v), sorted(map(repr, v)))
        elif isinstance(v, Rec) or is_z3(v):
            out[k] = id(v)
        else:
            out[k] = v
    return out


def _changed(rec, snap, allow=()):
    now = _snap(rec)
    return sorted(k for k in set(now) | set(snap) if k not in allow and (k not in now or k not in snap or now[k] != snap[k]))


# ================================================================================================ capture_parser and friends
class CaptureFlag:
    """The parser_capture context variable: a cell with set/reset tokens (ContextVar semantics)."""

    def __init__(self, old):
        self.value = old
        self.old = old
        self.history = []

    def set(self, c, v):
        tok = Rec("Token", attrs={"old": self.value})
        self.value = v
        self.history.append(("set", v))
        return tok

    def reset(self, c, tok):
        self.value = tok.attrs["old"]
        self.history.append(("reset", self.value))


FUNCTION_SHAPES = ["builds-a-parser-and-calls-parse_args", "calls-parse_args-on-a-second-parser-afterwards", "never-calls-parse_args", "raises-its-own-error-before-parse_args"]


def cp_setup(ctx):
    shape = FUNCTION_SHAPES[ctx.choose(len(FUNCTION_SHAPES), "function")]
    old = [False, True][ctx.choose(2, "capture-already-on(nested capture)")]
    flag = CaptureFlag(old)
    n_args = ctx.choose(3, "positional-arguments")
    kw = ctx.choose(2, "keyword-arguments")
    args = tuple(z3.String(f"arg{i}") for i in range(n_args))
    kwargs = {"verbose": z3.Bool("kw.verbose"), "name": z3.String("kw.name")} if kw else {}
    P, P2 = Rec("ArgumentParser", attrs={"tag": "the parser the function built"}), Rec("ArgumentParser", attrs={"tag": "a second parser"})
    seen = []

    def parse_args_of(c, parser):
        """contract of ArgumentParser.parse_args' first statement, return_parser_if_captured(self) (its own unit below)"""
        seen.append(("parse_args", parser, flag.value))
        if flag.value is True:
            raise PyRaise(ExcVal("CaptureParserException", ("",), origin="return_parser_if_captured", attrs={"parser": parser}))

    def function(c, s_, a, k):
        seen.append(("call", tuple(a), dict(k), flag.value))
        if shape == "raises-its-own-error-before-parse_args":
            raise PyRaise(ExcVal("ValueError", ("the function's own failure",), origin="function"))
        if shape == "never-calls-parse_args":
            return Rec("the function's result")
        parse_args_of(c, P)
        if shape == "calls-parse_args-on-a-second-parser-afterwards":
            parse_args_of(c, P2)
        return Rec("the function's result")

    fn = Rec("function", methods={"__call__": function})

    def enter(c, a, k):
        # contract of parser_context (contracts/ctxvars.py): the named variables hold the values given inside the body ...
        c.event("parser_context", tuple(a), dict(k))
        toks = []
        for name, v in k.items():
            if name == "parser_capture":
                toks.append(flag.set(c, v))
            else:
                raise PyRaise(ExcVal("KeyError", (name,), origin="parser_context"))
        return (toks, "$token")

    def exit_(c, token, exc):
        # ... and what they held before on every exit
        for t in reversed(token[0]):
            flag.reset(c, t)
        return False

    calls = {"parser_capture.get": lambda c, a, k: flag.value, "parser_capture.set": lambda c, a, k: flag.set(c, a[0]), "parser_capture.reset": lambda c, a, k: flag.reset(c, a[0])}
    return Setup(env={"function": fn, "args": args, "kwargs": kwargs}, calls=calls, cms={"parser_context": (enter, exit_)},
                 data=dict(shape=shape, old=old, flag=flag, args=args, kwargs=kwargs, P=P, P2=P2, seen=seen))


def _cp_common(ctx, d, tag):
    seen = d["seen"]
    called = [e for e in seen if e[0] == "call"]
    ok_args = len(called) == 1 and len(called[0][1]) == len(d["args"]) and all(x is y for x, y in zip(called[0][1], d["args"])) and \
        set(called[0][2]) == set(d["kwargs"]) and all(called[0][2][k] is d["kwargs"][k] for k in d["kwargs"])
    ctx.oblige("post", "the-function-is-run-exactly-once,with-exactly-the-positional-and-keyword-arguments-given" + tag, ok_args)
    ctx.oblige("post", "C12:the-function-runs-with-parser-capture-on" + tag, len(called) == 1 and called[0][3] is True)
    ctx.oblige("frame", "C09:the-capture-flag-holds-what-it-held-before-the-call(on this exit)" + tag, d["flag"].value is d["old"], note=str(d["flag"].history))


def cp_post(ctx, st, result):
    d = st.data
    tag = f"[{d['shape']},capture-was-{'on' if d['old'] else 'off'},{len(d['args'])}+{len(d['kwargs'])} arguments]"
    _cp_common(ctx, d, tag)
    ctx.oblige("post", "returns=>the-function-called-parse_args" + tag, d["shape"] not in ("never-calls-parse_args", "raises-its-own-error-before-parse_args"))
    ctx.oblige("post", "C12:the-result-is-the-very-parser-whose-parse_args-the-function-called-first" + tag, result is d["P"])
    ctx.oblige("post", "execution-stops-at-the-first-parse_args(nothing after it runs)" + tag, [e[1] for e in d["seen"] if e[0] == "parse_args"] == [d["P"]])


def cp_raises(ctx, st, exc):
    d = st.data
    tag = f"[{d['shape']},capture-was-{'on' if d['old'] else 'off'},{len(d['args'])}+{len(d['kwargs'])} arguments]"
    _cp_common(ctx, d, tag)
    if d["shape"] == "raises-its-own-error-before-parse_args":
        ctx.oblige("raises", f"the-function's-own-error-passes-through-unchanged(got {exc.cls}@{exc.origin})" + tag, exc.cls == "ValueError" and exc.origin == "function")
    else:
        ctx.oblige("raises", f"CaptureParserException(without a parser)-exactly-when-the-function-returned-without-calling-parse_args(got {exc.cls}@{exc.origin})" + tag,
                   exc.cls == "CaptureParserException" and d["shape"] == "never-calls-parse_args" and len(exc.args) == 1 and exc.args[0] is None)


def capture_parser_unit(prop):
    return Unit(prop, UTIL + "capture_parser", cp_setup, cp_post, cp_raises, expect_cover=("return", "raise:CaptureParserException", "raise:ValueError"),
                trusted=["parser_context(**kw): inside the body the named context variables hold the values given, on every exit what they held before (its own unit, contracts/ctxvars.py)",
                         "ArgumentParser.parse_args starts with return_parser_if_captured(self) (its own unit below: raises the capture exception carrying the parser iff capture is on)",
                         "CaptureParserException(parser).parser is the parser (its own unit below)"])


# ---------------------------------------------------------------------------------------------- return_parser_if_captured
def rpc_setup(ctx):
    state = ["off", "on"][ctx.choose(2, "capture")]
    parser = Rec("ArgumentParser", attrs={"tag": "p"})
    reads = []
    calls = {"parser_capture.get": lambda c, a, k: (reads.append(1), state == "on")[1]}
    return Setup(env={"parser": parser}, calls=calls, data=dict(state=state, parser=parser, snap=_snap(parser), reads=reads))


def rpc_post(ctx, st, result):
    d = st.data
    ctx.oblige("post", f"returns(None)=>capture-is-off[{d['state']}]", d["state"] == "off" and result is None)
    ctx.oblige("frame", f"the-parser-is-only-read,the-flag-only-read[{d['state']}]", not _changed(d["parser"], d["snap"]) and not ctx.mutlog)


def rpc_raises(ctx, st, exc):
    d = st.data
    ctx.oblige("raises", f"raises=>capture-is-on,and-it-is-the-capture-exception-built-for-this-very-parser(got {exc.cls})[{d['state']}]",
               d["state"] == "on" and exc.cls == "CaptureParserException" and len(exc.args) == 1 and exc.args[0] is d["parser"])
    ctx.oblige("frame", f"the-parser-is-only-read,the-flag-only-read[{d['state']}]", not _changed(d["parser"], d["snap"]) and not ctx.mutlog)


def return_parser_if_captured_unit(prop):
    return Unit(prop, UTIL + "return_parser_if_captured", rpc_setup, rpc_post, rpc_raises, expect_cover=("return", "raise:CaptureParserException"),
                trusted=["parser_capture.get() reads the context variable (False unless inside capture_parser)"])


# ---------------------------------------------------------------------------------------------- CaptureParserException.__init__
def cpe_setup(ctx):
    kind = ["a parser", "None"][ctx.choose(2, "parser")]
    parser = Rec("ArgumentParser", attrs={"tag": "p"}) if kind == "a parser" else None
    self = Rec("CaptureParserException")
    base = []
    calls = {"super": lambda c, a, k: Rec("super()", methods={"__init__": lambda c2, s2, a2, k2: base.append((tuple(a2), dict(k2)))})}
    return Setup(env={"self": self, "parser": parser}, calls=calls, data=dict(kind=kind, parser=parser, self_=self, base=base, snap=_snap(parser) if parser else None))


def cpe_post(ctx, st, result):
    d = st.data
    tag = f"[{d['kind']}]"
    ctx.oblige("post", "the-exception-carries-the-very-parser-given(None when there is none)" + tag, "parser" in d["self_"].attrs and d["self_"].attrs["parser"] is d["parser"])
    ok = len(d["base"]) == 1 and len(d["base"][0][0]) == 1 and not d["base"][0][1] and isinstance(d["base"][0][0][0], str) and (d["base"][0][0][0] == "") == (d["parser"] is not None)
    ctx.oblige("post", "the-base-initialiser-runs-once;the-message-is-empty-for-a-captured-parser-and-says-that-no-parse_args-call-was-made-otherwise" + tag, ok)
    ctx.oblige("frame", "nothing-but-the-exception's-parser-attribute-is-written;the-parser-is-not-touched" + tag,
               set(d["self_"].attrs) == {"parser"} and (d["parser"] is None or not _changed(d["parser"], d["snap"])))


def capture_exception_unit(prop):
    return Unit(prop, UTIL + "CaptureParserException.__init__", cpe_setup, cpe_post, _no_exc, trusted=["Exception.__init__ (super()) stores the message"])


# ================================================================================================ class_from_function (+ its __new__)
CFF_RETURN = ["given-explicitly", "annotation-is-a-class", "no-annotation", "annotation-is-a-string(resolves)", "annotation-is-a-string(resolves to a ForwardRef)", "annotation-is-a-string(unresolvable)"]
CFF_NAME = ["name-given", "name-None", "name-empty"]
CFF_EXISTING = ["module-does-not-define-the-name", "module-holds-the-class-made-earlier-for-this-function", "module-holds-the-class-made-for-another-function", "module-holds-a-class-made-for-this-function-with-another-return-class",
                "module-holds-an-unrelated-class", "module-holds-a-non-class"]
EMPTY = Rec("inspect.Signature.empty")


def _construct(ctx, closure, args, kwargs):
    """Run a function object produced by the unit (a closure over the unit's environment) with its real body."""
    from pyvc.engine import Closure, Interp
    if not isinstance(closure, Closure):
        return False, None
    interp = Interp(ctx, closure.node, calls={}, consts={})
    return True, interp.call_closure(closure, tuple(args), dict(kwargs), closure.node)


def cff_setup(ctx):
    ret = CFF_RETURN[ctx.choose(len(CFF_RETURN), "return-class")]
    name_kind = CFF_NAME[ctx.choose(len(CFF_NAME), "name")]
    existing = CFF_EXISTING[ctx.choose(len(CFF_EXISTING), "caller-module")]
    frame_module_known = ctx.choose(2, "caller-frame-has-a-module") == 1
    Foo = Rec("class Foo", attrs={"__name__": "Foo", "is_class": True})
    Bar = Rec("class Bar", attrs={"__name__": "Bar", "is_class": True})
    calls_log = []
    product = Rec("Foo instance(what the function returned)")

    def run_func(c, s_, a, k):
        calls_log.append((tuple(a), dict(k)))
        return product

    annotation = {"given-explicitly": Bar, "annotation-is-a-class": Foo, "no-annotation": EMPTY}.get(ret, "Foo")  # (an explicit func_return wins over the annotation)
    func = Rec("function", attrs={"__qualname__": "Outer.make", "__name__": "make", "__doc__": z3.String("func.__doc__"), "__globals__": {"Foo": Foo}, "__module__": "pkg.mod"}, methods={"__call__": run_func})
    other_func = Rec("function", attrs={"__qualname__": "Outer.make", "__name__": "make", "__doc__": None, "__globals__": {}}, methods={"__call__": lambda c, s_, a, k: None})
    name = {"name-given": "FooFromMake", "name-None": None, "name-empty": ""}[name_kind]
    final_name = name or "Outer__make_class"

    def made(for_func, for_ret, nm=final_name):
        r = Rec("class ClassFromFunction(earlier)", attrs={"__name__": nm, "wrapped_function": for_func, "is_class": True, "cffb": True})
        r.attrs["__mro__"] = (r, for_ret, Rec("class ClassFromFunctionBase"), Rec("class object"))
        return r

    held = {"module-holds-the-class-made-earlier-for-this-function": lambda: made(func, Foo), "module-holds-the-class-made-for-another-function": lambda: made(other_func, Foo),
            "module-holds-a-class-made-for-this-function-with-another-return-class": lambda: made(func, Bar),
            "module-holds-an-unrelated-class": lambda: Rec("class Unrelated", attrs={"__name__": final_name, "is_class": True, "__mro__": None}),
            "module-holds-a-non-class": lambda: Rec("some object", attrs={"is_class": False})}.get(existing, lambda: None)()
    if isinstance(held, Rec) and held.attrs.get("__mro__") is None and held.attrs.get("is_class"):
        held.attrs["__mro__"] = (held, Rec("class object"))
    caller = Rec("module", attrs={"__name__": "app.main", "unrelated_name": Rec("something else")})
    own = Rec("module", attrs={"__name__": "jsonargparse._util", "unrelated_name": Rec("something else")})
    target_module = caller if frame_module_known else own
    if held is not None:
        target_module.attrs[final_name] = held
    frame0, frame1 = Rec("frame(class_from_function)"), Rec("frame(caller)")
    cff = Rec("function class_from_function")

    def getmodule(c, a, k):
        if a[0] is frame1:
            return caller if frame_module_known else None
        if a[0] is cff:
            return own
        return Rec("module", attrs={"__name__": "WRONG-MODULE"})

    def signature(c, a, k):
        c.event("signature", a[0])
        return Rec("Signature", attrs={"return_annotation": annotation})

    def get_type_hints(c, a, k):
        if ret == "annotation-is-a-string(unresolvable)":
            raise PyRaise(ExcVal("NameError", ("name 'Foo' is not defined",), origin="get_type_hints"))
        if ret == "annotation-is-a-string(resolves to a ForwardRef)":
            return {"return": Rec("ForwardRef", methods={"_evaluate": lambda c2, s2, a2, k2: a2[0].get("Foo") if isinstance(a2[0], dict) else None})}
        return {"return": Foo}

    ctx.classes.add("ForwardRef", ["object"])
    calls = {"inspect.signature": signature, "get_type_hints": get_type_hints, "__import__": lambda c, a, k: Rec("module typing", attrs={"ForwardRef": ClassRef("ForwardRef")}),
             "inspect.stack": lambda c, a, k: [(frame0, "f0"), (frame1, "f1"), (Rec("frame(outer)"), "f2")], "inspect.getmodule": getmodule,
             "inspect.isclass": lambda c, a, k: isinstance(a[0], Rec) and a[0].attrs.get("is_class") is True,
             "inspect.getmro": lambda c, a, k: a[0].attrs["__mro__"],
             "is_subclass": lambda c, a, k: isinstance(a[0], Rec) and a[0].attrs.get("cffb") is True,
             "wraps": lambda c, a, k: Fn(lambda c2, a2, k2: a2[0], "wraps(func)")}
    env = {"func": func}
    if ret == "given-explicitly":
        env["func_return"] = Foo
    if name_kind != "name-None":
        env["name"] = name
    want = None if ret in ("no-annotation", "annotation-is-a-string(unresolvable)") else Foo
    return Setup(env=env, calls=calls, consts={"inspect.Signature.empty": EMPTY, "class_from_function": cff},
                 data=dict(ret=ret, name_kind=name_kind, existing=existing, frame_module_known=frame_module_known, Foo=Foo, Bar=Bar, func=func, held=held, want=want, final_name=final_name,
                           target_module=target_module, other_module=own if frame_module_known else caller, snap_t=_snap(target_module), snap_o=_snap(own if frame_module_known else caller),
                           snap_func=_snap(func), snap_foo=_snap(Foo), calls_log=calls_log, product=product, snap_held=_snap(held) if held is not None else None))


def _cff_tag(d):
    return f"[{d['ret']},{d['name_kind']},{d['existing']},caller-module-{'known' if d['frame_module_known'] else 'unknown'}]"


def cff_post(ctx, st, result):
    d = st.data
    tag = _cff_tag(d)
    Foo, func, nm = d["Foo"], d["func"], d["final_name"]
    ctx.oblige("post", "answered=>the-function's-return-class-is-known(given, annotated, or a string annotation that resolves)" + tag, d["want"] is not None)
    ctx.oblige("post", "answered=>the-caller's-module-does-not-hold-something-else-under-that-name" + tag, d["existing"] in ("module-does-not-define-the-name", "module-holds-the-class-made-earlier-for-this-function"))
    if d["existing"] == "module-holds-the-class-made-earlier-for-this-function":
        ctx.oblige("post", "asked-again-for-the-same-function,return-class-and-name=>the-class-made-earlier-is-returned(no second class),and-nothing-is-written" + tag,
                   result is d["held"] and not _changed(d["target_module"], d["snap_t"]) and not _changed(d["held"], d["snap_held"]))
    else:
        is_new = isinstance(result, Rec) and result is not d["held"] and result is not Foo
        bases = result.attrs.get("__bases__", ()) if isinstance(result, Rec) else ()
        ctx.oblige("post", "C14:the-class-built-is-a-subclass-of-the-class-the-function-returns(its first base),and-of-ClassFromFunctionBase" + tag,
                   is_new and len(bases) == 2 and bases[0] is Foo and isinstance(bases[1], ClassRef) and bases[1].name == "ClassFromFunctionBase")
        if is_new:
            a1, a2, kv = z3.String("ctor.arg1"), z3.Int("ctor.arg2"), z3.Bool("ctor.flag")
            before = len(d["calls_log"])
            ran, built = _construct(ctx, result.attrs.get("__new__"), (result, a1, a2), {"flag": kv})
            log = d["calls_log"][before:]
            ok = ran and len(log) == 1 and len(log[0][0]) == 2 and log[0][0][0] is a1 and log[0][0][1] is a2 and set(log[0][1]) == {"flag"} and log[0][1]["flag"] is kv
            ctx.oblige("post", "C14:constructing-the-class-calls-the-function-exactly-once-with-exactly-the-arguments-given(the class itself is not passed)" + tag, ok and before == 0, note=str(log))
            ctx.oblige("post", "C14:constructing-the-class-returns-what-the-function-returned" + tag, ran and built is d["product"])
            ctx.oblige("post", "the-class-remembers-the-function-it-wraps" + tag, result.attrs.get("wrapped_function") is func)
            ctx.oblige("post", "the-class-is-named-as-asked(default: the function's qualified name with dots doubled to underscores + _class),__qualname__-alike" + tag,
                       result.attrs.get("__name__") == nm and result.attrs.get("__qualname__") == nm)
            ctx.oblige("post", "C14:the-class-is-importable-by-its-own-path:it-is-registered-in-the-caller's-module(jsonargparse._util when the caller has none)-under-its-name,and-names-that-module" + tag,
                       d["target_module"].attrs.get(nm) is result and result.attrs.get("__module__") == d["target_module"].attrs["__name__"])
            ctx.oblige("post", "the-class-carries-the-function's-docstring" + tag, result.attrs.get("__doc__") is func.attrs["__doc__"])
            ctx.oblige("frame", "the-caller's-module-gains-exactly-that-name" + tag, not _changed(d["target_module"], d["snap_t"], allow=(nm,)))
    ctx.oblige("frame", "the-function,the-return-class-and-every-other-module-are-untouched" + tag,
               not _changed(func, d["snap_func"]) and not _changed(Foo, d["snap_foo"]) and not _changed(d["other_module"], d["snap_o"]))


def cff_raises(ctx, st, exc):
    d = st.data
    tag = _cff_tag(d)
    ctx.oblige("raises", f"refused=>ValueError(got {exc.cls}@{exc.origin})" + tag, exc.cls == "ValueError")
    ctx.oblige("raises", "refused=>no-return-class-is-known,or-the-caller's-module-already-holds-something-else-under-that-name" + tag,
               d["want"] is None or d["existing"] not in ("module-does-not-define-the-name", "module-holds-the-class-made-earlier-for-this-function"))
    if d["ret"] == "annotation-is-a-string(unresolvable)":
        ctx.oblige("raises", "an-unresolvable-annotation-is-reported-with-its-cause" + tag, isinstance(exc.cause, ExcVal) and exc.cause.cls == "NameError")
    ctx.oblige("frame", "refused=>no-module-gains-or-loses-a-name;the-function,the-return-class-and-what-the-module-held-are-untouched" + tag,
               not _changed(d["target_module"], d["snap_t"]) and not _changed(d["other_module"], d["snap_o"]) and not _changed(d["func"], d["snap_func"]) and not _changed(d["Foo"], d["snap_foo"])
               and (d["held"] is None or not _changed(d["held"], d["snap_held"])) and not d["calls_log"])


def class_from_function_unit(prop):
    return Unit(prop, UTIL + "class_from_function", cff_setup, cff_post, cff_raises, expect_cover=("return", "raise:ValueError"),
                trusted=["inspect.signature(func).return_annotation is the annotation as written (a class, a string, or Signature.empty)", "typing.get_type_hints(func)['return'] resolves a string annotation to the class / a ForwardRef, or raises",
                         "inspect.stack()[1][0] is the caller's frame; inspect.getmodule(frame) its module or None", "inspect.getmro(cls)[1] is the first base of a class made by this function; inspect.isclass",
                         "functools.wraps(func) returns the decorated function itself (copies metadata only)", "a class statement binds its bases in the order written"])


def cfn_setup(ctx):
    outcome = ["returns", "raises"][ctx.choose(2, "the-function")]
    n = ctx.choose(3, "positional-arguments")
    kw = ctx.choose(2, "keyword-arguments") == 1
    args = tuple([z3.String("a0"), z3.Int("a1")][:n])
    kwargs = {"flag": z3.Bool("flag")} if kw else {}
    log = []
    product = Rec("what the function returned")

    def run_func(c, s_, a, k):
        log.append((tuple(a), dict(k)))
        if outcome == "raises":
            raise PyRaise(ExcVal("TypeError", ("the function's own failure",), origin="func"))
        return product

    func = Rec("function", methods={"__call__": run_func})
    cls = Rec("class ClassFromFunction")
    return Setup(env={"cls": cls, "args": args, "kwargs": kwargs, "func": func}, data=dict(outcome=outcome, args=args, kwargs=kwargs, log=log, product=product, cls=cls, snap=_snap(cls)))


def _cfn_once(d):
    log = d["log"]
    return len(log) == 1 and len(log[0][0]) == len(d["args"]) and all(x is y for x, y in zip(log[0][0], d["args"])) and set(log[0][1]) == set(d["kwargs"]) and all(log[0][1][k] is d["kwargs"][k] for k in d["kwargs"])


def cfn_post(ctx, st, result):
    d = st.data
    tag = f"[{len(d['args'])}+{len(d['kwargs'])} arguments]"
    ctx.oblige("post", "C14:the-function-is-called-exactly-once-with-exactly-the-arguments-given(positional in order,keywords by name;the class is not passed)" + tag, _cfn_once(d))
    ctx.oblige("post", "C14:the-object-constructed-is-the-function's-result" + tag, result is d["product"] and d["outcome"] == "returns")
    ctx.oblige("frame", "the-class-is-not-written" + tag, not _changed(d["cls"], d["snap"]))


def cfn_raises(ctx, st, exc):
    d = st.data
    tag = f"[{len(d['args'])}+{len(d['kwargs'])} arguments]"
    ctx.oblige("raises", f"only-the-function's-own-error,unchanged,after-exactly-one-call(got {exc.cls}@{exc.origin})" + tag, d["outcome"] == "raises" and exc.origin == "func" and _cfn_once(d))


def class_from_function_new_unit(prop):
    return Unit(prop, UTIL + "class_from_function.<locals>.__new__", cfn_setup, cfn_post, cfn_raises, expect_cover=("return", "raise:TypeError"))


# ================================================================================================ logger settings (jsonargparse/_common.py)
LEVELS = {"CRITICAL": 50, "ERROR": 40, "WARNING": 30, "INFO": 20, "DEBUG": 10}
LOGGER_VALUES = ["False", "True", "None", "name(str)", "empty-str", "dict(name,level)", "dict(name)", "dict(level)", "dict()", "dict(name,level,extra-key)", "dict(extra-key)", "Logger-object",
                 "int", "zero", "list", "float"]
LEVEL_KINDS = ["CRITICAL", "ERROR", "WARNING", "INFO", "DEBUG", "some-other-string", "int-10", "None"]


class LogWorld:
    """Python's logging as far as these functions use it: a process-wide registry name -> Logger (getLogger returns the same object for the same name),
    loggers with parent / handlers, handlers with a level."""

    def __init__(self, ctx, class_logger_exists):
        self.ctx = ctx
        self.registry = {}
        self.new = []  # loggers created by getLogger during the call: (name term, logger)
        self.asked = []
        self.made_handlers = []
        self.reconp_calls = []
        self.root = self.logger("root", [self.handler("StreamHandler", 30)], parent=None)
        self.registry[""] = self.root
        self.other = self.logger("other", [self.handler("StreamHandler", 20)], parent=None)  # what another parser's setting {"name": "other", "level": "INFO"} left
        self.registry["other"] = self.other
        self.app = self.logger("app", [self.handler("FileHandler", 40), self.handler("StreamHandler", 10)], parent=self.root)  # the application's own logger
        self.registry["app"] = self.app
        self.bare = self.logger("bare", [], parent=self.root)  # a registered logger without handlers
        self.registry["bare"] = self.bare
        if class_logger_exists:
            self.registry["ArgumentParser"] = self.logger("ArgumentParser", [self.handler("StreamHandler", 30)], parent=None)  # what another parser's logger=True left
        self.null = self.logger("jsonargparse_null_logger", [self.handler("NullHandler", 0)], parent=None)
        self.registry["jsonargparse_null_logger"] = self.null
        self.user = self.logger("user-object", [self.handler("StreamHandler", 40)], parent=self.root)  # handed in as an object (not looked up by name)
        self.reconp = self.logger("plain_logger", [self.handler("StreamHandler", 30)], parent=None)
        self.snap0 = self.snapshot()

    def handler(self, cls, level):
        h = Rec(cls, attrs={"level": level, "formatter": None})
        h.methods["setLevel"] = lambda c, s_, a, k: (s_.attrs.__setitem__("level", a[0]), c.mutated(s_))[0]
        h.methods["setFormatter"] = lambda c, s_, a, k: (s_.attrs.__setitem__("formatter", a[0]), c.mutated(s_))[0]
        return h

    def logger(self, name, handlers, parent):
        lg = Rec("Logger", attrs={"name": name, "parent": parent, "handlers": list(handlers), "level": 0, "propagate": True, "disabled": False})
        lg.methods["addHandler"] = lambda c, s_, a, k: (s_.attrs["handlers"].append(a[0]), c.mutated(s_))[0]
        lg.methods["setLevel"] = lambda c, s_, a, k: (s_.attrs.__setitem__("level", a[0]), c.mutated(s_))[0]
        for m in ("debug", "info", "warning", "error"):
            lg.methods[m] = lambda c, s_, a, k: None
        return lg

    def all_loggers(self):
        return list(self.registry.values()) + [self.user, self.reconp]

    def state(self, lg):
        a = lg.attrs
        return (id(a["parent"]) if a["parent"] is not None else None, id(a["handlers"]), [(id(h), h.attrs["level"], id(h.attrs["formatter"]) if h.attrs["formatter"] is not None else None) for h in a["handlers"]],
                a["level"], a["propagate"], a["disabled"], a["name"] if not is_z3(a["name"]) else id(a["name"]))

    def snapshot(self):
        return {id(lg): self.state(lg) for lg in self.all_loggers()}

    def changed(self, except_=()):
        return [lg.attrs["name"] for lg in self.all_loggers() if lg not in except_ and self.snap0[id(lg)] != self.state(lg)]

    # ---- models
    def getLogger(self, c, a, k):
        name = a[0] if a else None
        self.asked.append(name)
        if name is None:
            return self.root
        if isinstance(name, str):
            if name in self.registry:
                return self.registry[name]
        elif is_z3(name) and name.sort() == z3.StringSort():
            for n, lg in list(self.registry.items()):
                if c.branch(name == S_(n), f"name=={n!r}"):
                    return lg
            for t, lg in self.new:
                if is_z3(t) and t.eq(name):
                    return lg
        else:
            raise PyRaise(ExcVal("TypeError", ("A logger name must be a string",), origin="logging.getLogger"))
        lg = self.logger(name, [], parent=self.root)
        self.new.append((name, lg))
        return lg

    def calls(self, debug, reconp_installed):
        def logger_setup(c, s_, a, k):
            self.reconp_calls.append((tuple(a), dict(k)))
            return self.reconp

        def stream_handler(c, a, k):
            h = self.handler("StreamHandler", 0)
            self.made_handlers.append(h)
            return h

        return {"logging.getLogger": self.getLogger, "logging.StreamHandler": stream_handler, "logging.Formatter": lambda c, a, k: Rec("Formatter", attrs={"fmt": a[0] if a else None}),
                "debug_mode_active": lambda c, a, k: debug, "import_reconplogger": lambda c, a, k: Rec("module reconplogger", methods={"logger_setup": logger_setup}),
                "deprecation_warning": lambda c, a, k: c.event("deprecation_warning")}

    def consts(self, reconp_installed):
        return {"logging.Logger": ClassRef("Logger"), "logging": Rec("module logging", attrs=dict(LEVELS)), "logging_levels": set(LEVELS), "null_logger": self.null, "reconplogger_support": reconp_installed}


def _class_name_hook(ctx, obj, attr):
    if isinstance(obj, ClassRef) and attr == "__name__":
        return obj.name
    if isinstance(obj, ClassRef) and obj.name == "LoggerProperty" and attr == "logger":
        return "<property LoggerProperty.logger>"
    return NotImplemented


def _logger_value(ctx, world, kind):
    """-> (value, name term or None, level or None)"""
    name = z3.String("logger-name")
    level = ABSENT
    if "level" in kind:
        lk = LEVEL_KINDS[ctx.choose(len(LEVEL_KINDS), "level")]
        if lk in LEVELS:
            level = lk
        elif lk == "some-other-string":
            level = z3.String("level")
            ctx.assume(z3.And(*[level != S_(n) for n in LEVELS]))
        else:
            level = {"int-10": 10, "None": None}[lk]
    v = {"False": False, "True": True, "None": None, "name(str)": name, "empty-str": "", "dict(name,level)": {"name": name, "level": level}, "dict(name)": {"name": name}, "dict(level)": {"level": level}, "dict()": {},
         "dict(name,level,extra-key)": {"name": name, "level": level, "format": "%(message)s"}, "dict(extra-key)": {"handlers": []}, "Logger-object": world.user, "int": 5, "zero": 0, "list": [], "float": 2.5}[kind]
    if kind == "name(str)":
        ctx.assume(z3.Length(name) > 0)  # (the empty name is its own case)
    return v, (name if "name" in kind else ("" if kind == "empty-str" else None)), level


def _valid_kind(kind):
    return kind in ("False", "True", "None", "name(str)", "empty-str", "dict(name,level)", "dict(name)", "dict(level)", "dict()", "Logger-object")


ABSENT = "<no level given>"


def _level_ok(level):
    return level is ABSENT or (isinstance(level, str) and level in LEVELS)


def _logger_post(ctx, d, result, tag, effective):
    """Clauses on the logger a setting denotes. `effective`: the setting after the documented replacements (None -> False; a falsy setting -> {'level': 'DEBUG'} in debug mode)."""
    w = d["world"]
    kind, name, level = effective
    ctx.oblige("post", "accepted=>a-documented-kind-of-setting(bool,name,dict of name/level,Logger object)" + tag, _valid_kind(kind))
    if not _valid_kind(kind):
        return None
    ctx.oblige("post", "accepted=>no-key-but-name/level,and-the-level-is-one-of-the-five-level-names" + tag, "extra" not in kind and _level_ok(level))
    want_level = LEVELS.get(level, 30) if isinstance(level, str) else 30
    if kind == "False":
        ctx.oblige("post", "False=>logging-disabled:the-module's-null-logger(unchanged: one NullHandler, no parent)" + tag, result is w.null and not w.changed() and not w.asked and not w.reconp_calls)
        return w.null
    if kind == "Logger-object":
        ctx.oblige("post", "a-Logger-object=>used-as-given,not-reconfigured;no-other-logger-touched" + tag, result is w.user and not w.changed() and not w.asked and not w.reconp_calls)
        return w.user
    if kind in ("True", "dict(level)", "dict()") and d["reconp"]:
        kw = {"level": "DEBUG", "reload": True} if d["debug"] else {}
        ctx.oblige("post", "True/a-dict-without-name,reconplogger-installed=>reconplogger's-logger,set-up-once(level DEBUG iff the debug variable is set);no-other-logger-touched" + tag,
                   result is w.reconp and w.reconp_calls == [((), kw)] and not w.changed() and not w.asked)
        return w.reconp
    # the default logger registered under a name: the one given, else the name of the class
    asked_name = name if name is not None else d["class_name"]
    ok_lookup = len(w.asked) == 1 and (w.asked[0] is asked_name or (isinstance(asked_name, str) and w.asked[0] == asked_name))
    ctx.oblige("post", "a-name/True/a-dict=>the-logger-registered-under-exactly-that-name(the class's name when none is given),looked-up-once;reconplogger-not-involved" + tag,
               ok_lookup and isinstance(result, Rec) and result.cls == "Logger" and (result in w.registry.values() or any(result is lg for _, lg in w.new)) and not w.reconp_calls)
    if isinstance(result, Rec) and result.cls == "Logger":
        hs = result.attrs["handlers"]
        ctx.oblige("post", "that-logger-does-not-propagate-to-a-parent,has-at-least-one-handler(a new stream handler only when it had none),and-every-handler-is-at-the-level-asked(WARNING by default)" + tag,
                   result.attrs["parent"] is None and len(hs) >= 1 and all(h.attrs["level"] == want_level for h in hs)
                   and (len(w.made_handlers) == (1 if w.snap0.get(id(result), (None, None, []))[2] == [] else 0)) and all(h in hs for h in w.made_handlers))
        ctx.oblige("frame", "C09:every-logger-registered-under-another-name,the-null-logger-and-the-root-logger(unless named) are-left-as-they-were" + tag, not w.changed(except_=(result,)), note=str(w.changed(except_=(result,))))
    return result


def lp_setup(ctx):
    kind = LOGGER_VALUES[ctx.choose(len(LOGGER_VALUES), "logger")]
    class_logger_exists = ctx.choose(2, "another-parser-already-enabled-the-default-logger") == 1
    debug = ctx.choose(2, "JSONARGPARSE_DEBUG-set") == 1
    reconp = ctx.choose(2, "reconplogger-installed") == 1
    w = LogWorld(ctx, class_logger_exists)
    value, name, level = _logger_value(ctx, w, kind)
    old = w.other
    self = Rec("ArgumentParser", attrs={"_logger": old, "_parser_mode": "yaml", "prog": "app"})
    B = Rec("ArgumentParser", attrs={"_logger": w.other, "_parser_mode": "yaml", "prog": "other"})
    ctx.classes.add("Logger", ["Filterer"])
    ctx.classes.add("ArgumentParser", ["ActionsContainer"])
    calls = w.calls(debug, reconp)
    return Setup(env={"self": self, "logger": value}, calls=calls, consts=w.consts(reconp), hooks={"getattr": _class_name_hook},
                 inline={"parse_logger": "jsonargparse._common:parse_logger", "setup_default_logger": "jsonargparse._common:setup_default_logger"},
                 data=dict(kind=kind, world=w, debug=debug, reconp=reconp, class_logger_exists=class_logger_exists, value=value, name=name, level=level, self_=self, B=B, old=old, snap_self=_snap(self), snap_B=_snap(B),
                           class_name="ArgumentParser", value_snap=dict(value) if isinstance(value, dict) else None), watch={"name": name} if is_z3(name) else {})


def _lp_tag(d):
    lv = repr(d["level"]) if not is_z3(d["level"]) else "<other string>"
    return f"[{d['kind']}" + (f",level={lv}" if "level" in d["kind"] else "") + f",debug={d['debug']},reconplogger={d['reconp']},default-logger-exists={d['class_logger_exists']}]"


def _effective(d):
    """the setting after the documented replacements"""
    kind, name, level = d["kind"], d["name"], d["level"]
    if kind == "None":
        kind = "False"
    falsy = kind in ("False", "empty-str", "dict()", "zero", "list")
    if falsy and d["debug"]:
        return "dict(level)", None, "DEBUG"
    return kind, name, level


def lp_post(ctx, st, result):
    d = st.data
    tag = _lp_tag(d)
    self = d["self_"]
    stored = self.attrs.get("_logger")
    want = _logger_post(ctx, d, stored, tag, _effective(d))
    from contracts.r2_coremisc import run_getter
    found, read = run_getter(ctx, "LoggerProperty", "logger", self, mod="jsonargparse._common")
    ctx.oblige("post", "the-getter-reads-back-the-logger-the-setting-denotes" + tag, found and read is stored and isinstance(stored, Rec) and stored.cls == "Logger")
    ctx.oblige("frame", "C09:only-this-parser's-logger-attribute-is-written;another-parser-keeps-its-logger-object;the-setting-handed-in-is-not-modified" + tag,
               not _changed(self, d["snap_self"], allow=("_logger",)) and not _changed(d["B"], d["snap_B"]) and (d["value_snap"] is None or (set(d["value"]) == set(d["value_snap"]) and all(d["value"][k] is d["value_snap"][k] for k in d["value"]))))
    ctx.oblige("post", "None-is-deprecated:one-deprecation-warning,then-as-False" + tag, len([e for e in ctx.events if e[0] == "deprecation_warning"]) == (1 if d["kind"] == "None" else 0))


def lp_raises(ctx, st, exc):
    d = st.data
    tag = _lp_tag(d)
    kind, name, level = _effective(d)
    ctx.oblige("raises", f"refused=>ValueError(got {exc.cls}@{exc.origin})" + tag, exc.cls == "ValueError")
    ctx.oblige("raises", "refused=>not-a-documented-kind-of-setting,or-a-dict-key-other-than-name/level,or-a-level-that-is-not-one-of-the-five-level-names" + tag,
               not _valid_kind(kind) or not _level_ok(level))
    w = d["world"]
    ctx.oblige("frame", "C09:refused=>nothing-stored:the-parser-keeps-its-logger,no-logger-was-looked-up,created-or-reconfigured,reconplogger-not-set-up" + tag,
               not _changed(d["self_"], d["snap_self"]) and d["self_"].attrs["_logger"] is d["old"] and not _changed(d["B"], d["snap_B"]) and not w.changed() and not w.asked and not w.new and not w.reconp_calls and not w.made_handlers)


LOG_TRUSTED = ["logging.getLogger(name) returns the one process-wide Logger registered under that name ('' / None: the root logger), creating it (no handlers, parent root) on first use",
               "Logger.addHandler appends to logger.handlers; Handler.setLevel / setFormatter store their argument; logging.<LEVEL NAME> are the level numbers",
               "reconplogger.logger_setup(**kw) returns reconplogger's own logger and accepts level= / reload= (NOT true of reconplogger 5.0.0, see the report)",
               "debug_mode_active() is True iff JSONARGPARSE_DEBUG is set to a truthy text (its own unit, r2_coremisc)",
               "the set logging_levels holds the five level names; membership of a hashable value"]


def logger_property_unit(prop):
    return Unit(prop, COMMON + "LoggerProperty.logger", lp_setup, lp_post, lp_raises, label="setter+getter", expect_cover=("return", "raise:ValueError"), max_paths=20000, trusted=LOG_TRUSTED)


# ---------------------------------------------------------------------------------------------- parse_logger / setup_default_logger / LoggerProperty.__init__
def pl_setup(ctx):
    kind = LOGGER_VALUES[ctx.choose(len(LOGGER_VALUES), "logger")]
    class_logger_exists = ctx.choose(2, "a-logger-named-like-the-caller-exists") == 1
    debug = ctx.choose(2, "JSONARGPARSE_DEBUG-set") == 1
    reconp = ctx.choose(2, "reconplogger-installed") == 1
    w = LogWorld(ctx, class_logger_exists)
    value, name, level = _logger_value(ctx, w, kind)
    caller = z3.String("caller")  # ALL caller names (the class name of whatever owns the property)
    ctx.classes.add("Logger", ["Filterer"])
    return Setup(env={"logger": value, "caller": caller}, calls=w.calls(debug, reconp), consts=w.consts(reconp), inline={"setup_default_logger": "jsonargparse._common:setup_default_logger"},
                 data=dict(kind=kind, world=w, debug=debug, reconp=reconp, class_logger_exists=class_logger_exists, value=value, name=name, level=level, class_name=caller,
                           value_snap=dict(value) if isinstance(value, dict) else None), watch={"caller": caller})


def _pl_effective(d):
    return ("None(not a setting here)" if d["kind"] == "None" else d["kind"]), d["name"], d["level"]


def pl_post(ctx, st, result):
    d = st.data
    tag = _lp_tag(d)
    _logger_post(ctx, d, result, tag, _pl_effective(d))
    ctx.oblige("frame", "the-setting-handed-in-is-not-modified" + tag, d["value_snap"] is None or (set(d["value"]) == set(d["value_snap"]) and all(d["value"][k] is d["value_snap"][k] for k in d["value"])))


def pl_raises(ctx, st, exc):
    d = st.data
    tag = _lp_tag(d)
    kind, name, level = _pl_effective(d)
    w = d["world"]
    ctx.oblige("raises", f"refused=>ValueError(got {exc.cls}@{exc.origin})" + tag, exc.cls == "ValueError")
    ctx.oblige("raises", "refused=>not-a-documented-kind-of-setting,or-a-dict-key-other-than-name/level,or-a-level-that-is-not-one-of-the-five-level-names" + tag, not _valid_kind(kind) or not _level_ok(level))
    ctx.oblige("frame", "C09:refused=>no-logger-was-looked-up,created-or-reconfigured,reconplogger-not-set-up" + tag, not w.changed() and not w.asked and not w.new and not w.reconp_calls and not w.made_handlers)


def parse_logger_unit(prop):
    return Unit(prop, COMMON + "parse_logger", pl_setup, pl_post, pl_raises, expect_cover=("return", "raise:ValueError"), max_paths=20000, trusted=LOG_TRUSTED)


SDL_DATA = ["name(str)", "dict(name,level)", "dict(level)", "dict()", "True"]


def sdl_setup(ctx):
    kind = SDL_DATA[ctx.choose(len(SDL_DATA), "data")]
    lv = sorted(LEVELS)[ctx.choose(5, "level")]
    class_logger_exists = ctx.choose(2, "a-logger-named-like-the-caller-exists") == 1
    w = LogWorld(ctx, class_logger_exists)
    name = z3.String("logger-name")
    data = {"name(str)": name, "dict(name,level)": {"name": name, "level": "INFO"}, "dict(level)": {"level": "INFO"}, "dict()": {}, "True": True}[kind]
    caller = z3.String("caller")
    return Setup(env={"data": data, "level": lv, "caller": caller}, calls=w.calls(False, False), consts=w.consts(False),
                 data=dict(kind=kind, world=w, debug=False, reconp=False, class_logger_exists=class_logger_exists, value=data, name=name if "name" in kind else None, level=lv, class_name=caller,
                           value_snap=dict(data) if isinstance(data, dict) else None), watch={"caller": caller, "name": name})


def sdl_post(ctx, st, result):
    d = st.data
    tag = f"[{d['kind']},level={d['level']},a-logger-named-like-the-caller-exists={d['class_logger_exists']}]"
    _logger_post(ctx, d, result, tag, (d["kind"], d["name"], d["level"]))  # (the level is the argument, not the one inside the dict: parse_logger has read and checked it)
    ctx.oblige("frame", "the-data-handed-in-is-not-modified" + tag, d["value_snap"] is None or (set(d["value"]) == set(d["value_snap"]) and all(d["value"][k] is d["value_snap"][k] for k in d["value"])))


def setup_default_logger_unit(prop):
    return Unit(prop, COMMON + "setup_default_logger", sdl_setup, sdl_post, _no_exc, max_paths=20000, trusted=LOG_TRUSTED[:2] + ["precondition (parse_logger's check): level is one of the five level names"])


def lpi_setup(ctx):
    given = ["logger-omitted", "logger-given", "logger-given-and-refused"][ctx.choose(3, "logger")]
    n = ctx.choose(3, "positional-arguments")
    kw = ctx.choose(2, "keyword-arguments") == 1
    value = Rec("a logger setting")
    args = tuple([z3.String("a0"), z3.Int("a1")][:n])
    kwargs = {"prog": z3.String("prog"), "env_prefix": z3.Bool("env_prefix")} if kw else {}
    log = []

    def set_attr(c, s_, a, k):
        log.append(("set", a[0], a[1]))
        if a[0] == "logger" and given == "logger-given-and-refused":
            raise PyRaise(ExcVal("ValueError", ("invalid logger",), origin="logger-setter"))  # contract of the property's setter (its own unit)
        if a[0] != "logger":
            s_.attrs[a[0]] = a[1]

    self = Rec("ArgumentParser", attrs={}, methods={"__setattr__": set_attr})
    calls = {"super": lambda c, a, k: Rec("super()", methods={"__init__": lambda c2, s2, a2, k2: log.append(("base-init", tuple(a2), dict(k2)))})}
    env = {"self": self, "args": args, "kwargs": kwargs}
    if given != "logger-omitted":
        env["logger"] = value
    return Setup(env=env, calls=calls, data=dict(given=given, value=value, args=args, kwargs=kwargs, log=log, self_=self))


def _lpi_sets(d):
    return [e for e in d["log"] if e[0] == "set"]


def lpi_post(ctx, st, result):
    d = st.data
    tag = f"[{d['given']},{len(d['args'])}+{len(d['kwargs'])} arguments]"
    sets = _lpi_sets(d)
    want = False if d["given"] == "logger-omitted" else d["value"]
    ctx.oblige("post", "the-setting-goes-through-the-validating-property,once,with-the-value-given(False=disabled when omitted);nothing-else-is-assigned" + tag,
               len(sets) == 1 and sets[0][1] == "logger" and sets[0][2] is want and not d["self_"].attrs)
    base = [e for e in d["log"] if e[0] == "base-init"]
    ok = len(base) == 1 and len(base[0][1]) == len(d["args"]) and all(x is y for x, y in zip(base[0][1], d["args"])) and set(base[0][2]) == set(d["kwargs"]) and all(base[0][2][k] is d["kwargs"][k] for k in d["kwargs"])
    ctx.oblige("post", "the-next-initialiser-runs-once-with-exactly-the-other-arguments(the logger setting is not forwarded)" + tag, ok and d["given"] != "logger-given-and-refused")


def lpi_raises(ctx, st, exc):
    d = st.data
    tag = f"[{d['given']},{len(d['args'])}+{len(d['kwargs'])} arguments]"
    ctx.oblige("raises", f"only-the-setter's-ValueError,unchanged;then-the-next-initialiser-has-not-run-and-nothing-is-stored(got {exc.cls}@{exc.origin})" + tag,
               d["given"] == "logger-given-and-refused" and exc.origin == "logger-setter" and not [e for e in d["log"] if e[0] == "base-init"] and not d["self_"].attrs and len(_lpi_sets(d)) == 1)


def logger_property_init_unit(prop):
    return Unit(prop, COMMON + "LoggerProperty.__init__", lpi_setup, lpi_post, lpi_raises, expect_cover=("return", "raise:ValueError"),
                trusted=["assigning self.logger runs the property's setter (its own unit: stores a Logger or raises ValueError with nothing stored)", "super().__init__ is the next initialiser of the class (argparse's)"])


# ================================================================================================ warning
TW_DEDENT = z3.Function("textwrap.dedent", z3.StringSort(), z3.StringSort())
TW_FILL = z3.Function("textwrap.fill", z3.StringSort(), z3.IntSort(), z3.StringSort())
TW_INDENT = z3.Function("textwrap.indent", z3.StringSort(), z3.StringSort(), z3.StringSort())
PY_STRIP = z3.Function("py.str.strip", z3.StringSort(), z3.StringSort())


def _is_text(v):
    return isinstance(v, str) or (is_z3(v) and v.sort() == z3.StringSort())


def _tw(fn, n_text, total):
    """A textwrap function: total on text, TypeError for anything else / a wrong number of arguments."""
    def model(c, a, k):
        if k or len(a) != total or not all(_is_text(x) for x in a[:n_text]) or not all(isinstance(x, int) or (is_z3(x) and x.sort() == z3.IntSort()) for x in a[n_text:]):
            raise PyRaise(ExcVal("TypeError", origin=str(fn)))
        return fn(*[lift(x) for x in a])
    return model


def wn_setup(ctx):
    cat = ["category-omitted", "category-given"][ctx.choose(2, "category")]
    sl = ["stacklevel-omitted", "stacklevel-given"][ctx.choose(2, "stacklevel")]
    message = z3.String("message")  # ALL message texts (every call site passes a str)
    category = ClassRef("JsonargparseDeprecationWarning")
    stacklevel = z3.Int("stacklevel")
    issued = []

    def after(c, interp, stmt, env):
        # warnings.warn is one of the calls the engine drops (assumption A7: it returns None): the statement is looked at here instead
        import ast
        if isinstance(stmt, ast.Expr) and isinstance(stmt.value, ast.Call) and ast.unparse(stmt.value.func) == "warnings.warn":
            issued.append(interp._eval_args(stmt.value, env))

    env = {"message": message}
    if cat == "category-given":
        env["category"] = category
    if sl == "stacklevel-given":
        env["stacklevel"] = stacklevel
    calls = {"textwrap.dedent": _tw(TW_DEDENT, 1, 1), "textwrap.fill": _tw(TW_FILL, 1, 2), "textwrap.indent": _tw(TW_INDENT, 2, 2)}
    return Setup(env=env, calls=calls, hooks={"after_stmt": after}, data=dict(cat=cat, sl=sl, message=message, category=category, stacklevel=stacklevel, issued=issued), watch={"message": message, "stacklevel": stacklevel})


def wn_post(ctx, st, result):
    d = st.data
    tag = f"[{d['cat']},{d['sl']}]"
    issued = d["issued"]
    ctx.oblige("post", "exactly-one-warning-is-issued,and-nothing-is-returned" + tag, len(issued) == 1 and result is None)
    if len(issued) != 1:
        return
    a, k = issued[0]
    got_cat = k.get("category", a[1] if len(a) > 1 else None)
    want_cat = d["category"].name if d["cat"] == "category-given" else "JsonargparseWarning"
    ctx.oblige("post", "with-the-category-asked-for(JsonargparseWarning by default)" + tag, isinstance(got_cat, ClassRef) and got_cat.name == want_cat)
    got_sl = k.get("stacklevel", a[2] if len(a) > 2 else 1)
    want_sl = d["stacklevel"] + 1 if d["sl"] == "stacklevel-given" else z3.IntVal(2)
    ctx.oblige("post", "attributed-to-the-caller-of-the-function-that-warns(stacklevel one more than given;1 by default: that function's caller)" + tag, lift(got_sl) == want_sl)
    text = a[0] if a else k.get("message")
    want = z3.Concat(S_("\n"), TW_INDENT(PY_STRIP(TW_FILL(TW_DEDENT(d["message"]), z3.IntVal(110))), S_("    ")), S_("\n"))
    ctx.oblige("post", "the-text-is-the-message-given:dedented,wrapped-at-110-columns,stripped,indented-by-four-blanks,between-two-line-breaks" + tag, _is_text(text) and lift(text) == want, strings=True)


def wn_raises(ctx, st, exc):
    d = st.data
    ctx.oblige("raises", f"C03:warning()-never-raises,whatever-the-message-text(got {exc.cls}@{exc.origin})[{d['cat']},{d['sl']}]", False)


def warning_unit(prop):
    return Unit(prop, UTIL + "warning", wn_setup, wn_post, wn_raises,
                trusted=["textwrap.dedent / fill / indent are total on str (TypeError for anything else)", "warnings.warn returns None unless the process's warning filters turn the category into an error (python -W error: the user's choice)",
                         "every call site passes a str (checked by reading the four call sites)"])


# ================================================================================================ typehint_metavar / ActionTypeHint.extra_help (help only)
def _universe():
    """The hint universe of contracts/r2_typehelpers.py (typing objects and classes as records compared by identity), plus an Enum with members, a Literal
    and the CPython rule that a class without an attribute raises AttributeError."""
    from contracts.r2_typehelpers import U, hint_table
    u = U()
    u.Literal = Rec("typing.Literal")
    u.frozenset, u.MutableSet = Rec("class frozenset", attrs={"__name__": "frozenset"}), Rec("typing.MutableSet")
    u.Color.attrs["__members__"] = {"red": Rec("Color.red"), "blue": Rec("Color.blue")}

    def missing(c, s_, a, k):
        raise PyRaise(ExcVal("AttributeError", (f"type object {s_.attrs.get('__name__')!r} has no attribute {a[0]!r}",), origin=f"{s_.attrs.get('__name__')}.{a[0]}"))

    for cl in u.classes:
        cl.methods["__getattr__"] = missing
    t = hint_table(u)
    t["bool"] = u.bool
    t["str"] = u.str
    t["B"] = u.B
    t["Literal['a',1,None]"] = u.g(u.Literal, "a", 1, None)
    t["Literal['only']"] = u.g(u.Literal, "only")
    t["Union[Literal['a'],None]"] = u.g(u.Union, t["Literal['only']"], u.NoneType)
    t["frozenset[int]"] = u.g(u.frozenset, u.int)
    return u, t


MV_HINTS = ["bool", "Union[bool,None]", "Union[None,bool]", "Literal['a',1,None]", "Literal['only']", "Color", "Union[Color,None]", "Union[None,Color]", "Tuple[int,str]", "tuple[int,...]", "Set[int]", "frozenset[int]",
            "int", "str", "A", "List[int]", "Dict[str,int]", "Union[int,str]", "Union[int,None]", "Union[A,None]", "Union[int,Color]", "Union[Literal['a'],None]", "Callable[[int],A]", "Type[A]"]
MV_EXPECTED = {"bool": "{true,false}", "Union[bool,None]": "{true,false,null}", "Union[None,bool]": "{true,false,null}", "Literal['a',1,None]": "{a,1,null}", "Literal['only']": "only", "Color": "{red,blue}",
               "Union[Color,None]": "{red,blue,null}", "Union[None,Color]": "{red,blue,null}", "Tuple[int,str]": "[ITEM,...]", "tuple[int,...]": "[ITEM,...]", "Set[int]": "[ITEM,...]", "frozenset[int]": "[ITEM,...]"}


def _set_str(c, a, k):
    """iter_to_set_str by its contract (its own unit, r2_typehelpers): the distinct items in order, '{a,b}', a single item bare."""
    items = []
    for x in (list(a[0]) if not isinstance(a[0], dict) else list(a[0].keys())):
        if x not in items:
            items.append(x)
    return str(items[0]) if len(items) == 1 else "{" + ",".join(str(x) for x in items) + "}"


def _hint_snap(h):
    return (id(h), _snap(h), [(id(x), _snap(x)) if isinstance(x, Rec) else x for x in h.attrs.get("__args__", ())]) if isinstance(h, Rec) else h


def mv_setup(ctx):
    u, t = _universe()
    hk = MV_HINTS[ctx.choose(len(MV_HINTS), "typehint")]
    h = t[hk]
    consts = {**u.consts("bool", "tuple", "set"), "literal_types": {u.Literal}, "tuple_set_origin_types": {u.Tuple, u.tuple, u.Set, u.set, u.frozenset, u.MutableSet}}
    calls = {**u.calls(), "iter_to_set_str": _set_str}
    return Setup(env={"typehint": h}, calls=calls, consts=consts, inline={"is_optional": TH + "is_optional", "get_optional_arg": TH + "get_optional_arg", "literal_to_str": TH + "literal_to_str"}, data=dict(hk=hk, h=h, u=u, snap=_hint_snap(h), members=dict(u.Color.attrs["__members__"])))


def mv_post(ctx, st, result):
    d = st.data
    want = MV_EXPECTED.get(d["hk"])
    ctx.oblige("post", f"the-metavar-spells-the-accepted-values:bool/Optional[bool]/Literal/Enum/Optional[Enum](None as null;Optional in either member order),[ITEM,...]-for-tuples-and-sets,none-otherwise[{d['hk']}]",
               result == want if want is not None else result is None, note=repr(result))
    ctx.oblige("frame", f"help-only:the-hint-and-the-Enum's-members-are-only-read[{d['hk']}]", _hint_snap(d["h"]) == d["snap"] and d["u"].Color.attrs["__members__"] == d["members"])


def mv_raises(ctx, st, exc):
    d = st.data
    ctx.oblige("raises", f"C12:declaring-an-argument-never-fails-on-the-metavar:no-exception-for-any-supported-hint(got {exc.cls}@{exc.origin})[{d['hk']}]", False)


def typehint_metavar_unit(prop):
    return Unit(prop, TH + "typehint_metavar", mv_setup, mv_post, mv_raises,
                trusted=["hints are records with __origin__/__args__ compared by identity (r2_typehelpers.U); a class without an attribute raises AttributeError", "get_typehint_origin / is_subclass / iter_to_set_str by contract (their own units); is_optional and literal_to_str interpreted from their real bodies"])


XH_HINTS = ["A", "B", "Union[A,None]", "Union[None,A]", "Union[A,int]", "Callable[[int],A]", "Union[None,Callable[[int],A]]", "Union[Callable[[int],A],None]", "Callable[[int],int]", "Callable", "Type[A]",
            "int", "List[int]", "Union[int,None]", "Color", "Dict[str,int]", "Union[None,Color]"]
# hint -> the hint whose subclasses are to be listed (None: not a class-typed argument, nothing to list)
XH_ASKED = {"A": "A", "B": "B", "Union[A,None]": "A", "Union[None,A]": "A", "Union[A,int]": "Union[A,int]", "Callable[[int],A]": "A", "Union[None,Callable[[int],A]]": "A", "Union[Callable[[int],A],None]": "A",
            "Callable[[int],int]": "int", "Callable": "Callable", "Type[A]": "Type[A]"}
XH_KNOWN = {"A": 2, "B": 1, "Union[A,int]": 2, "Type[A]": 2, "int": 0, "Callable": 0}


def xh_setup(ctx):
    u, t = _universe()
    hk = XH_HINTS[ctx.choose(len(XH_HINTS), "typehint")]
    h = t[hk]
    paths = [z3.String("class_path1"), z3.String("class_path2")]
    asked = []

    def is_class_hint(x, all_subtypes=True):
        if x is u.A or x is u.B:
            return True
        if u.origin(x) is u.Union:
            members = [m is u.A or m is u.B for m in x.attrs["__args__"] if m is not u.NoneType]
            return all(members) if all_subtypes else any(members)
        return False

    def subclass_paths(c, a, k):
        asked.append(a[0])
        name = [n for n in XH_KNOWN if t[n] is a[0]]
        return list(paths[:XH_KNOWN[name[0]]]) if name else []

    self = Rec("ActionTypeHint", attrs={"_typehint": h, "dest": "model", "help": "h", "option_strings": ["--model"], "sub_add_kwargs": {"fail_untyped": True}},
               methods={"is_subclass_typehint": lambda c, s_, a, k: is_class_hint(a[0], k.get("all_subtypes", True)),
                        "is_callable_typehint": lambda c, s_, a, k: u.origin(a[0]) is u.abcCallable or a[0] is u.Callable or a[0] is u.abcCallable})
    calls = {**u.calls(), "get_all_subclass_paths": subclass_paths}
    consts = {**u.consts("type"), "Type": u.Type}
    return Setup(env={"self": self}, calls=calls, consts=consts,
                 inline={"is_optional": TH + "is_optional", "get_optional_arg": TH + "get_optional_arg", "get_callable_return_type": TH + "get_callable_return_type"},
                 data=dict(hk=hk, h=h, u=u, t=t, self_=self, snap=_snap(self), hsnap=_hint_snap(h), paths=paths, asked=asked))


def xh_post(ctx, st, result):
    d = st.data
    hk = d["hk"]
    want_asked = XH_ASKED.get(hk)
    n = XH_KNOWN.get(want_asked, 0) if want_asked else 0
    ctx.oblige("post", f"the-subclasses-listed-are-those-of-the-class-an-argument-of-this-hint-accepts(Optional in either order;the return class of a callable),asked-once;nothing-is-asked-for-other-hints[{hk}]",
               (len(d["asked"]) == 1 and d["asked"][0] is d["t"][want_asked]) if want_asked else not d["asked"])
    want = z3.Concat(S_(", known subclasses: "), d["paths"][0], S_(", "), d["paths"][1]) if n == 2 else (z3.Concat(S_(", known subclasses: "), d["paths"][0]) if n == 1 else S_(""))
    ctx.oblige("post", f"the-extra-help-is-', known subclasses: '+the-known-class-paths-joined-by-', '(ALL paths);empty-when-there-is-none[{hk}]", _is_text(result) and lift(result) == want, strings=True)
    ctx.oblige("frame", f"help-only:the-action-and-its-hint-are-only-read[{hk}]", not _changed(d["self_"], d["snap"]) and _hint_snap(d["h"]) == d["hsnap"] and not ctx.mutlog)


def xh_raises(ctx, st, exc):
    ctx.oblige("raises", f"help-only:no-exception-for-any-supported-hint(got {exc.cls}@{exc.origin})[{st.data['hk']}]", False)


def extra_help_unit(prop):
    return Unit(prop, TH + "ActionTypeHint.extra_help", xh_setup, xh_post, xh_raises,
                trusted=["is_subclass_typehint / is_callable_typehint / get_all_subclass_paths by contract (their own units: any_units, r2_typehelpers)", "get_optional_arg, is_optional, get_callable_return_type interpreted from their real bodies"])


# ---------------------------------------------------------------------------------------------- ActionTypeHint.completer (argcomplete)
CP_HINTS = ["bool", "Union[bool,None]", "Union[None,bool]", "Color", "Union[Color,None]", "Union[None,Color]", "Union[Path,None]", "Union[None,Path]", "int", "A", "List[int]", "Union[int,str]", "Union[int,None]"]
CP_FIXED = {"bool": ["true", "false"], "Union[bool,None]": ["true", "false", "null"], "Union[None,bool]": ["true", "false", "null"], "Color": ["red", "blue"], "Union[Color,None]": ["red", "blue", "null"],
            "Union[None,Color]": ["red", "blue", "null"], "Union[Path,None]": ["null", "a.yaml", "b.yaml"], "Union[None,Path]": ["null", "a.yaml", "b.yaml"]}
CP_CHECK = ["valid", "TypeError", "ValueError", "YAMLError(loader)"]


def cpl_setup(ctx):
    u, t = _universe()
    t["Union[Path,None]"], t["Union[None,Path]"] = u.g(u.Union, u.Path, u.NoneType), u.g(u.Union, u.NoneType, u.Path)
    hk = CP_HINTS[ctx.choose(len(CP_HINTS), "typehint")]
    with_choices = ctx.choose(2, "choices") == 1
    free = hk not in CP_FIXED and not with_choices
    comp_type = ["63(?: list completions)", "9(tab)"][ctx.choose(2, "COMP_TYPE")] if free else "9(tab)"
    check = CP_CHECK[ctx.choose(len(CP_CHECK), "_check_type")] if free and comp_type.startswith("63") else "valid"
    h = t[hk]
    prefix = z3.String("prefix")
    log = []
    ctx.classes.add("YAMLError", ["Exception"])

    def check_type(c, s_, a, k):
        log.append(("check", a[0]))
        if check != "valid":
            raise PyRaise(ExcVal(check.split("(")[0], ("not valid",), origin="_check_type"))
        return a[0]

    choices = [z3.Int("choice1"), "b"] if with_choices else None
    self = Rec("ActionTypeHint", attrs={"_typehint": h, "choices": choices, "dest": "x", "option_strings": ["--x"]}, methods={"_check_type": check_type})
    type_text = z3.String("type_to_str(hint)")
    redraw = Rec("what argcomplete_warn_redraw_prompt returned")
    calls = {**u.calls(), "get_files_completer": lambda c, a, k: Fn(lambda c2, a2, k2: (log.append(("files", tuple(a2), dict(k2))), ["b.yaml", "a.yaml"])[1], "files_completer"),
             "argcomplete_warn_redraw_prompt": lambda c, a, k: (log.append(("redraw", a[0], a[1])), redraw)[1], "type_to_str": lambda c, a, k: (log.append(("type_to_str", a[0])), type_text)[1],
             "get_loader_exceptions": lambda c, a, k: (ClassRef("YAMLError"),), "int": lambda c, a, k: int(a[0]), "chr": lambda c, a, k: chr(a[0])}
    consts = {**u.consts("bool"), "os.environ": {"COMP_TYPE": comp_type.split("(")[0], "COMP_LINE": "prog --x "}}
    kwargs = {"parsed_args": Rec("Namespace"), "action": self}
    return Setup(env={"self": self, "prefix": prefix, "kwargs": kwargs}, calls=calls, consts=consts, inline={"is_optional": TH + "is_optional", "get_optional_arg": TH + "get_optional_arg"},
                 data=dict(hk=hk, with_choices=with_choices, comp_type=comp_type, check=check, h=h, u=u, self_=self, snap=_snap(self), hsnap=_hint_snap(h), prefix=prefix, log=log, choices=list(choices) if choices else None,
                           type_text=type_text, redraw=redraw, kwargs=kwargs, free=free), watch={"prefix": prefix})


def cpl_post(ctx, st, result):
    d = st.data
    hk = d["hk"]
    tag = f"[{hk},choices={d['with_choices']},COMP_TYPE={d['comp_type']},check={d['check']}]"
    if d["with_choices"]:
        ok = isinstance(result, list) and len(result) == 2 and result[1] == "b" and is_z3(result[0]) and result[0].sort() == z3.StringSort()
        ctx.oblige("post", "choices-declared=>exactly-the-choices,as-text,in-order" + tag, ok)
        if ok:
            c1 = d["choices"][0]
            ctx.oblige("post", "choices-declared=>an-integer-choice-is-spelled-as-str()-spells-it" + tag, result[0] == z3.If(c1 >= 0, z3.IntToStr(c1), z3.Concat(S_("-"), z3.IntToStr(-c1))), strings=True)
    elif hk in CP_FIXED:
        ctx.oblige("post", "the-completions-are-the-accepted-spellings:true/false,the-Enum's-member-names,null-for-an-Optional(either member order),null+the-sorted-file-completions-for-an-optional-path" + tag,
                   result == CP_FIXED[hk], note=repr(result))
        files = [e for e in d["log"] if e[0] == "files"]
        if "Path" in hk:
            ctx.oblige("post", "the-file-completer-is-asked-once-about-the-very-prefix-with-the-keywords-given" + tag,
                       len(files) == 1 and len(files[0][1]) == 1 and files[0][1][0] is d["prefix"] and set(files[0][2]) == set(d["kwargs"]) and all(files[0][2][k] is d["kwargs"][k] for k in d["kwargs"]))
    elif d["comp_type"].startswith("9"):
        ctx.oblige("post", "any-other-hint,not-asked-to-list(COMP_TYPE is not '?')=>no-completions,nothing-checked,nothing-printed" + tag, result is None and not d["log"])
    else:
        red = [e for e in d["log"] if e[0] == "redraw"]
        ok = len(red) == 1 and result is d["redraw"] and red[0][1] is d["prefix"]
        ctx.oblige("post", "any-other-hint,asked-to-list=>one-hint-line-for-the-very-prefix,its-result-returned" + tag, ok)
        if ok:
            checked = [e for e in d["log"] if e[0] == "check"]
            blank = PY_STRIP(d["prefix"]) == S_("")
            valid = z3.And(z3.Not(blank), z3.BoolVal(d["check"] == "valid"))
            want = z3.Concat(z3.If(valid, S_("value already valid, "), S_("value not yet valid, ")), S_("expected type "), d["type_text"])
            ctx.oblige("post", "the-line-says-'value already valid'-exactly-when-the-prefix-is-not-blank-and-passes-the-action's-type-check('not yet valid' otherwise: a failed check is reported, never raised),then-the-expected-type" + tag,
                       lift(red[0][2]) == want, strings=True)
            ctx.oblige("post", "only-the-very-prefix-is-checked,at-most-once;the-type-named-is-the-action's-hint" + tag,
                       len(checked) <= 1 and all(e[1] is d["prefix"] for e in checked) and [e[1] for e in d["log"] if e[0] == "type_to_str"] == [d["h"]])
    ctx.oblige("frame", "completion-only:the-action,its-hint-and-its-choices-are-only-read" + tag,
               not _changed(d["self_"], d["snap"]) and _hint_snap(d["h"]) == d["hsnap"] and (d["choices"] is None or all(x is y for x, y in zip(d["self_"].attrs["choices"], d["choices"]))) and not [m for m in ctx.mutlog if m is d["self_"] or m is d["h"]])


def cpl_raises(ctx, st, exc):
    d = st.data
    ctx.oblige("raises", f"completion-only:no-exception-for-any-supported-hint(got {exc.cls}@{exc.origin})[{d['hk']},choices={d['with_choices']},COMP_TYPE={d['comp_type']},check={d['check']}]", False)


def completer_unit(prop):
    return Unit(prop, TH + "ActionTypeHint.completer", cpl_setup, cpl_post, cpl_raises,
                trusted=["precondition: called by argcomplete, which sets COMP_TYPE to a character code", "_check_type raises TypeError (its contract, check_type.py) - ValueError and the loader's exceptions are tolerated as well",
                         "get_files_completer() returns argcomplete's FilesCompleter; argcomplete_warn_redraw_prompt prints the hint line", "type_to_str names the hint (its own unit)"])


# ================================================================================================ register_unresolvable_import_paths / hash_item / get_argument_group_class
def rui_setup(ctx):
    n_modules = ctx.choose(3, "modules")
    pre_registered = ctx.choose(2, "table-already-holds-an-entry") == 1
    mods, objs = [], []
    for i in range(n_modules):
        mname = z3.String(f"module{i}.__name__")
        f_none = Rec("FunctionType", attrs={"__module__": None, "__name__": z3.String(f"m{i}.function.__name__"), "tag": "function, __module__ None"})
        b_none = Rec("BuiltinFunctionType", attrs={"__module__": None, "__name__": f"builtin{i}", "tag": "builtin function, __module__ None"})
        f_mod = Rec("FunctionType", attrs={"__module__": "pkg.real", "__name__": "resolvable", "tag": "function with a module"})
        nameless = Rec("FunctionType", attrs={"__module__": None, "tag": "function without a name"})
        const = Rec("int", attrs={"tag": "a constant"})
        inst = Rec("Thing", attrs={"__module__": None, "__name__": "thing", "tag": "an instance that happens to have the attributes"})
        content = {"f": f_none, "b": b_none, "g": f_mod, "h": nameless, "N": const, "t": inst, "text": "some text"}
        mod = Rec("module", attrs={"__name__": mname, "__dict__": content})
        mods.append(mod)
        objs.append(dict(mod=mod, mname=mname, f_none=f_none, b_none=b_none, others=[f_mod, nameless, const, inst], content=dict(content)))
    earlier = Rec("FunctionType", attrs={"__module__": None, "__name__": "earlier"})
    table = {earlier: "lib.earlier"} if pre_registered else {}
    consts = {"unresolvable_import_paths": table, "BuiltinFunctionType": ClassRef("BuiltinFunctionType"), "FunctionType": ClassRef("FunctionType"), "Type": ClassRef("typing.Type")}
    return Setup(env={"modules": tuple(mods)}, consts=consts, data=dict(objs=objs, table=table, earlier=earlier, pre=pre_registered, snaps=[(_snap(o["mod"]), [(_snap(v) if isinstance(v, Rec) else v) for v in o["content"].values()]) for o in objs]))


def rui_post(ctx, st, result):
    d = st.data
    table = d["table"]
    tag = f"[{len(d['objs'])} modules,pre-registered={d['pre']}]"
    from pyvc.engine import _undkey
    keys = [_undkey(k) for k in table]
    goals = []
    expected_keys = [d["earlier"]] if d["pre"] else []
    for o in d["objs"]:
        f, b = o["f_none"], o["b_none"]
        named = z3.Length(f.attrs["__name__"]) > 0
        got_f = [v for k, v in table.items() if _undkey(k) is f]
        goals.append(z3.If(named, z3.BoolVal(len(got_f) == 1) if not got_f else lift(got_f[0]) == z3.Concat(o["mname"], S_("."), f.attrs["__name__"]), z3.BoolVal(not got_f)))
        got_b = [v for k, v in table.items() if _undkey(k) is b]
        goals.append(z3.BoolVal(len(got_b) == 1) if not got_b else lift(got_b[0]) == z3.Concat(o["mname"], S_("."), S_(b.attrs["__name__"])))
        expected_keys += [f, b]
    ctx.oblige("post", "C14:every-(builtin)-function-of-the-modules-given-whose-__module__-is-None-and-that-has-a-name-is-registered-under-<module name>.<its name>(ALL names)" + tag, z3.And(*goals) if goals else True, strings=True)
    ctx.oblige("post", "nothing-else-is-registered:not-an-object-with-a-module,a-nameless-one,a-constant,an-instance" + tag, all(any(k is e for e in expected_keys) for k in keys))
    ctx.oblige("frame", "earlier-entries-stay;the-modules-and-their-objects-are-only-read" + tag,
               (not d["pre"] or table.get(d["earlier"]) == "lib.earlier") and all(_snap(o["mod"]) == sn[0] and [(_snap(v) if isinstance(v, Rec) else v) for v in o["content"].values()] == sn[1] and list(o["mod"].attrs["__dict__"]) == list(o["content"]) for o, sn in zip(d["objs"], d["snaps"])))


def register_unresolvable_unit(prop):
    return Unit(prop, UTIL + "register_unresolvable_import_paths", rui_setup, rui_post, _no_exc,
                trusted=["vars(module) is the module's namespace; type(x) of a function / builtin function is FunctionType / BuiltinFunctionType", "get_import_path consults this table first (its own unit, contracts/import_paths.py)"])


HASH = z3.Function("hash", z3.StringSort(), z3.IntSort())
HI_KINDS = ["str", "int-as-text", "dict", "list", "dict-that-cannot-be-dumped", "list-that-cannot-be-dumped", "unhashable-object", "hashable-object", "None"]


def hi_setup(ctx):
    kind = HI_KINDS[ctx.choose(len(HI_KINDS), "item")]
    text, dump, rep = z3.String("item"), z3.String("json_compact_dump(item)"), z3.String("repr(item)")
    obj = Rec("Thing", attrs={"x": 1})
    item = {"str": text, "int-as-text": text, "dict": {"a": 1}, "list": [1, 2], "dict-that-cannot-be-dumped": {"a": obj}, "list-that-cannot-be-dumped": [obj], "unhashable-object": obj, "hashable-object": obj, "None": None}[kind]
    log = []

    def hash_(c, a, k):
        x = a[0]
        log.append(("hash", x))
        if _is_text(x):
            return HASH(lift(x))
        if x is None:
            return 7
        if isinstance(x, (dict, list)) or (x is obj and kind == "unhashable-object"):
            raise PyRaise(ExcVal("TypeError", ("unhashable type",), origin="hash"))
        return z3.Int("hash(object)")

    def dump_(c, a, k):
        log.append(("dump", a[0]))
        if "cannot-be-dumped" in kind:
            raise PyRaise(ExcVal("TypeError", ("not JSON serializable",), origin="json_compact_dump"))
        return dump

    calls = {"hash": hash_, "json_compact_dump": dump_, "repr": lambda c, a, k: (log.append(("repr", a[0])), rep)[1]}
    return Setup(env={"item": item}, calls=calls, data=dict(kind=kind, item=item, text=text, dump=dump, rep=rep, log=log, copy=(dict(item) if isinstance(item, dict) else list(item) if isinstance(item, list) else None)))


def hi_post(ctx, st, result):
    d = st.data
    kind = d["kind"]
    if kind in ("str", "int-as-text"):
        want = HASH(d["text"])
    elif kind in ("dict", "list"):
        want = HASH(d["dump"])
    elif kind in ("dict-that-cannot-be-dumped", "list-that-cannot-be-dumped", "unhashable-object"):
        want = HASH(d["rep"])
    elif kind == "None":
        want = z3.IntVal(7)
    else:
        want = z3.Int("hash(object)")
    ctx.oblige("post", f"the-key-of-an-item:its-own-hash;for-a-dict/list-the-hash-of-its-compact-dump(equal content, equal key);the-hash-of-its-repr-when-neither-is-possible[{kind}]", is_z3(result) or isinstance(result, int) and lift(result) == want if not is_z3(result) else result == want)
    ctx.oblige("frame", f"the-item-is-not-modified[{kind}]", d["copy"] is None or (list(d["item"]) == list(d["copy"])) and not ctx.mutlog)


def hi_raises(ctx, st, exc):
    ctx.oblige("raises", f"never-raises:an-item-that-cannot-be-hashed-or-dumped-still-gets-a-key(got {exc.cls}@{exc.origin})[{st.data['kind']}]", False)


def hash_item_unit(prop):
    return Unit(prop, UTIL + "hash_item", hi_setup, hi_post, hi_raises, trusted=["hash() raises TypeError for dict / list / objects without __hash__; repr() never fails for the objects jsonargparse stores", "json_compact_dump raises for content that is not JSON serializable"])


GAC = ["parser-class-keeps-add_argument", "overrides-add_argument", "overrides;source-not-available", "overrides;source-does-not-compile", "overrides;source-fails-when-executed"]


def gac_setup(ctx):
    kind = GAC[ctx.choose(len(GAC), "parser-class")]
    base_add = Rec("function ActionsContainer.add_argument")
    globs = {"helper": Rec("a global of the parser's module")}
    own_add = Rec("function MyParser.add_argument", attrs={"__globals__": globs})
    AC = Rec("class ActionsContainer", attrs={"add_argument": base_add})
    AG = Rec("class ArgumentGroup", attrs={"__name__": "ArgumentGroup"})
    pclass = Rec("class MyParser", attrs={"add_argument": base_add if kind == "parser-class-keeps-add_argument" else own_add, "__module__": "app.cli", "__name__": "MyParser"})
    debug_log = []
    logger = Rec("Logger", methods={"debug": lambda c, s_, a, k: debug_log.append((tuple(a), dict(k)))})
    parser = Rec("MyParser", attrs={"__class__": pclass, "logger": logger, "_actions": []})
    source = z3.String("source-of-add_argument")
    built = Rec("class _ArgumentGroupAutoSubclass", attrs={"__name__": "_ArgumentGroupAutoSubclass", "__module__": "<ast>"})
    log = []

    def getsource(c, a, k):
        log.append(("getsource", a[0]))
        if kind == "overrides;source-not-available":
            raise PyRaise(ExcVal("OSError", ("could not get source code",), origin="inspect.getsource"))
        return source

    def parse(c, a, k):
        log.append(("parse", a[0]))
        if kind == "overrides;source-does-not-compile":
            raise PyRaise(ExcVal("IndentationError", ("unexpected indent",), origin="ast.parse"))
        return Rec("ast.Module", attrs={"of": a[0]})

    def exec_(c, a, k):
        log.append(("exec", a[0], a[1]))
        if kind == "overrides;source-fails-when-executed":
            raise PyRaise(ExcVal("NameError", ("name used in a decorator is not defined",), origin="exec"))
        a[1]["_ArgumentGroupAutoSubclass"] = built

    ctx.classes.add("IndentationError", ["SyntaxError"])
    calls = {"inspect.getsource": getsource, "ast.parse": parse, "compile": lambda c, a, k: Rec("code", attrs={"of": a[0]}), "exec": exec_}
    consts = {"ActionsContainer": AC, "ArgumentGroup": AG}
    return Setup(env={"parser": parser}, calls=calls, consts=consts, drop_calls=(),
                 data=dict(kind=kind, parser=parser, pclass=pclass, AG=AG, AC=AC, built=built, globs=globs, globs0=dict(globs), source=source, log=log, debug_log=debug_log, snap_parser=_snap(parser), snap_pclass=_snap(pclass), snap_AG=_snap(AG), snap_AC=_snap(AC)))


def gac_post(ctx, st, result):
    d = st.data
    kind = d["kind"]
    tag = f"[{kind}]"
    if kind == "overrides-add_argument":
        ctx.oblige("post", "a-parser-class-with-its-own-add_argument=>a-group-class-built-from-that-method's-source-on-top-of-ArgumentGroup,attributed-to-the-parser-class's-module" + tag,
                   result is d["built"] and d["built"].attrs.get("__module__") == "app.cli")
        ex = [e for e in d["log"] if e[0] == "exec"]
        ps = [e for e in d["log"] if e[0] == "parse"]
        ok = len(ps) == 1 and len(ex) == 1 and isinstance(ex[0][2], dict) and ex[0][2].get("ArgumentGroup") is d["AG"] and all(ex[0][2].get(k) is v for k, v in d["globs0"].items())
        ctx.oblige("post", "the-source-is-the-method's-own(prefixed by the class line),executed-once-in-a-copy-of-the-method's-globals-where-ArgumentGroup-is-jsonargparse's" + tag, ok)
        if ok:
            ctx.oblige("post", "the-class-line-precedes-the-method's-source,unchanged(ALL sources)" + tag, lift(ps[0][1]) == z3.Concat(S_("class _ArgumentGroupAutoSubclass(ArgumentGroup):\n"), d["source"]), strings=True)
        ctx.oblige("frame", "the-method's-module-gains-only-the-new-class-under-its-name(so that it can be imported / pickled)" + tag,
                   set(d["globs"]) == set(d["globs0"]) | {"_ArgumentGroupAutoSubclass"} and d["globs"].get("_ArgumentGroupAutoSubclass") is d["built"] and all(d["globs"][k] is v for k, v in d["globs0"].items()))
    else:
        ctx.oblige("post", "otherwise(add_argument not overridden, or the class cannot be built)=>jsonargparse's-ArgumentGroup" + tag, result is d["AG"])
        ctx.oblige("frame", "then-the-method's-module-is-untouched" + tag, set(d["globs"]) == set(d["globs0"]))
        if kind != "parser-class-keeps-add_argument":
            ctx.oblige("post", "a-failure-to-build-the-class-is-logged-at-debug-level-on-the-parser's-logger,once" + tag, len(d["debug_log"]) == 1)
    ctx.oblige("frame", "the-parser,its-class,ArgumentGroup-and-ActionsContainer-are-only-read" + tag,
               not _changed(d["parser"], d["snap_parser"]) and not _changed(d["pclass"], d["snap_pclass"]) and not _changed(d["AG"], d["snap_AG"]) and not _changed(d["AC"], d["snap_AC"]))


def gac_raises(ctx, st, exc):
    ctx.oblige("raises", f"C09:building-a-parser-never-fails-on-the-group-class:any-failure-falls-back-to-ArgumentGroup(got {exc.cls}@{exc.origin})[{st.data['kind']}]", False)


def argument_group_class_unit(prop):
    return Unit(prop, UTIL + "get_argument_group_class", gac_setup, gac_post, gac_raises,
                trusted=["inspect.getsource raises OSError / TypeError when there is no source; ast.parse / compile / exec raise on bad source", "exec(code, namespace) binds the class defined by the source in the namespace given"])


# ================================================================================================ DefaultHelpFormatter._format_usage
FU_USAGE = {"one-line": "usage: app [-h] [--lr LR] [--model.depth DEPTH] [--opt OPT] pos\n\n", "two-lines": "usage: app [-h] [--lr LR]\n           [--model.depth DEPTH] [--opt OPT] pos\n\n",
            "two-lines(no indent)": "usage: app [-h] [--lr LR] [--model.depth DEPTH] [--opt OPT]\npos\n\n"}
FU_DEFAULTS = ["None", "a-value", "NSKeyError"]
FU_CTX = ["no-parser-in-context", "feature-off", "feature-on"]
FU_NOTE = "note: extra positionals are parsed as optionals in the order shown above."


def fu_setup(ctx):
    where = FU_CTX[ctx.choose(len(FU_CTX), "context")]
    uk = sorted(FU_USAGE)[ctx.choose(len(FU_USAGE), "argparse-usage")]
    n = ctx.choose(3, "optionals-usable-as-positionals") if where == "feature-on" else 0
    usage = FU_USAGE[uk]
    dests = [z3.String("dest1"), z3.String("dest2")][:n]
    lr_default = FU_DEFAULTS[ctx.choose(3, "default-of-the-required-lr")] if where == "feature-off" else "None"
    defaults = {"lr": lr_default, "model.depth": "None", "opt": "a-value", "pos": "None"}
    actions = [Rec("ActionTypeHint", attrs={"dest": dname, "option_strings": ["--x"], "nargs": None}) for dname in dests]
    log = []
    def get_default(c, s_, a, k):
        log.append(("get_default", a[0]))
        what = defaults.get(a[0], "NSKeyError")
        if what == "NSKeyError":
            raise PyRaise(ExcVal("NSKeyError", (a[0],), origin="get_default"))
        return None if what == "None" else 5

    ctx.classes.add("NSKeyError", ["KeyError"])
    parser = Rec("ArgumentParser", attrs={"_actions": list(actions), "_subcommands_action": None, "prog": "app", "required_args": {"lr", "model.depth", "pos"}}, methods={"get_default": get_default}) if where != "no-parser-in-context" else None
    width = z3.Int("width")
    self = Rec("DefaultHelpFormatter", attrs={"_width": width, "_current_indent": 0, "_prog": "app"})
    import re as _re

    def base_usage(c, s_, a, k):
        log.append(("argparse-usage", tuple(a), dict(k)))
        return usage

    calls = {"super": lambda c, a, k: Rec("super()", methods={"_format_usage": base_usage}), "parent_parser.get": lambda c, a, k: parser,
             "supports_optionals_as_positionals": lambda c, a, k: (log.append(("supports", a[0])), where == "feature-on")[1],
             "get_optionals_as_positionals_actions": lambda c, a, k: (log.append(("actions-of", a[0], dict(k))), list(actions))[1], "re.sub": lambda c, a, k: _re.sub(*a, **k)}
    args = (z3.String("usage-arg"), Rec("actions"), Rec("groups"))
    kwargs = {"prefix": None}
    return Setup(env={"self": self, "args": args, "kwargs": kwargs}, calls=calls,
                 data=dict(where=where, uk=uk, n=n, usage=usage, defaults=defaults, lr_default=lr_default, dests=dests, actions=actions, parser=parser, width=width, self_=self, log=log, args=args, kwargs=kwargs, snap_self=_snap(self),
                           snap_parser=_snap(parser) if parser else None, snap_actions=[_snap(a) for a in actions]), watch={"width": width})


def fu_post(ctx, st, result):
    d = st.data
    tag = f"[{d['where']},{d['uk']},{d['n']} actions" + (f",lr-default={d['lr_default']}]" if d["where"] == "feature-off" else "]")
    base = [e for e in d["log"] if e[0] == "argparse-usage"]
    ctx.oblige("post", "argparse-renders-the-usage-once,with-exactly-the-arguments-given" + tag,
               len(base) == 1 and len(base[0][1]) == 3 and all(x is y for x, y in zip(base[0][1], d["args"])) and set(base[0][2]) == {"prefix"} and base[0][2]["prefix"] is None)
    if d["where"] == "feature-off":
        want = d["usage"]
        for key in ("lr", "model.depth", "pos"):  # the parser's required arguments
            i = want.find(f"[--{key} ")
            if d["defaults"][key] != "a-value" and i >= 0:
                j = want.find("]", i)
                want = want[:i] + want[i + 1:j] + want[j + 1:]
        ctx.oblige("post", "a-required-option-without-a-default-is-shown-without-the-optional-brackets;every-other-option(with a default,not required)-keeps-them;the-rest-of-the-usage-is-unchanged" + tag, result == want, note=repr(result))
    elif d["n"] == 0:
        ctx.oblige("post", "no-parser-in-context/no-such-option=>argparse's-usage,unchanged" + tag, result == d["usage"])
    else:
        extra = z3.Concat(S_("["), d["dests"][0], S_("]")) if d["n"] == 1 else z3.Concat(S_("["), d["dests"][0], S_(" ["), d["dests"][1], S_("]]"))
        lines = d["usage"].rstrip().split("\n")
        tail = S_(f"\n\n{FU_NOTE}\n\n")
        head = "\n".join(lines[:-1]) + ("\n" if len(lines) > 1 else "")
        same_line = z3.Concat(S_(head + lines[-1] + " "), extra, tail)
        indent = lines[-1][:len(lines[-1]) - len(lines[-1].lstrip(" "))] if lines[-1].startswith(" ") else lines[-1]
        next_line = z3.Concat(S_(head + lines[-1] + "\n" + indent), extra, tail)
        fits = z3.Length(z3.Concat(S_(lines[-1] + " "), extra)) <= d["width"]
        want = same_line if len(lines) == 1 else z3.If(fits, same_line, next_line)
        ctx.oblige("post", "the-options-usable-as-positionals-are-appended-in-declaration-order-as-nested-optionals[a [b]](ALL names),on-the-last-usage-line-when-it-fits-the-width(ALL widths)-else-on-a-line-of-their-own-with-that-line's-indent,followed-by-the-note" + tag,
                   _is_text(result) and lift(result) == want, strings=True)
        asked = [e for e in d["log"] if e[0] == "actions-of"]
        ctx.oblige("post", "the-options-are-those-of-the-parser-in-context(positionals not repeated)" + tag, len(asked) == 1 and asked[0][1] is d["parser"] and not asked[0][2].get("include_positionals", False))
    ctx.oblige("frame", "C09:help-leaves-no-trace:the-formatter,the-parser-and-its-actions-are-only-read" + tag,
               not _changed(d["self_"], d["snap_self"]) and (d["parser"] is None or not _changed(d["parser"], d["snap_parser"])) and all(not _changed(a, sn) for a, sn in zip(d["actions"], d["snap_actions"])))


def format_usage_unit(prop):
    return Unit(prop, FMT + "DefaultHelpFormatter._format_usage", fu_setup, fu_post, _no_exc, max_paths=2000,
                trusted=["argparse.HelpFormatter._format_usage (super()) renders the usage text (three concrete layouts: one line, wrapped with indent, wrapped without indent)",
                         "supports_optionals_as_positionals / get_optionals_as_positionals_actions by contract (the parsing setting; the parser's plain options in declaration order)", "re.sub evaluated by CPython on the concrete usage text", "parser.get_default(key): the default, None, or NSKeyError (its own unit, defaults_units)"])


def units(prop):
    return [class_from_function_unit(prop), class_from_function_new_unit(prop), capture_parser_unit(prop), return_parser_if_captured_unit(prop), capture_exception_unit(prop), logger_property_unit(prop), parse_logger_unit(prop), setup_default_logger_unit(prop), logger_property_init_unit(prop), warning_unit(prop), typehint_metavar_unit(prop), extra_help_unit(prop), completer_unit(prop), register_unresolvable_unit(prop), hash_item_unit(prop), argument_group_class_unit(prop), format_usage_unit(prop)]


CARRIES = {
    "C14": ["class_from_function", "class_from_function.<locals>.__new__", "register_unresolvable_import_paths"],
    "C12": ["capture_parser", "return_parser_if_captured", "CaptureParserException.__init__", "typehint_metavar", "hash_item"],
    "C09": ["capture_parser", "LoggerProperty.logger[setter+getter]", "parse_logger", "setup_default_logger", "LoggerProperty.__init__", "get_argument_group_class", "DefaultHelpFormatter._format_usage",
            "ActionTypeHint.extra_help", "ActionTypeHint.completer"],
    "C03": [":warning"],
}
