"""C11 - Namespace behaves as a nested mapping addressed by dotted keys.

  add_clash_mark / del_clash_mark    for all strings: del(add(k)) == k; add(k) is never a method name; add is injective
  every Namespace operation          contracts/ns_units.py: the real body of each method against the nested-dictionary view
                                     (data structure against an abstract view; other methods used by contract), complete case
                                     analysis over 9 stored trees x 16 keys x value kinds with symbolic leaf values
  recreate_branches                  (clone, dict_to_namespace) unit shared with C08
Histories (sequences of operations), sharing, equality and dict round trips are checked by the bounded model-based harness.
"""
import z3

from pyvc.engine import ExcVal, PyRaise, Rec, lift
from pyvc.units import Setup, Unit

S, B = z3.StringSort(), z3.BoolSort()
Clash = z3.Function("in.clash_names", S, B)  # membership in set(dir(Namespace))
MARK = "​"


def clash_axioms(ctx, *terms):
    """Assumed fact about clash_names (identifiers): no element starts with the zero-width mark; instantiated per term."""
    for t in terms:
        ctx.assume(z3.Implies(Clash(t), z3.Not(z3.PrefixOf(z3.StringVal(MARK), t))))


class ClashSet:
    pass


def acm_setup(ctx):
    key = z3.String("key")
    clash_names = Rec("set", methods={"__contains__": lambda c, s_, a, k: Clash(lift(a[0]))})
    clash_axioms(ctx, key, z3.Concat(z3.StringVal(MARK), key))
    return Setup(env={"key": key}, consts={"clash_names": clash_names, "clash_mark": MARK}, data={"key": key}, watch={"key": key})


def acm_post(ctx, st, result):
    key = st.data["key"]
    r = lift(result)
    ctx.oblige("post", "result==mark+key-iff-key-is-a-method-name", r == z3.If(Clash(key), z3.Concat(z3.StringVal(MARK), key), key))
    ctx.oblige("lemma", "marked-name-is-never-a-method-name", z3.Not(Clash(r)))
    # inverse: del_clash_mark(add_clash_mark(k)) == k for keys that do not themselves start with the mark
    undone = z3.If(z3.PrefixOf(z3.StringVal(MARK), r), z3.SubString(r, 1, z3.Length(r) - 1), r)
    ctx.oblige("lemma", "del(add(k))==k", z3.Implies(z3.And(z3.Length(key) > 0, z3.Not(z3.PrefixOf(z3.StringVal(MARK), key))), undone == key))
    # injectivity over user keys (which never start with the mark): two different keys never share a stored name
    k2 = z3.String("other_key")
    add = lambda k: z3.If(Clash(k), z3.Concat(z3.StringVal(MARK), k), k)  # noqa: E731  (the postcondition above, as a spec function)
    clash_axioms(ctx, k2)
    nomark = lambda k: z3.Not(z3.PrefixOf(z3.StringVal(MARK), k))  # noqa: E731
    ctx.oblige("lemma", "add-is-injective-on-user-keys", z3.Implies(z3.And(nomark(key), nomark(k2), add(key) == add(k2)), key == k2))


def no_exc(ctx, st, exc):
    ctx.oblige("raises", f"never-raises(got {exc.cls}@{exc.origin})", False)


def dcm_setup(ctx):
    key = z3.String("key")
    ctx.assume(z3.Length(key) > 0)  # stored names are non-empty (_parse_key refuses empty segments)
    return Setup(env={"key": key}, consts={"clash_mark": MARK}, data={"key": key}, watch={"key": key})


def dcm_post(ctx, st, result):
    key = st.data["key"]
    ctx.oblige("post", "strips-exactly-one-leading-mark", lift(result) == z3.If(z3.PrefixOf(z3.StringVal(MARK), key), z3.SubString(key, 1, z3.Length(key) - 1), key))


UNITS = [
    Unit("C11", "jsonargparse._namespace:add_clash_mark", acm_setup, acm_post, no_exc, replayer="replayers.c11:replay_clash",
         trusted=["clash_names = set(dir(Namespace)) contains no string starting with the zero-width mark (identifiers only)"]),
    Unit("C11", "jsonargparse._namespace:del_clash_mark", dcm_setup, dcm_post, no_exc, replayer="replayers.c11:replay_clash",
         trusted=["precondition: the stored name is non-empty"]),
]
VERIFIED_CALLEES = ()
LEVEL = "other"
TECHNIQUE = "contract-based deductive verification: clash-mark string helpers for all strings (z3/cvc5 strings); every Namespace method (real AST) against a nested-dictionary abstract view, other methods by contract, complete case analysis over stored trees x keys with symbolic leaves + bounded model-based run-time checking of operation histories against a nested-dict reference"
LEVEL_TEXT = "Proved for all strings: del_clash_mark(add_clash_mark(k)) == k, a marked name is never a method name, marking is injective on user keys. Verified per method on the real body, against the nested-dictionary view and with the other methods used by contract: _parse_key, _parse_required_key, _create_nested_namespace, __getitem__, __setitem__, __setattr__, __delitem__, __contains__, get, pop, update, items, keys, values, as_dict, get_sorted_keys, __init__, recreate_branches (clone) - each for 9 stored trees (depth <= 3, method-name clashes, None leaf, empty branch, dict leaf) x 16 keys (present, absent, through a leaf, malformed) with symbolic leaf values; postconditions are over the whole view, so damage to other keys is seen. Not proved: arbitrary tree sizes (the case analysis is over listed shapes), histories, sharing, equality, dotted keys through plain dict values (known finding): bounded model-based checking of every operation against a nested-dict reference (all histories of length <= 4 over 75 operations)."
LEVEL_NOTE = "under construction"
EXPLANATION = "under construction"
ASSUMPTIONS = []
TRUSTED = []
BOUNDED = [{"name": "namespace-vs-nested-dict-model", "script": "bounded/b11_namespace.py"}]


from contracts.ns_units import units as _ns_units  # noqa: E402
UNITS += _ns_units("C11")
from contracts.c08 import UNITS as _C08_UNITS  # noqa: E402
import dataclasses as _dc  # noqa: E402
UNITS += [_dc.replace(u, prop="C11") for u in _C08_UNITS if u.target.endswith(":recreate_branches")]

from contracts.share import carried as _carried  # noqa: E402
UNITS += _carried("C11")
