"""The key -> action resolvers that ActionLink.__init__ relies on (jsonargparse/_link_arguments.py), and link_arguments itself.

find_parent_or_child_actions(parser, key): the action whose dest is the key or a dotted prefix of it (by _find_parent_action, with
  the same exclusions); when there is none, exactly the user-declared, non-excluded actions that lie strictly below the key
  (dest starts with key + '.': `ab` is not below `a`), in declaration order; None instead of an empty list.
find_subclass_action_or_class_group(parser, key): the subclass-typed action found for the key, else the first class group whose
  dest is the key or the key without its last component; groups that are not class groups are never returned.
link_arguments hands its arguments to ActionLink in the documented roles (source, target, compute_fn, apply_on).
get_nested_links: the instantiation links whose target is *this* action and that are nested, with keys made relative to the action.
"""
import z3

from pyvc.engine import ClassRef, Rec
from pyvc.units import Setup, Unit

DESTS = ["a", "a.x", "a.y.z", "ab", "ab.x", "b", "help", "a.cfg"]


def fpc_setup(ctx):
    key = ["a", "a.y", "ab", "c", "a.x"][ctx.choose(5, "key")]
    parent = ctx.choose(2, "_find_parent_action-finds-one") == 1
    exclude = [None, "one-class", "tuple"][ctx.choose(3, "exclude")]
    present = [d for d in DESTS if d in ("help", "b") or ctx.choose(2, f"declared:{d}") == 1]
    for n in ("_ActionConfigLoad", "_HelpAction", "Other"):
        ctx.classes.add(n, ["Action"])
    acts = []
    for dname in present:
        cls = "_HelpAction" if dname == "help" else "_ActionConfigLoad" if dname.endswith("cfg") else "Action"
        acts.append(Rec(cls, attrs={"dest": dname}))
    found = Rec("Action", attrs={"dest": "<found by _find_parent_action>"})
    excl = None if exclude is None else ClassRef("_ActionConfigLoad") if exclude == "one-class" else (ClassRef("_ActionConfigLoad"), ClassRef("Other"))
    parser = Rec("ArgumentParser", attrs={"_actions": acts})
    calls = {"_find_parent_action": lambda c, a, k: (c.event("fpa", a[0], a[1], k.get("exclude")), found if parent else None)[1],
             "filter_default_actions": lambda c, a, k: [x for x in a[0] if x.cls != "_HelpAction"]}
    return Setup(env={"parser": parser, "key": key, "exclude": excl}, calls=calls,
                 data=dict(key=key, parent=parent, exclude=exclude, excl=excl, acts=acts, found=found, parser=parser))


def fpc_post(ctx, st, result):
    d = st.data
    tag = f"[key={d['key']},exclude={d['exclude']}]"
    ev = [e for e in ctx.events if e[0] == "fpa"]
    ctx.oblige("post", "the-key-itself-or-a-dotted-prefix-is-looked-up-first,with-the-same-exclusions" + tag, len(ev) == 1 and ev[0][1] is d["parser"] and ev[0][2] == d["key"] and ev[0][3] is d["excl"])
    if d["parent"]:
        ctx.oblige("post", "an-action-at-or-above-the-key=>exactly-that-action" + tag, isinstance(result, list) and len(result) == 1 and result[0] is d["found"])
        return
    want = [a for a in d["acts"] if a.cls != "_HelpAction" and not (d["exclude"] and a.cls == "_ActionConfigLoad") and a.attrs["dest"].startswith(d["key"] + ".")]
    if want:
        ctx.oblige("post", "otherwise:exactly-the-declared,non-excluded-actions-strictly-below-the-key(component boundary),in-declaration-order" + tag,
                   isinstance(result, list) and len(result) == len(want) and all(x is y for x, y in zip(result, want)), note=f"{[a.attrs['dest'] for a in want]}")
    else:
        ctx.oblige("post", "nothing-at,above-or-below-the-key=>None(never an empty list)" + tag, result is None)


def find_parent_or_child_actions_unit(prop):
    return Unit(prop, "jsonargparse._link_arguments:find_parent_or_child_actions", fpc_setup, fpc_post, None, expect_cover=("return",), max_paths=20000,
                trusted=["_find_parent_action by contract (C06 unit of _find_parent_action_and_subcommand)", "filter_default_actions drops the help action only"])


# ------------------------------------------------------------------------------------- find_subclass_action_or_class_group
def fsg_setup(ctx):
    key = ["a.b", "a"][ctx.choose(2, "key")]
    action_kind = ["subclass-typed", "other-action", "none"][ctx.choose(3, "action-found")]
    groups = []
    layout = []
    for i, gd in enumerate(["a", "a.b", "a.b.c", None]):
        kind = ["absent", "class-group", "plain-group"][ctx.choose(3, f"group:{gd}")]
        layout.append((gd, kind))
        if kind == "absent":
            continue
        g = Rec("ArgumentGroup", attrs={} if gd is None else {"dest": gd})
        if kind == "class-group":
            g.attrs["instantiate_class"] = "<method>"
        groups.append(g)
    action = None if action_kind == "none" else Rec("ActionTypeHint" if action_kind == "subclass-typed" else "Action", attrs={"dest": "a"})
    parser = Rec("ArgumentParser", attrs={"_action_groups": groups})
    calls = {"_find_parent_action": lambda c, a, k: (c.event("fpa", a[1], k.get("exclude")), action)[1],
             "ActionTypeHint.is_subclass_typehint": lambda c, a, k: a[0] is not None and a[0].cls == "ActionTypeHint"}
    excl = [None, ClassRef("X")][ctx.choose(2, "exclude")]
    return Setup(env={"parser": parser, "key": key, "exclude": excl}, calls=calls, inline={"split_key_leaf": "jsonargparse._namespace:split_key_leaf"},
                 data=dict(key=key, action_kind=action_kind, action=action, groups=groups, layout=layout, excl=excl))


def fsg_post(ctx, st, result):
    d = st.data
    tag = f"[key={d['key']},action={d['action_kind']}]"
    ev = [e for e in ctx.events if e[0] == "fpa"]
    ctx.oblige("post", "the-action-lookup-uses-the-key-and-the-exclusions-given" + tag, len(ev) == 1 and ev[0][1] == d["key"] and ev[0][2] is d["excl"])
    if d["action_kind"] == "subclass-typed":
        ctx.oblige("post", "a-subclass-typed-action-for-the-key-wins" + tag, result is d["action"])
        return
    wanted = {d["key"], d["key"].rsplit(".", 1)[0]}
    cands = [g for g in d["groups"] if g.attrs.get("dest") in wanted and "instantiate_class" in g.attrs]
    if cands:
        ctx.oblige("post", "else:the-first-class-group-declared-at-the-key-or-at-its-parent" + tag, result is cands[0])
    else:
        ctx.oblige("post", "no-subclass-action-and-no-class-group-there=>None(plain groups, deeper or unrelated groups are never returned)" + tag, result is None, note=str(d["layout"]))


def find_subclass_action_or_class_group_unit(prop):
    return Unit(prop, "jsonargparse._link_arguments:find_subclass_action_or_class_group", fsg_setup, fsg_post, None, expect_cover=("return",), max_paths=20000,
                trusted=["_find_parent_action by contract (C06)", "ActionTypeHint.is_subclass_typehint(action) tells a subclass-typed action"])


# ------------------------------------------------------------------------------------- link_arguments
def la_setup(ctx):
    made = []
    self = Rec("ArgumentParser")
    src, tgt, fn, on = z3.String("source"), z3.String("target"), Rec("compute_fn"), z3.String("apply_on")
    calls = {"ActionLink": lambda c, a, k: made.append((list(a), dict(k)))}
    return Setup(env={"self": self, "source": src, "target": tgt, "compute_fn": fn, "apply_on": on}, calls=calls, data=dict(made=made, want=[self, src, tgt, fn, on]))


def la_post(ctx, st, result):
    d = st.data
    names = ["parser", "source", "target", "compute_fn", "apply_on"]
    ok = len(d["made"]) == 1
    if ok:
        a, k = d["made"][0]
        got = list(a) + [k[n] for n in names[len(a):] if n in k]
        ok = len(got) == 5 and all(x is y for x, y in zip(got, d["want"]))
    ctx.oblige("post", "one-link-is-declared-on-this-parser-with(source,target,compute_fn,apply_on)-in-their-roles", ok)


def link_arguments_unit(prop):
    return Unit(prop, "jsonargparse._link_arguments:ArgumentLinking.link_arguments", la_setup, la_post, None, expect_cover=("return",),
                trusted=["ActionLink.__init__: its own units"])


# ------------------------------------------------------------------------------------- get_nested_links
def gnl_setup(ctx):
    action = Rec("ActionTypeHint", attrs={"dest": "model"})
    other = Rec("ActionTypeHint", attrs={"dest": "data"})
    links = []
    layout = []
    for i in range(3):
        kind = ["absent", "nested-into-this-action", "not-nested-into-this-action", "nested-into-another-action"][ctx.choose(4, f"link{i}")]
        layout.append(kind)
        if kind == "absent":
            continue
        tgt_action = other if kind == "nested-into-another-action" else action
        base = tgt_action.attrs["dest"]
        kw = {"source": (f"{base}.init_args.s{i}", f"{base}.t{i}"), "target": f"{base}.init_args.sub.init_args.p{i}", "compute_fn": None, "apply_on": "instantiate"}
        ln = Rec("ActionLink", attrs={"target": (kw["target"], tgt_action), "nested": kind != "not-nested-into-this-action", "kw": kw, "i": i})
        ln.methods["get_kwargs"] = lambda c, s_, a, k: s_.attrs["kw"]
        links.append(ln)
    parser = Rec("ArgumentParser")
    calls = {"get_link_actions": lambda c, a, k: (c.event("gla", a[0], a[1]), list(links))[1], "is_nested_instantiation_link": lambda c, a, k: a[0].attrs["nested"]}
    return Setup(env={"parser": parser, "action": action}, calls=calls, data=dict(links=links, layout=layout, action=action, parser=parser))


def gnl_post(ctx, st, result):
    d = st.data
    ev = [e for e in ctx.events if e[0] == "gla"]
    ctx.oblige("post", "the-instantiation-links-of-this-parser-are-consulted", len(ev) == 1 and ev[0][1] is d["parser"] and ev[0][2] == "instantiate")
    want = []
    for ln in d["links"]:
        if ln.attrs["target"][1] is d["action"] and ln.attrs["nested"]:
            i = ln.attrs["i"]
            want.append({"source": (f"init_args.s{i}", f"t{i}"), "target": f"sub.init_args.p{i}", "compute_fn": None, "apply_on": "instantiate"})
    ctx.oblige("post", "exactly-the-nested-links-that-target-this-action,in-order,with-source-keys-relative-to-the-action-and-the-target-relative-to-its-init_args", result == want, note=f"{d['layout']}: {result}")
    ctx.oblige("frame", "the-links'-own-settings-are-not-rewritten", all(ln.attrs["kw"]["target"].startswith(ln.attrs["target"][1].attrs["dest"] + ".") and ln.attrs["kw"]["source"][0].startswith(ln.attrs["target"][1].attrs["dest"] + ".") for ln in d["links"]))


def get_nested_links_unit(prop):
    return Unit(prop, "jsonargparse._link_arguments:ActionLink.get_nested_links", gnl_setup, gnl_post, None, expect_cover=("return",),
                trusted=["get_link_actions: its own unit (C15)", "is_nested_instantiation_link tells links declared inside a subclass parser", "link.get_kwargs() returns the link's declaration"])


UNITS = [find_parent_or_child_actions_unit("C15"), find_subclass_action_or_class_group_unit("C15"), link_arguments_unit("C15"), get_nested_links_unit("C15")]
