"""Sidecar contracts, one module per property (cNN.py).  Common texts used by MANIFEST.json / evidence files."""

COMMON_ASSUMPTIONS = [
    "A1 the pyvc encoder implements the stated Python semantics for the supported subset (DESIGN 2.3); mitigated by replaying counter-models on the real code and by breaking the code on scratch copies (DESIGN 2.7), not eliminated",
    "A2 strings: Unicode-aware predicates (isdigit, \\d ...) are modelled for ASCII",
    "A3 file system, os.environ and cwd do not change concurrently during a call",
    "A5 partial correctness: termination is not proved",
    "A6 single-threaded; context variables are per-context",
    "A7 logging and warnings.warn neither raise nor change program state (dropped by the extraction)",
    "A8 external libraries (argparse, PyYAML, json, jsonnet, OmegaConf, re, stdlib) behave as their assumed contracts, each named in coverage.trusted_base",
    "A9 z3 5.1.0 / cvc5 1.0.3 are sound; an obligation counts as discharged only on `unsat` (or when its goal is literally `true` on the path)",
    "callee contracts used at call sites are listed in coverage.trusted_base; a contract marked `unit of Cxx` is itself discharged there, every other one is assumed",
]

COMMON_NOTE = ("Trusted base: the home-built VC generator pyvc (AST -> SMT-LIB), z3/cvc5, and every assumed callee/external contract listed in the evidence under "
               "coverage.trusted_base. obligations/discharged count the deductive tier only. The bounded stand-in (run-time contract checking of the real entry points over an "
               "enumerated space) is reported under coverage.bounded, is labelled bounded and is never counted as proved. Known findings (genuine defects of /repo that are "
               "recorded, not repaired) are listed in known_findings.json and printed as KNOWN-FINDING lines.")

COMMON_EXPLANATION = ("Level `other` = kernel clauses of the statement are discharged as postconditions / invariants / lemmas over the real source for all inputs of the "
                      "stated scenario space (coverage.obligations == coverage.discharged on a clean run), while the end-to-end clause on the public entry points is checked "
                      "by run-time contracts within a stated bound (coverage.bounded.*.bound). The two are reported apart; nothing bounded is counted as proved.")


def text_of(spec, name):
    v = getattr(spec, name, "")
    if not v or v == "under construction":
        return {"LEVEL_NOTE": COMMON_NOTE, "EXPLANATION": COMMON_EXPLANATION}.get(name, v)
    return v
