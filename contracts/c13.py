"""C13 - parameters resolved through **kwargs are exactly those the code accepts.

The resolver proper is a static analysis of the *user's* source (ParametersVisitor, MRO walk, stubs): its soundness is a
statement about Python's call semantics for arbitrary programs - no contract within reach expresses it; it is compared
with the interpreter by the bounded harness.  Under contract are the list-algebra helpers that implement three clauses
of the statement (hard-coded arguments are not offered; *args/**kwargs are replaced without duplicates; every offered
parameter is the very object of the signature it comes from):
  remove_given_parameters, replace_args_and_kwargs, split_args_and_kwargs (+ get_arg_kind_index, ast_get_call_* inlined)
Shapes: parameter lists of length 0..4, every placement of *args/**kwargs, every subset of given positions/keywords.
"""
import itertools

import z3

from pyvc.engine import ClassRef, Rec
from pyvc.units import Setup, Unit

MOD = "jsonargparse._parameter_resolvers"
KINDS = Rec("kinds", attrs={k: k for k in ("POSITIONAL_ONLY", "POSITIONAL_OR_KEYWORD", "VAR_POSITIONAL", "KEYWORD_ONLY", "VAR_KEYWORD")})


def P(name, kind="POSITIONAL_OR_KEYWORD"):
    return Rec("ParamData", attrs={"name": name, "kind": kind})


# ------------------------------------------------------------------------------------- remove_given_parameters
def rg_setup(ctx):
    n = ctx.choose(4, "n-params") + 1
    params = [P(f"p{i}") for i in range(n)]
    # the call node: some positional arguments (the k-th may be *starred), some keywords (one may be **kw)
    n_pos = ctx.choose(3, "n-positional")
    starred_at = ctx.choose(n_pos + 1, "starred-position") - 1
    args = [Rec("Starred" if i == starred_at else "Name") for i in range(n_pos)]
    kw_mask = ctx.choose(2 ** n, "keyword-names")
    kws = [Rec("keyword", attrs={"arg": f"p{i}"}) for i in range(n) if kw_mask >> i & 1]
    if ctx.choose(2, "double-star") == 1:
        # `f(a=1, **kw)` and `f(**kw, a=1)` are the same call: the unpacking may stand anywhere among the keywords
        kws.insert(ctx.choose(len(kws) + 1, "double-star-position"), Rec("keyword", attrs={"arg": None}))
    node = Rec("Call", attrs={"args": args, "keywords": kws})
    removed = set() if ctx.choose(2, "removed_params-given") == 1 else None
    removed_rec = None
    if removed is not None:
        removed_rec = Rec("set", methods={"update": lambda c, s_, a, k: removed.update(a[0] if not isinstance(a[0], Rec) else [])})
    env = {"node": node, "params": list(params), "removed_params": removed_rec}
    consts = {"ast.Starred": ClassRef("Starred")}
    inline = {"ast_get_call_positional_indexes": MOD + ":ast_get_call_positional_indexes", "ast_get_call_keyword_names": MOD + ":ast_get_call_keyword_names"}
    given_pos = {i for i in range(n_pos) if i != starred_at}
    given_kw = {f"p{i}" for i in range(n) if kw_mask >> i & 1}
    return Setup(env=env, consts=consts, inline=inline, data=dict(params=params, given_pos=given_pos, given_kw=given_kw, removed=removed))


def rg_post(ctx, st, result):
    d = st.data
    expected = [p for i, p in enumerate(d["params"]) if i not in d["given_pos"] and p.attrs["name"] not in d["given_kw"]]
    ctx.oblige("post", "hard-coded-positions-and-keywords-are-not-offered;the-rest-is-kept-in-order", isinstance(result, list) and len(result) == len(expected) and all(a is b for a, b in zip(result, expected)))
    ctx.oblige("frame", "input-list-not-modified", all(a is b for a, b in zip(st.env["params"], d["params"])) and len(st.env["params"]) == len(d["params"]))


def no_exc(ctx, st, exc):
    ctx.oblige("raises", f"never-raises(got {exc.cls}@{exc.origin})", False)


# ------------------------------------------------------------------------------------- replace_args_and_kwargs
def ra_setup(ctx):
    shapes = []
    for n in range(0, 4):
        for a_idx in [-1] + list(range(n + 1)):
            for k_idx in (-1, n + 1):  # a signature's **kwargs is always its last parameter (precondition of the helper)
                shapes.append((n, a_idx, k_idx))
    n, a_idx, k_idx = shapes[ctx.choose(len(shapes), "shape")]
    plain = [P(f"p{i}") for i in range(n)]
    params = list(plain)
    if a_idx >= 0:
        params.insert(min(a_idx, len(params)), P("args", "VAR_POSITIONAL"))
    if k_idx >= 0:
        params.append(P("kwargs", "VAR_KEYWORD"))
    args = [P(f"a{i}", "POSITIONAL_ONLY") for i in range(ctx.choose(3, "n-args"))]
    # kwargs candidates: some new names, some clashing with existing plain names
    kw_new = ctx.choose(3, "n-new-kwargs")
    kw_clash_mask = ctx.choose(2 ** n, "clashing-kwargs") if n else 0
    kwargs = [P(f"k{i}", "KEYWORD_ONLY") for i in range(kw_new)] + [P(f"p{i}", "KEYWORD_ONLY") for i in range(n) if kw_clash_mask >> i & 1]
    env = {"params": list(params), "args": list(args), "kwargs": list(kwargs)}
    consts = {"kinds.VAR_POSITIONAL": "VAR_POSITIONAL", "kinds.VAR_KEYWORD": "VAR_KEYWORD"}
    inline = {"get_arg_kind_index": MOD + ":get_arg_kind_index"}
    return Setup(env=env, consts=consts, inline=inline, data=dict(params=params, args=args, kwargs=kwargs))


def ra_post(ctx, st, result):
    d = st.data
    params, args, kwargs = d["params"], d["args"], d["kwargs"]
    has_var_pos = any(p.attrs["kind"] == "VAR_POSITIONAL" for p in params)
    has_var_kw = any(p.attrs["kind"] == "VAR_KEYWORD" for p in params)
    expected = []
    names_outside_kwargs = {p.attrs["name"] for p in params if p.attrs["kind"] not in ("VAR_KEYWORD", "VAR_POSITIONAL")} | ({a.attrs["name"] for a in args} if has_var_pos else set())
    for p in params:
        if p.attrs["kind"] == "VAR_POSITIONAL":
            expected.extend(args)
        elif p.attrs["kind"] == "VAR_KEYWORD":
            expected.extend(k for k in kwargs if k.attrs["name"] not in names_outside_kwargs)
        else:
            expected.append(p)
    ok = isinstance(result, list) and len(result) == len(expected) and all(a is b for a, b in zip(result, expected))
    ctx.oblige("post", "*args-slot-replaced-by-args;**kwargs-slot-by-the-kwargs-not-already-present", ok, note=f"expected {[p.attrs['name'] for p in expected]} got {[getattr(p, 'attrs', {}).get('name') for p in result] if isinstance(result, list) else result}")
    names = [p.attrs["name"] for p in result] if isinstance(result, list) else []
    ctx.oblige("post", "no-name-occurs-twice", len(set(names)) == len(names))
    pool = {id(p) for p in params + args + kwargs}
    ctx.oblige("post", "every-element-is-an-object-of-an-input-list(keeps type and default of its own signature)", isinstance(result, list) and all(id(p) in pool for p in result))


# ------------------------------------------------------------------------------------- split_args_and_kwargs
def sp_setup(ctx):
    kinds_list = ["POSITIONAL_ONLY", "POSITIONAL_OR_KEYWORD", "VAR_POSITIONAL", "KEYWORD_ONLY", "VAR_KEYWORD"]
    n = ctx.choose(4, "n")
    params = [P(f"p{i}", kinds_list[ctx.choose(5, f"kind[{i}]")]) for i in range(n)]
    return Setup(env={"params": list(params)}, consts={"kinds": KINDS}, data=dict(params=params))


def sp_post(ctx, st, result):
    params = st.data["params"]
    ok = isinstance(result, tuple) and len(result) == 2
    ctx.oblige("post", "returns-a-pair", ok)
    if ok:
        a, k = result
        ctx.oblige("post", "args==positional-only-in-order", [id(p) for p in a] == [id(p) for p in params if p.attrs["kind"] == "POSITIONAL_ONLY"])
        ctx.oblige("post", "kwargs==keyword-capable-in-order", [id(p) for p in k] == [id(p) for p in params if p.attrs["kind"] in ("KEYWORD_ONLY", "POSITIONAL_OR_KEYWORD")])


UNITS = [
    Unit("C13", MOD + ":remove_given_parameters", rg_setup, rg_post, no_exc, max_paths=20000),
    Unit("C13", MOD + ":replace_args_and_kwargs", ra_setup, ra_post, no_exc, max_paths=20000),
    Unit("C13", MOD + ":split_args_and_kwargs", sp_setup, sp_post, no_exc, max_paths=20000),
]
VERIFIED_CALLEES = ("ast_get_call_positional_indexes", "ast_get_call_keyword_names", "get_arg_kind_index")
LEVEL = "other"
TECHNIQUE = "contract-based verification of the list-algebra helpers (complete case analysis of small shapes through the real AST) + bounded comparison of the resolver with the interpreter on generated source files"
LEVEL_TEXT = "The AST resolver proper is a static analysis of the user's source: its soundness is compared with the interpreter by the bounded harness (about 1300 generated programs written to real files, incl. resolution histories). Verified are the helpers that implement the clauses: get_signature_parameters (resolver order; a failing or not-applying resolver hands over), remove_given_parameters (hard-coded positions and keywords are not offered), replace_args_and_kwargs (no duplicate names), split_args_and_kwargs, group_parameters (a parameter accepted by every forwarding use with one type and at most one default keeps them - required stays required -, otherwise conditional with exactly the defaults of its uses; 8400 use patterns), and the MRO cursor: ast_is_supported_super_call (super(X, self) moves the cursor to X's absolute position), get_mro_parameters (next class that defines the method itself), mro_context (cursor restored on every exit)."
LEVEL_NOTE = "under construction"
EXPLANATION = "under construction"
ASSUMPTIONS = []
TRUSTED = []
BOUNDED = [{"name": "resolver-vs-interpreter-on-generated-programs", "script": "bounded/b13_kwargs_resolver.py"}]


# ------------------------------------------------------------------------------------------------ group_parameters
# **kwargs used in several places: a name keeps the (type, default) of the signature it comes from when every use that forwards
# **kwargs accepts it with one type and at most one default - in particular a parameter required everywhere stays required;
# otherwise it is offered as conditional, listing the defaults of its uses (and NOT_ACCEPTED when some use does not take it).
EMPTY13 = Rec("inspect._empty")
POPGET = "**.pop|get():"


def gp_setup(ctx):
    from pyvc.engine import ClassRef
    n_lists = 2 + ctx.choose(2, "uses-of-kwargs")
    popget = [ctx.choose(2, f"use{i}-is-a-kwargs.pop/get") == 1 for i in range(n_lists)]
    occ = []
    for i in range(n_lists):
        occ.append(["absent", "required", "default-1", "default-2"][ctx.choose(4, f"p-in-use{i}")])
    types = [["untyped", "int", "str"][ctx.choose(3, f"type-in-use{i}")] if occ[i] != "absent" else None for i in range(n_lists)]
    d1, d2 = z3.Int("default1"), z3.Int("default2")
    ctx.assume(d1 != d2)
    tmap = {"untyped": EMPTY13, "int": ClassRef("int"), "str": ClassRef("str")}
    lists, ps = [], []
    for i in range(n_lists):
        origin = (POPGET + f"use{i}") if popget[i] else f"use{i}"
        lst = [Rec("ParamData", attrs={"name": f"own{i}", "kind": "KEYWORD_ONLY", "annotation": ClassRef("int"), "default": z3.Int(f"own{i}.default"), "origin": origin, "parent": f"P{i}", "component": f"C{i}", "doc": None})]
        if occ[i] != "absent":
            p = Rec("ParamData", attrs={"name": "p", "kind": "POSITIONAL_OR_KEYWORD", "annotation": tmap[types[i]], "default": {"required": EMPTY13, "default-1": d1, "default-2": d2}[occ[i]],
                                        "origin": origin, "parent": f"P{i}", "component": f"C{i}", "doc": f"doc{i}" if i else None})
            lst.append(p)
            ps.append(p)
        lst.append(Rec("ParamData", attrs={"name": f"posonly{i}", "kind": "POSITIONAL_ONLY", "annotation": EMPTY13, "default": EMPTY13, "origin": origin, "parent": None, "component": None, "doc": None}))
        lists.append(lst)
    snapshot = {id(p): dict(p.attrs) for p in ps}

    def unique(c, a, k):
        out = []
        for x in a[0]:
            if not any(x is y or (isinstance(x, ClassRef) and isinstance(y, ClassRef) and x.name == y.name) for y in out):
                out.append(x)
        return out

    consts = {"param_kwargs_pop_or_get": POPGET, "kinds": Rec("kinds", attrs={k: k for k in ("POSITIONAL_ONLY", "POSITIONAL_OR_KEYWORD", "VAR_POSITIONAL", "KEYWORD_ONLY", "VAR_KEYWORD")}),
              "inspect": Rec("inspect", attrs={"_empty": EMPTY13}), "Union": Rec("typing.Union", methods={"__getitem__": lambda c, s_, a, k: Rec("Union[...]", attrs={"args": a[0]})})}
    import collections
    calls = {"unique": unique, "defaultdict": lambda c, a, k: collections.defaultdict(list), "ConditionalDefault": lambda c, a, k: Rec("ConditionalDefault", attrs={"resolver": a[0], "data": list(a[1])})}
    return Setup(env={"params_list": lists}, calls=calls, consts=consts, data=dict(n=n_lists, popget=popget, occ=occ, types=types, ps=ps, d1=d1, d2=d2, lists=lists, snapshot=snapshot, tmap=tmap))


def gp_post(ctx, st, result):
    d = st.data
    tag = f"[uses:{['pop/get' if x else 'forward' for x in d['popget']]},p:{d['occ']},types:{d['types']}]"
    names = [p.attrs["name"] for p in result] if isinstance(result, list) else None
    want_names = []
    for i in range(d["n"]):
        for p in d["lists"][i]:
            if p.attrs["kind"] != "POSITIONAL_ONLY" and p.attrs["name"] not in want_names:
                want_names.append(p.attrs["name"])
    ctx.oblige("post", "every-name-of-any-use(positional-only excluded)-is-offered-exactly-once,in-order-of-first-appearance" + tag, names == want_names)
    if names != want_names or not d["ps"]:
        return
    g = next(p for p in result if p.attrs["name"] == "p")
    first = d["snapshot"][id(d["ps"][0])]
    forwards = sum(1 for x in d["popget"] if not x)
    distinct_defaults = []
    for p in d["ps"]:
        dv = d["snapshot"][id(p)]["default"]
        if dv is not EMPTY13 and not any(dv is x for x in distinct_defaults):
            distinct_defaults.append(dv)
    distinct_types = []
    for p in d["ps"]:
        tv = d["snapshot"][id(p)]["annotation"]
        if tv is not EMPTY13 and not any(getattr(tv, "name", tv) == getattr(x, "name", x) for x in distinct_types):
            distinct_types.append(tv)
    unconditional = len(d["ps"]) >= forwards and len(distinct_types) <= 1 and len(distinct_defaults) <= 1
    if unconditional:
        ctx.oblige("post", "accepted-by-every-forwarding-use-with-one-type-and-at-most-one-default=>keeps-the-type-and-default-of-the-signature-it-comes-from(required stays required)" + tag,
                   g is d["ps"][0] and g.attrs["default"] is first["default"] and g.attrs["annotation"] is first["annotation"] and g.attrs["origin"] is None)
    else:
        dflt = g.attrs["default"]
        data = dflt.attrs["data"] if isinstance(dflt, Rec) and dflt.cls == "ConditionalDefault" else None
        want = list(distinct_defaults) + (["NOT_ACCEPTED"] if len(d["ps"]) < forwards else [])
        ctx.oblige("post", "otherwise-conditional:the-default-lists-exactly-the-defaults-of-its-uses(+NOT_ACCEPTED when some forwarding use does not take it)" + tag,
                   data is not None and len(data) == len(want) and all(x is y or x == y for x, y in zip(data, want)) and isinstance(g.attrs["origin"], tuple) and len(g.attrs["origin"]) == len(d["ps"]))
        if len(distinct_types) > 1:
            ctx.oblige("post", "several-types=>the-union-of-them" + tag, isinstance(g.attrs["annotation"], Rec) and g.attrs["annotation"].cls == "Union[...]" and len(g.attrs["annotation"].attrs["args"]) == len(distinct_types))
        else:
            ctx.oblige("post", "one-type=>kept" + tag, g.attrs["annotation"] is first["annotation"])
    own = [p for p in result if p.attrs["name"].startswith("own")]
    ctx.oblige("post", "a-name-that-only-one-use-takes-is-conditional-iff-other-forwarding-uses-exist" + tag,
               all((p.attrs["origin"] is None) == (1 >= forwards) for p in own))


def gp_raises(ctx, st, exc):
    ctx.oblige("raises", f"never-raises(got {exc.cls}@{exc.origin})", False)


UNITS.append(Unit("C13", "jsonargparse._parameter_resolvers:group_parameters", gp_setup, gp_post, gp_raises, max_paths=100000, split=2,
                  trusted=["unique(): distinct items in order of first appearance", "ConditionalDefault(resolver, defaults) only records the defaults"]))


# ------------------------------------------------------------------------------------------------ MRO cursor: ast_is_supported_super_call / get_mro_parameters / mro_context
# Which class a super().__init__(**kwargs) reaches is decided by a cursor (classes, idx) into the MRO of the class being resolved:
#   super()                 -> the next class after the cursor that defines the method itself
#   super(X, self)          -> the cursor moves to X (searched from the cursor onwards), so the next class is the one after X
def mro_classes():
    obj_init = Rec("object.__init__")
    defs = {}
    classes = [Rec(f"class K{i}", attrs={"__name__": f"K{i}"}) for i in range(4)]
    return classes, obj_init, defs


class Cursor:
    def __init__(self, value):
        self.value = value
        self.sets = 0

    def rec(self):
        return Rec("ContextVar current_mro", methods={"get": lambda c, s_, a, k: self.value, "set": lambda c, s_, a, k: self._set(a[0]), "reset": lambda c, s_, a, k: self._reset(a[0])})

    def _set(self, v):
        tok = Rec("Token", attrs={"old": self.value})
        self.value = v
        self.sets += 1
        return tok

    def _reset(self, tok):
        self.value = tok.attrs["old"]


def ssc_setup(ctx):
    classes, _, _ = mro_classes()
    idx = ctx.choose(3, "cursor")
    form = ["super()", "super(X, self)", "super(X, other)", "super(X)", "super(X, self, kw=1)", "super(f(), self)"][ctx.choose(6, "form")]
    xpos = ["at-cursor", "after-cursor", "last", "before-cursor", "not-in-the-mro", "name-shadowed-in-the-module"][ctx.choose(6, "X")] if form == "super(X, self)" else "after-cursor"
    pos = {"at-cursor": idx, "after-cursor": idx + 1, "last": 3, "before-cursor": idx - 1, "not-in-the-mro": None, "name-shadowed-in-the-module": idx + 1}[xpos]
    if pos is not None and pos < 0:
        pos, xpos = None, "not-in-the-mro"
    xname = classes[pos].attrs["__name__"] if pos is not None else "Foreign"
    module = Rec("module", attrs={c.attrs["__name__"]: c for c in classes})
    if xpos == "name-shadowed-in-the-module":
        module.attrs[xname] = Rec("another object with that name")
    ctx.classes.add("Name", ["object"])
    ctx.classes.add("Call", ["object"])
    name = lambda s: Rec("Name", attrs={"id": s})  # noqa: E731
    args = {"super()": [], "super(X, self)": [name(xname), name("self")], "super(X, other)": [name(xname), name("other")], "super(X)": [name(xname)],
            "super(X, self, kw=1)": [name(xname), name("self")], "super(f(), self)": [Rec("Call"), name("self")]}[form]
    keywords = [Rec("keyword")] if form == "super(X, self, kw=1)" else []
    node = Rec("Call", attrs={"func": Rec("Attribute", attrs={"value": Rec("Call", attrs={"args": args, "keywords": keywords})})})
    cur = Cursor((classes, idx))
    logged = []
    from pyvc.engine import ClassRef as CR, Fn
    consts = {"current_mro": cur.rec(), "ast": Rec("module ast", attrs={"Name": CR("Name")})}
    calls = {"inspect.getmodule": lambda c, a, k: module, "ast_str": lambda c, a, k: "super(...)"}
    return Setup(env={"node": node, "self_name": "self", "log_debug": Fn(lambda c, a, k: logged.append(a[0]), "log_debug")}, calls=calls, consts=consts,
                 data=dict(classes=classes, idx=idx, form=form, xpos=xpos, pos=pos, cur=cur, logged=logged))


def ssc_post(ctx, st, result):
    d = st.data
    tag = f"[{d['form']},X:{d['xpos']},cursor:{d['idx']}]"
    cur = d["cur"].value
    if d["form"] == "super()":
        ctx.oblige("post", "plain-super()-is-supported-and-leaves-the-cursor-where-it-is" + tag, result is True and cur[0] is d["classes"] and cur[1] == d["idx"] and d["cur"].sets == 0)
        return
    supported = d["form"] == "super(X, self)" and d["xpos"] in ("at-cursor", "after-cursor", "last")
    ctx.oblige("post", "super(X, self)-is-supported-iff-X-is-a-class-of-the-MRO-at-or-after-the-cursor(the very class the module exposes under that name)" + tag, result is supported)
    if supported:
        ctx.oblige("post", "the-cursor-moves-to-X(an absolute position in the MRO):the-next-class-is-the-one-after-X" + tag, cur[0] is d["classes"] and cur[1] == d["pos"])
    else:
        ctx.oblige("post", "an-unsupported-call-leaves-the-cursor-alone-and-is-logged" + tag, cur[1] == d["idx"] and d["cur"].sets == 0 and len(d["logged"]) == 1)


def never13(ctx, st, exc):
    ctx.oblige("raises", f"never-raises(got {exc.cls}@{exc.origin})", False)


UNITS.append(Unit("C13", "jsonargparse._parameter_resolvers:ast_is_supported_super_call", ssc_setup, ssc_post, never13, max_paths=5000,
                  trusted=["inspect.getmodule(cls) is the module that defines the class; ast node shapes as produced by ast.parse"]))


def gmp_setup(ctx):
    classes, obj_init, _ = mro_classes()
    idx = ctx.choose(4, "cursor")
    # which classes define the method themselves (others inherit it from the next definer, at the end from object)
    defines = [ctx.choose(2, f"K{i}-defines-the-method") == 1 for i in range(4)]
    method_is_init = ctx.choose(2, "method") == 0
    # the list is the MRO of the class being resolved; a class that does not define the method inherits it along *its own* bases, which are
    # a sub-sequence of the classes after it (multiple inheritance: not necessarily the very next class of this list)
    meths = [None] * 4
    inherits = {}
    for i in reversed(range(4)):
        if defines[i]:
            meths[i] = Rec(f"K{i}.method")
        else:
            later = [j for j in range(i + 1, 4) if defines[j]]
            pick = ctx.choose(len(later) + 1, f"K{i}-inherits-it-from") if later else 0
            inherits[i] = later[pick] if pick < len(later) else None
            meths[i] = meths[later[pick]] if pick < len(later) else (obj_init if method_is_init else None)
    mname = "__init__" if method_is_init else "setup"
    for c, m in zip(classes, meths):
        if m is not None:
            c.attrs[mname] = m
    cur = Cursor((classes, idx))
    params = Rec("parameters of the class found")

    def get_parameters_fn(c, a, k):
        c.event("get-parameters", a[0], a[1], k.get("logger"))
        return params

    from pyvc.engine import Fn
    logger = Rec("logger")
    consts = {"current_mro": cur.rec(), "object": Rec("class object", attrs={"__init__": obj_init})}
    return Setup(env={"method_name": mname, "get_parameters_fn": Fn(get_parameters_fn, "get_parameters_fn"), "logger": logger}, consts=consts,
                 data=dict(classes=classes, idx=idx, defines=defines, meths=meths, cur=cur, params=params, logger=logger, method_is_init=method_is_init, inherits=inherits))


def gmp_post(ctx, st, result):
    d = st.data
    tag = f"[cursor:{d['idx']},definers:{[i for i in range(4) if d['defines'][i]]},inherited-from:{d['inherits']},{'__init__' if d['method_is_init'] else 'other method'}]"
    nxt = next((i for i in range(d["idx"] + 1, 4) if d["defines"][i]), None)
    ev = [e for e in ctx.events if e[0] == "get-parameters"]
    if nxt is None:
        ctx.oblige("post", "no-class-after-the-cursor-defines-the-method=>no-parameters,cursor-unchanged" + tag, result == [] and not ev and d["cur"].value[1] == d["idx"])
    else:
        ctx.oblige("post", "the-parameters-are-those-of-the-next-class-after-the-cursor-that-defines-the-method-itself(inherited definitions are skipped)" + tag,
                   result is d["params"] and len(ev) == 1 and ev[0][1] is d["classes"][nxt] and ev[0][2] is d["meths"][nxt] and ev[0][3] is d["logger"])
        ctx.oblige("post", "the-cursor-moves-to-that-class(so that its own super() continues from there)" + tag, d["cur"].value[0] is d["classes"] and d["cur"].value[1] == nxt)


UNITS.append(Unit("C13", "jsonargparse._parameter_resolvers:get_mro_parameters", gmp_setup, gmp_post, never13, max_paths=5000,
                  trusted=["getattr(cls, name) returns the class's own definition, else the one of the first definer among its own bases (a sub-sequence of the later classes; object's for __init__)"]))


def mc_setup(ctx):
    classes, _, _ = mro_classes()
    state = ["no-cursor-yet", "cursor-at-parent", "cursor-at-another-class", "no-parent"][ctx.choose(4, "state")]
    parent = None if state == "no-parent" else classes[0]
    other = [Rec("class Other"), classes[0]]
    init = {"no-cursor-yet": (None, None), "cursor-at-parent": (classes, 0), "cursor-at-another-class": (other, 0), "no-parent": (classes, 1)}[state]
    cur = Cursor(init)
    obj = Rec("class object")

    def at_yield(ctx_, interp, value, e):
        v = cur.value
        if state in ("no-cursor-yet", "cursor-at-another-class"):
            ctx_.oblige("yield", f"inside-the-body:the-cursor-is-at-the-start-of-the-parent's-MRO(without object)[{state}]", isinstance(v[0], list) and len(v[0]) == 4 and all(a is b for a, b in zip(v[0], classes)) and v[1] == 0)
        else:
            ctx_.oblige("yield", f"inside-the-body:a-cursor-that-already-stands-at-the-parent(or no parent)-is-kept[{state}]", v is init)

    calls = {"inspect.getmro": lambda c, a, k: tuple(classes) + (obj,)}
    return Setup(env={"parent": parent}, calls=calls, consts={"current_mro": cur.rec(), "object": obj}, hooks={"yield": at_yield}, data=dict(cur=cur, init=init, state=state))


def mc_post(ctx, st, result):
    d = st.data
    ctx.oblige("post", f"normal-exit:the-cursor-is-what-it-was-before[{d['state']}]", d["cur"].value is d["init"])


def mc_raises(ctx, st, exc):
    d = st.data
    if exc.cls == "<Any>":
        ctx.oblige("post", f"exception-from-the-body:the-cursor-is-what-it-was-before[{d['state']}]", d["cur"].value is d["init"])
    else:
        ctx.oblige("raises", f"no-own-exception(got {exc.cls}@{exc.origin})", False)


UNITS.append(Unit("C13", "jsonargparse._parameter_resolvers:mro_context", mc_setup, mc_post, mc_raises, expect_cover=("return", "raise:<Any>"),
                  trusted=["ContextVar get/set/reset with a token; inspect.getmro(parent) ends with object"]))


# ------------------------------------------------------------------------------------------------ get_signature_parameters (resolver order)
def gsp_setup(ctx):
    from pyvc.engine import ExcVal, PyRaise, Fn
    # each resolver: returns a list, returns None (does not apply), or raises
    fates = []
    names = ["get_parameters_from_pydantic_or_attrs", "get_parameters_from_ast", "get_parameters_from_stubs", "get_parameters_by_assumptions"]
    for nm in names:
        fates.append(["None", "params", "empty-list", "raises"][ctx.choose(4, nm)])
    results = {nm: [Rec(f"param from {nm}")] for nm in names}
    comp, logger = Rec("component"), Rec("logger", methods={"debug": lambda c, s_, a, k: c.event("logged", a[1] if len(a) > 1 else None)})

    def mk(nm, fate):
        def fn(c, a, k):
            c.event("resolver", nm, a[0], a[1], a[2])
            if fate == "raises":
                raise PyRaise(ExcVal("ValueError", args=("cannot resolve",), origin=nm))
            return {"None": None, "params": results[nm], "empty-list": []}[fate]
        return Fn(fn, nm)

    fns = {nm: mk(nm, f) for nm, f in zip(names, fates)}
    for nm in names:
        fns[nm].__name__ = nm
    consts = {nm: Rec(nm, attrs={"__name__": nm}, methods={"__call__": (lambda c, s_, a, k, _f=fns[nm]: _f.fn(c, a, k))}) for nm in names}

    def symcall(c, f, a, k):
        if isinstance(f, Rec) and "__call__" in f.methods:
            return f.methods["__call__"](c, f, a, k)
        return NotImplemented

    calls = {"get_component_and_parent": lambda c, a, k: c.event("input-verified", a[0], a[1]), "parse_logger": lambda c, a, k: logger}
    return Setup(env={"function_or_class": comp, "method_or_property": "run", "logger": True}, calls=calls, consts=consts, symcall=symcall,
                 data=dict(fates=fates, names=names, results=results, comp=comp, logger=logger))


def gsp_post(ctx, st, result):
    d = st.data
    tag = f"[{d['fates']}]"
    called = [e[1] for e in ctx.events if e[0] == "resolver"]
    # the first resolver that gives an answer (a list, possibly empty) decides; one that does not apply (None) or fails hands over to the next
    first = next((i for i, f in enumerate(d["fates"]) if f in ("params", "empty-list")), None)
    want_called = d["names"][: (first + 1) if first is not None else 4]
    ctx.oblige("post", "the-resolvers-are-tried-in-the-documented-order(pydantic/attrs, AST, stubs, assumptions)-until-one-answers;a-failing-one-is-logged-and-skipped" + tag, called == want_called)
    want = d["results"][d["names"][first]] if first is not None and d["fates"][first] == "params" else []
    ctx.oblige("post", "the-parameters-are-those-of-the-first-resolver-that-answers(none when nobody does)" + tag, (result is want) if want else result == [])
    ctx.oblige("post", "every-resolver-gets-the-component,the-method-and-the-logger" + tag, all(e[2] is d["comp"] and e[3] == "run" and e[4] is d["logger"] for e in ctx.events if e[0] == "resolver"))
    ctx.oblige("post", "the-input-is-verified-first" + tag, ctx.events[0][0] == "input-verified")


UNITS.append(Unit("C13", "jsonargparse._parameter_resolvers:get_signature_parameters", gsp_setup, gsp_post, never13, max_paths=5000,
                  trusted=["the four resolvers by contract: a list of parameters, None when they do not apply, or an exception (AST resolver: the other units of this property and the harness)"]))
