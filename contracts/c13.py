"""C13 - parameters resolved through **kwargs are exactly those the code accepts.

The resolver proper is a static analysis of the *user's* source (ParametersVisitor, MRO walk, stubs): its soundness is a
statement about Python's call semantics for arbitrary programs - no contract within reach expresses it; it is compared
with the interpreter by the bounded harness.  Under contract are the list-algebra helpers that implement three clauses
of the statement (hard-coded arguments are not offered; *args/**kwargs are replaced without duplicates; every offered
parameter is the very object of the signature it comes from):
  remove_given_parameters, replace_args_and_kwargs, split_args_and_kwargs (+ get_arg_kind_index, ast_get_call_* inlined)
Shapes: parameter lists of length 0..4, every placement of *args/**kwargs, every subset of given positions/keywords.
"""
import itertools

from pyvc.engine import ClassRef, Rec
from pyvc.units import Setup, Unit

MOD = "jsonargparse._parameter_resolvers"
KINDS = Rec("kinds", attrs={k: k for k in ("POSITIONAL_ONLY", "POSITIONAL_OR_KEYWORD", "VAR_POSITIONAL", "KEYWORD_ONLY", "VAR_KEYWORD")})


def P(name, kind="POSITIONAL_OR_KEYWORD"):
    return Rec("ParamData", attrs={"name": name, "kind": kind})


# ------------------------------------------------------------------------------------- remove_given_parameters
def rg_setup(ctx):
    n = ctx.choose(4, "n-params") + 1
    params = [P(f"p{i}") for i in range(n)]
    # the call node: some positional arguments (the k-th may be *starred), some keywords (one may be **kw)
    n_pos = ctx.choose(3, "n-positional")
    starred_at = ctx.choose(n_pos + 1, "starred-position") - 1
    args = [Rec("Starred" if i == starred_at else "Name") for i in range(n_pos)]
    kw_mask = ctx.choose(2 ** n, "keyword-names")
    kws = [Rec("keyword", attrs={"arg": f"p{i}"}) for i in range(n) if kw_mask >> i & 1]
    if ctx.choose(2, "double-star") == 1:
        kws.append(Rec("keyword", attrs={"arg": None}))
    node = Rec("Call", attrs={"args": args, "keywords": kws})
    removed = set() if ctx.choose(2, "removed_params-given") == 1 else None
    removed_rec = None
    if removed is not None:
        removed_rec = Rec("set", methods={"update": lambda c, s_, a, k: removed.update(a[0] if not isinstance(a[0], Rec) else [])})
    env = {"node": node, "params": list(params), "removed_params": removed_rec}
    consts = {"ast.Starred": ClassRef("Starred")}
    inline = {"ast_get_call_positional_indexes": MOD + ":ast_get_call_positional_indexes", "ast_get_call_keyword_names": MOD + ":ast_get_call_keyword_names"}
    given_pos = {i for i in range(n_pos) if i != starred_at}
    given_kw = {f"p{i}" for i in range(n) if kw_mask >> i & 1}
    return Setup(env=env, consts=consts, inline=inline, data=dict(params=params, given_pos=given_pos, given_kw=given_kw, removed=removed))


def rg_post(ctx, st, result):
    d = st.data
    expected = [p for i, p in enumerate(d["params"]) if i not in d["given_pos"] and p.attrs["name"] not in d["given_kw"]]
    ctx.oblige("post", "hard-coded-positions-and-keywords-are-not-offered;the-rest-is-kept-in-order", isinstance(result, list) and len(result) == len(expected) and all(a is b for a, b in zip(result, expected)))
    ctx.oblige("frame", "input-list-not-modified", all(a is b for a, b in zip(st.env["params"], d["params"])) and len(st.env["params"]) == len(d["params"]))


def no_exc(ctx, st, exc):
    ctx.oblige("raises", f"never-raises(got {exc.cls}@{exc.origin})", False)


# ------------------------------------------------------------------------------------- replace_args_and_kwargs
def ra_setup(ctx):
    shapes = []
    for n in range(0, 4):
        for a_idx in [-1] + list(range(n + 1)):
            for k_idx in (-1, n + 1):  # a signature's **kwargs is always its last parameter (precondition of the helper)
                shapes.append((n, a_idx, k_idx))
    n, a_idx, k_idx = shapes[ctx.choose(len(shapes), "shape")]
    plain = [P(f"p{i}") for i in range(n)]
    params = list(plain)
    if a_idx >= 0:
        params.insert(min(a_idx, len(params)), P("args", "VAR_POSITIONAL"))
    if k_idx >= 0:
        params.append(P("kwargs", "VAR_KEYWORD"))
    args = [P(f"a{i}", "POSITIONAL_ONLY") for i in range(ctx.choose(3, "n-args"))]
    # kwargs candidates: some new names, some clashing with existing plain names
    kw_new = ctx.choose(3, "n-new-kwargs")
    kw_clash_mask = ctx.choose(2 ** n, "clashing-kwargs") if n else 0
    kwargs = [P(f"k{i}", "KEYWORD_ONLY") for i in range(kw_new)] + [P(f"p{i}", "KEYWORD_ONLY") for i in range(n) if kw_clash_mask >> i & 1]
    env = {"params": list(params), "args": list(args), "kwargs": list(kwargs)}
    consts = {"kinds.VAR_POSITIONAL": "VAR_POSITIONAL", "kinds.VAR_KEYWORD": "VAR_KEYWORD"}
    inline = {"get_arg_kind_index": MOD + ":get_arg_kind_index"}
    return Setup(env=env, consts=consts, inline=inline, data=dict(params=params, args=args, kwargs=kwargs))


def ra_post(ctx, st, result):
    d = st.data
    params, args, kwargs = d["params"], d["args"], d["kwargs"]
    has_var_pos = any(p.attrs["kind"] == "VAR_POSITIONAL" for p in params)
    has_var_kw = any(p.attrs["kind"] == "VAR_KEYWORD" for p in params)
    expected = []
    names_outside_kwargs = {p.attrs["name"] for p in params if p.attrs["kind"] not in ("VAR_KEYWORD", "VAR_POSITIONAL")} | ({a.attrs["name"] for a in args} if has_var_pos else set())
    for p in params:
        if p.attrs["kind"] == "VAR_POSITIONAL":
            expected.extend(args)
        elif p.attrs["kind"] == "VAR_KEYWORD":
            expected.extend(k for k in kwargs if k.attrs["name"] not in names_outside_kwargs)
        else:
            expected.append(p)
    ok = isinstance(result, list) and len(result) == len(expected) and all(a is b for a, b in zip(result, expected))
    ctx.oblige("post", "*args-slot-replaced-by-args;**kwargs-slot-by-the-kwargs-not-already-present", ok, note=f"expected {[p.attrs['name'] for p in expected]} got {[getattr(p, 'attrs', {}).get('name') for p in result] if isinstance(result, list) else result}")
    names = [p.attrs["name"] for p in result] if isinstance(result, list) else []
    ctx.oblige("post", "no-name-occurs-twice", len(set(names)) == len(names))
    pool = {id(p) for p in params + args + kwargs}
    ctx.oblige("post", "every-element-is-an-object-of-an-input-list(keeps type and default of its own signature)", isinstance(result, list) and all(id(p) in pool for p in result))


# ------------------------------------------------------------------------------------- split_args_and_kwargs
def sp_setup(ctx):
    kinds_list = ["POSITIONAL_ONLY", "POSITIONAL_OR_KEYWORD", "VAR_POSITIONAL", "KEYWORD_ONLY", "VAR_KEYWORD"]
    n = ctx.choose(4, "n")
    params = [P(f"p{i}", kinds_list[ctx.choose(5, f"kind[{i}]")]) for i in range(n)]
    return Setup(env={"params": list(params)}, consts={"kinds": KINDS}, data=dict(params=params))


def sp_post(ctx, st, result):
    params = st.data["params"]
    ok = isinstance(result, tuple) and len(result) == 2
    ctx.oblige("post", "returns-a-pair", ok)
    if ok:
        a, k = result
        ctx.oblige("post", "args==positional-only-in-order", [id(p) for p in a] == [id(p) for p in params if p.attrs["kind"] == "POSITIONAL_ONLY"])
        ctx.oblige("post", "kwargs==keyword-capable-in-order", [id(p) for p in k] == [id(p) for p in params if p.attrs["kind"] in ("KEYWORD_ONLY", "POSITIONAL_OR_KEYWORD")])


UNITS = [
    Unit("C13", MOD + ":remove_given_parameters", rg_setup, rg_post, no_exc, max_paths=20000),
    Unit("C13", MOD + ":replace_args_and_kwargs", ra_setup, ra_post, no_exc, max_paths=20000),
    Unit("C13", MOD + ":split_args_and_kwargs", sp_setup, sp_post, no_exc, max_paths=20000),
]
VERIFIED_CALLEES = ("ast_get_call_positional_indexes", "ast_get_call_keyword_names", "get_arg_kind_index")
LEVEL = "other"
TECHNIQUE = "contract-based verification of the list-algebra helpers (complete case analysis of small shapes through the real AST) + bounded comparison of the resolver with the interpreter on generated source files"
LEVEL_TEXT = "The resolver proper is a static analysis of the user's source: no contract within reach expresses its soundness; it is compared with the interpreter by the bounded harness (1276 generated programs). Proved are the list-algebra helpers that implement three clauses: remove_given_parameters (hard-coded positions and keywords are not offered, order kept), replace_args_and_kwargs (no duplicate names, every element is an object of its own signature), split_args_and_kwargs - complete case analysis of all shapes with <= 4 parameters."
LEVEL_NOTE = "under construction"
EXPLANATION = "under construction"
ASSUMPTIONS = []
TRUSTED = []
BOUNDED = [{"name": "resolver-vs-interpreter-on-generated-programs", "script": "bounded/b13_kwargs_resolver.py"}]
