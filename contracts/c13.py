"""C13 - parameters resolved through **kwargs are exactly those the code accepts.

The resolver proper is a static analysis of the *user's* source (ParametersVisitor, MRO walk, stubs): its soundness is a
statement about Python's call semantics for arbitrary programs - no contract within reach expresses it; it is compared
with the interpreter by the bounded harness.  Under contract are the list-algebra helpers that implement three clauses
of the statement (hard-coded arguments are not offered; *args/**kwargs are replaced without duplicates; every offered
parameter is the very object of the signature it comes from):
  remove_given_parameters, replace_args_and_kwargs, split_args_and_kwargs (+ get_arg_kind_index, ast_get_call_* inlined)
Shapes: parameter lists of length 0..4, every placement of *args/**kwargs, every subset of given positions/keywords.
"""
import itertools

import z3

from pyvc.engine import ClassRef, Rec
from pyvc.units import Setup, Unit

MOD = "jsonargparse._parameter_resolvers"
KINDS = Rec("kinds", attrs={k: k for k in ("POSITIONAL_ONLY", "POSITIONAL_OR_KEYWORD", "VAR_POSITIONAL", "KEYWORD_ONLY", "VAR_KEYWORD")})


def P(name, kind="POSITIONAL_OR_KEYWORD"):
    return Rec("ParamData", attrs={"name": name, "kind": kind})


# ------------------------------------------------------------------------------------- remove_given_parameters
def rg_setup(ctx):
    n = ctx.choose(4, "n-params") + 1
    params = [P(f"p{i}") for i in range(n)]
    # the call node: some positional arguments (the k-th may be *starred), some keywords (one may be **kw)
    n_pos = ctx.choose(3, "n-positional")
    starred_at = ctx.choose(n_pos + 1, "starred-position") - 1
    args = [Rec("Starred" if i == starred_at else "Name") for i in range(n_pos)]
    kw_mask = ctx.choose(2 ** n, "keyword-names")
    kws = [Rec("keyword", attrs={"arg": f"p{i}"}) for i in range(n) if kw_mask >> i & 1]
    if ctx.choose(2, "double-star") == 1:
        # `f(a=1, **kw)` and `f(**kw, a=1)` are the same call: the unpacking may stand anywhere among the keywords
        kws.insert(ctx.choose(len(kws) + 1, "double-star-position"), Rec("keyword", attrs={"arg": None}))
    node = Rec("Call", attrs={"args": args, "keywords": kws})
    removed = set() if ctx.choose(2, "removed_params-given") == 1 else None
    removed_rec = None
    if removed is not None:
        removed_rec = Rec("set", methods={"update": lambda c, s_, a, k: removed.update(a[0] if not isinstance(a[0], Rec) else [])})
    env = {"node": node, "params": list(params), "removed_params": removed_rec}
    # Class.method(instance, ...): the first positional is the instance, the remaining positions are those of the parameters (self is not among `params`)
    instance_given = n_pos >= 1 and starred_at != 0 and ctx.choose(2, "the-first-positional-is-the-instance(Class.method(instance, ...))") == 1
    if instance_given:
        env["instance_given"] = True
    consts = {"ast.Starred": ClassRef("Starred")}
    inline = {"ast_get_call_positional_indexes": MOD + ":ast_get_call_positional_indexes", "ast_get_call_keyword_names": MOD + ":ast_get_call_keyword_names"}
    given_pos = {i for i in range(n_pos) if i != starred_at}
    if instance_given:
        given_pos = {i - 1 for i in given_pos if i > 0}
    given_kw = {f"p{i}" for i in range(n) if kw_mask >> i & 1}
    return Setup(env=env, consts=consts, inline=inline, data=dict(params=params, given_pos=given_pos, given_kw=given_kw, removed=removed))


def rg_post(ctx, st, result):
    d = st.data
    expected = [p for i, p in enumerate(d["params"]) if i not in d["given_pos"] and p.attrs["name"] not in d["given_kw"]]
    ctx.oblige("post", "hard-coded-positions-and-keywords-are-not-offered;the-rest-is-kept-in-order", isinstance(result, list) and len(result) == len(expected) and all(a is b for a, b in zip(result, expected)))
    ctx.oblige("frame", "input-list-not-modified", all(a is b for a, b in zip(st.env["params"], d["params"])) and len(st.env["params"]) == len(d["params"]))


def no_exc(ctx, st, exc):
    ctx.oblige("raises", f"never-raises(got {exc.cls}@{exc.origin})", False)


# ------------------------------------------------------------------------------------- replace_args_and_kwargs
def ra_setup(ctx):
    shapes = []
    for n in range(0, 4):
        for a_idx in [-1] + list(range(n + 1)):
            for k_idx in (-1, n + 1):  # a signature's **kwargs is always its last parameter (precondition of the helper)
                shapes.append((n, a_idx, k_idx))
    n, a_idx, k_idx = shapes[ctx.choose(len(shapes), "shape")]
    plain = [P(f"p{i}") for i in range(n)]
    params = list(plain)
    if a_idx >= 0:
        params.insert(min(a_idx, len(params)), P("args", "VAR_POSITIONAL"))
    if k_idx >= 0:
        params.append(P("kwargs", "VAR_KEYWORD"))
    args = [P(f"a{i}", "POSITIONAL_ONLY") for i in range(ctx.choose(3, "n-args"))]
    # kwargs candidates: some new names, some clashing with existing plain names
    kw_new = ctx.choose(3, "n-new-kwargs")
    kw_clash_mask = ctx.choose(2 ** n, "clashing-kwargs") if n else 0
    kwargs = [P(f"k{i}", "KEYWORD_ONLY") for i in range(kw_new)] + [P(f"p{i}", "KEYWORD_ONLY") for i in range(n) if kw_clash_mask >> i & 1]
    # a parameter reached through **kwargs may be *named like* the catch-all variable itself (def f(**options): g(**options) with g(options=7)): the variable's
    # name is not a parameter of f, so that parameter is offered like any other
    if k_idx >= 0 and ctx.choose(2, "a-resolved-parameter-is-named-like-the-**-variable") == 1:
        kwargs.append(P("kwargs", "KEYWORD_ONLY"))
    env = {"params": list(params), "args": list(args), "kwargs": list(kwargs)}
    consts = {"kinds.VAR_POSITIONAL": "VAR_POSITIONAL", "kinds.VAR_KEYWORD": "VAR_KEYWORD"}
    inline = {"get_arg_kind_index": MOD + ":get_arg_kind_index"}
    return Setup(env=env, consts=consts, inline=inline, data=dict(params=params, args=args, kwargs=kwargs))


def ra_post(ctx, st, result):
    d = st.data
    params, args, kwargs = d["params"], d["args"], d["kwargs"]
    has_var_pos = any(p.attrs["kind"] == "VAR_POSITIONAL" for p in params)
    has_var_kw = any(p.attrs["kind"] == "VAR_KEYWORD" for p in params)
    expected = []
    names_outside_kwargs = {p.attrs["name"] for p in params if p.attrs["kind"] not in ("VAR_KEYWORD", "VAR_POSITIONAL")} | ({a.attrs["name"] for a in args} if has_var_pos else set())
    for p in params:
        if p.attrs["kind"] == "VAR_POSITIONAL":
            expected.extend(args)
        elif p.attrs["kind"] == "VAR_KEYWORD":
            expected.extend(k for k in kwargs if k.attrs["name"] not in names_outside_kwargs)
        else:
            expected.append(p)
    ok = isinstance(result, list) and len(result) == len(expected) and all(a is b for a, b in zip(result, expected))
    ctx.oblige("post", "*args-slot-replaced-by-args;**kwargs-slot-by-the-kwargs-not-already-present", ok, note=f"expected {[p.attrs['name'] for p in expected]} got {[getattr(p, 'attrs', {}).get('name') for p in result] if isinstance(result, list) else result}")
    names = [p.attrs["name"] for p in result] if isinstance(result, list) else []
    ctx.oblige("post", "no-name-occurs-twice", len(set(names)) == len(names))
    pool = {id(p) for p in params + args + kwargs}
    ctx.oblige("post", "every-element-is-an-object-of-an-input-list(keeps type and default of its own signature)", isinstance(result, list) and all(id(p) in pool for p in result))


# ------------------------------------------------------------------------------------- split_args_and_kwargs
def sp_setup(ctx):
    kinds_list = ["POSITIONAL_ONLY", "POSITIONAL_OR_KEYWORD", "VAR_POSITIONAL", "KEYWORD_ONLY", "VAR_KEYWORD"]
    n = ctx.choose(4, "n")
    params = [P(f"p{i}", kinds_list[ctx.choose(5, f"kind[{i}]")]) for i in range(n)]
    return Setup(env={"params": list(params)}, consts={"kinds": KINDS}, data=dict(params=params))


def sp_post(ctx, st, result):
    params = st.data["params"]
    ok = isinstance(result, tuple) and len(result) == 2
    ctx.oblige("post", "returns-a-pair", ok)
    if ok:
        a, k = result
        ctx.oblige("post", "args==positional-only-in-order", [id(p) for p in a] == [id(p) for p in params if p.attrs["kind"] == "POSITIONAL_ONLY"])
        ctx.oblige("post", "kwargs==keyword-capable-in-order", [id(p) for p in k] == [id(p) for p in params if p.attrs["kind"] in ("KEYWORD_ONLY", "POSITIONAL_OR_KEYWORD")])


UNITS = [
    Unit("C13", MOD + ":remove_given_parameters", rg_setup, rg_post, no_exc, max_paths=20000),
    Unit("C13", MOD + ":replace_args_and_kwargs", ra_setup, ra_post, no_exc, max_paths=20000),
    Unit("C13", MOD + ":split_args_and_kwargs", sp_setup, sp_post, no_exc, max_paths=20000),
]
VERIFIED_CALLEES = ("ast_get_call_positional_indexes", "ast_get_call_keyword_names", "get_arg_kind_index")
LEVEL = "other"
TECHNIQUE = "contract-based verification of the list-algebra helpers (complete case analysis of small shapes through the real AST) + bounded comparison of the resolver with the interpreter on generated source files"
LEVEL_TEXT = "The AST resolver proper is a static analysis of the user's source: its soundness is compared with the interpreter by the bounded harness (about 1300 generated programs written to real files, incl. resolution histories). Verified are the helpers that implement the clauses: get_signature_parameters (resolver order; a failing or not-applying resolver hands over), remove_given_parameters (hard-coded positions and keywords are not offered), replace_args_and_kwargs (no duplicate names), split_args_and_kwargs, group_parameters (a parameter accepted by every forwarding use with one type and at most one default keeps them - required stays required -, otherwise conditional with exactly the defaults of its uses; 8400 use patterns), and the MRO cursor: ast_is_supported_super_call (super(X, self) moves the cursor to X's absolute position), get_mro_parameters (next class that defines the method itself), mro_context (cursor restored on every exit). Verified too is the dispatcher of the AST resolver by contract of the analyses it calls: get_parameters (the body is analysed only for a signature with *args/**kwargs, under the MRO cursor of the parent), get_parameters_args_and_kwargs (what each use of **kwargs contributes - pop/get, super() call, call of a known component, self.attr = kwargs - and that forms not understood contribute nothing; a name hard-coded by a forwarding use is not offered), get_kwargs_pop_or_get_parameter, get_parameters_call_attr, add_node_origins; get_mro_parameters for multiple inheritance (a class inherits along its own bases); remove_given_parameters with ** anywhere among the keywords."
LEVEL_NOTE = "under construction"
EXPLANATION = "under construction"
ASSUMPTIONS = []
TRUSTED = []
BOUNDED = [{"name": "resolver-vs-interpreter-on-generated-programs", "script": "bounded/b13_kwargs_resolver.py"}]


# ------------------------------------------------------------------------------------------------ group_parameters
# **kwargs used in several places: a name keeps the (type, default) of the signature it comes from when every use that forwards
# **kwargs accepts it with one type and at most one default - in particular a parameter required everywhere stays required;
# otherwise it is offered as conditional, listing the defaults of its uses (and NOT_ACCEPTED when some use does not take it).
EMPTY13 = Rec("inspect._empty")
POPGET = "**.pop|get():"


def gp_setup(ctx):
    from pyvc.engine import ClassRef
    n_lists = 2 + ctx.choose(2, "uses-of-kwargs")
    popget = [ctx.choose(2, f"use{i}-is-a-kwargs.pop/get") == 1 for i in range(n_lists)]
    occ = []
    for i in range(n_lists):
        occ.append(["absent", "required", "default-1", "default-2"][ctx.choose(4, f"p-in-use{i}")])
    types = [["untyped", "int", "str"][ctx.choose(3, f"type-in-use{i}")] if occ[i] != "absent" else None for i in range(n_lists)]
    d1, d2 = z3.Int("default1"), z3.Int("default2")
    ctx.assume(d1 != d2)
    tmap = {"untyped": EMPTY13, "int": ClassRef("int"), "str": ClassRef("str")}
    lists, ps = [], []
    for i in range(n_lists):
        origin = (POPGET + f"use{i}") if popget[i] else f"use{i}"
        lst = [Rec("ParamData", attrs={"name": f"own{i}", "kind": "KEYWORD_ONLY", "annotation": ClassRef("int"), "default": z3.Int(f"own{i}.default"), "origin": origin, "parent": f"P{i}", "component": f"C{i}", "doc": None})]
        if occ[i] != "absent":
            p = Rec("ParamData", attrs={"name": "p", "kind": "POSITIONAL_OR_KEYWORD", "annotation": tmap[types[i]], "default": {"required": EMPTY13, "default-1": d1, "default-2": d2}[occ[i]],
                                        "origin": origin, "parent": f"P{i}", "component": f"C{i}", "doc": f"doc{i}" if i else None})
            lst.append(p)
            ps.append(p)
        lst.append(Rec("ParamData", attrs={"name": f"posonly{i}", "kind": "POSITIONAL_ONLY", "annotation": EMPTY13, "default": EMPTY13, "origin": origin, "parent": None, "component": None, "doc": None}))
        lists.append(lst)
    snapshot = {id(p): dict(p.attrs) for p in ps}

    def unique(c, a, k):
        out = []
        for x in a[0]:
            if not any(x is y or (isinstance(x, ClassRef) and isinstance(y, ClassRef) and x.name == y.name) for y in out):
                out.append(x)
        return out

    consts = {"param_kwargs_pop_or_get": POPGET, "kinds": Rec("kinds", attrs={k: k for k in ("POSITIONAL_ONLY", "POSITIONAL_OR_KEYWORD", "VAR_POSITIONAL", "KEYWORD_ONLY", "VAR_KEYWORD")}),
              "inspect": Rec("inspect", attrs={"_empty": EMPTY13}), "Union": Rec("typing.Union", methods={"__getitem__": lambda c, s_, a, k: Rec("Union[...]", attrs={"args": a[0]})})}
    import collections
    calls = {"unique": unique, "defaultdict": lambda c, a, k: collections.defaultdict(list), "ConditionalDefault": lambda c, a, k: Rec("ConditionalDefault", attrs={"resolver": a[0], "data": list(a[1])})}
    return Setup(env={"params_list": lists}, calls=calls, consts=consts, data=dict(n=n_lists, popget=popget, occ=occ, types=types, ps=ps, d1=d1, d2=d2, lists=lists, snapshot=snapshot, tmap=tmap))


def gp_post(ctx, st, result):
    d = st.data
    tag = f"[uses:{['pop/get' if x else 'forward' for x in d['popget']]},p:{d['occ']},types:{d['types']}]"
    names = [p.attrs["name"] for p in result] if isinstance(result, list) else None
    want_names = []
    for i in range(d["n"]):
        for p in d["lists"][i]:
            if p.attrs["kind"] != "POSITIONAL_ONLY" and p.attrs["name"] not in want_names:
                want_names.append(p.attrs["name"])
    ctx.oblige("post", "every-name-of-any-use(positional-only excluded)-is-offered-exactly-once,in-order-of-first-appearance" + tag, names == want_names)
    if names != want_names or not d["ps"]:
        return
    g = next(p for p in result if p.attrs["name"] == "p")
    first = d["snapshot"][id(d["ps"][0])]
    forwards = sum(1 for x in d["popget"] if not x)
    distinct_defaults = []
    for p in d["ps"]:
        dv = d["snapshot"][id(p)]["default"]
        if dv is not EMPTY13 and not any(dv is x for x in distinct_defaults):
            distinct_defaults.append(dv)
    distinct_types = []
    for p in d["ps"]:
        tv = d["snapshot"][id(p)]["annotation"]
        if tv is not EMPTY13 and not any(getattr(tv, "name", tv) == getattr(x, "name", x) for x in distinct_types):
            distinct_types.append(tv)
    unconditional = len(d["ps"]) >= forwards and len(distinct_types) <= 1 and len(distinct_defaults) <= 1
    if unconditional:
        ctx.oblige("post", "accepted-by-every-forwarding-use-with-one-type-and-at-most-one-default=>keeps-the-type-and-default-of-the-signature-it-comes-from(required stays required)" + tag,
                   g is d["ps"][0] and g.attrs["default"] is first["default"] and g.attrs["annotation"] is first["annotation"] and g.attrs["origin"] is None)
    else:
        dflt = g.attrs["default"]
        data = dflt.attrs["data"] if isinstance(dflt, Rec) and dflt.cls == "ConditionalDefault" else None
        want = list(distinct_defaults) + (["NOT_ACCEPTED"] if len(d["ps"]) < forwards else [])
        ctx.oblige("post", "otherwise-conditional:the-default-lists-exactly-the-defaults-of-its-uses(+NOT_ACCEPTED when some forwarding use does not take it)" + tag,
                   data is not None and len(data) == len(want) and all(x is y or x == y for x, y in zip(data, want)) and isinstance(g.attrs["origin"], tuple) and len(g.attrs["origin"]) == len(d["ps"]))
        if len(distinct_types) > 1:
            ctx.oblige("post", "several-types=>the-union-of-them" + tag, isinstance(g.attrs["annotation"], Rec) and g.attrs["annotation"].cls == "Union[...]" and len(g.attrs["annotation"].attrs["args"]) == len(distinct_types))
        else:
            ctx.oblige("post", "one-type=>kept" + tag, g.attrs["annotation"] is first["annotation"])
    own = [p for p in result if p.attrs["name"].startswith("own")]
    ctx.oblige("post", "a-name-that-only-one-use-takes-is-conditional-iff-other-forwarding-uses-exist" + tag,
               all((p.attrs["origin"] is None) == (1 >= forwards) for p in own))


def gp_raises(ctx, st, exc):
    ctx.oblige("raises", f"never-raises(got {exc.cls}@{exc.origin})", False)


UNITS.append(Unit("C13", "jsonargparse._parameter_resolvers:group_parameters", gp_setup, gp_post, gp_raises, max_paths=100000, split=2,
                  trusted=["unique(): distinct items in order of first appearance", "ConditionalDefault(resolver, defaults) only records the defaults"]))


# ------------------------------------------------------------------------------------------------ MRO cursor: ast_is_supported_super_call / get_mro_parameters / mro_context
# Which class a super().__init__(**kwargs) reaches is decided by a cursor (classes, idx) into the MRO of the class being resolved:
#   super()                 -> the next class after the cursor that defines the method itself
#   super(X, self)          -> the cursor moves to X (searched from the cursor onwards), so the next class is the one after X
def mro_classes():
    obj_init = Rec("object.__init__")
    defs = {}
    classes = [Rec(f"class K{i}", attrs={"__name__": f"K{i}"}) for i in range(4)]
    return classes, obj_init, defs


class Cursor:
    def __init__(self, value):
        self.value = value
        self.sets = 0

    def rec(self):
        return Rec("ContextVar current_mro", methods={"get": lambda c, s_, a, k: self.value, "set": lambda c, s_, a, k: self._set(a[0]), "reset": lambda c, s_, a, k: self._reset(a[0])})

    def _set(self, v):
        tok = Rec("Token", attrs={"old": self.value})
        self.value = v
        self.sets += 1
        return tok

    def _reset(self, tok):
        self.value = tok.attrs["old"]


def ssc_setup(ctx):
    classes, _, _ = mro_classes()
    idx = ctx.choose(3, "cursor")
    form = ["super()", "super(X, self)", "super(X, other)", "super(X)", "super(X, self, kw=1)", "super(f(), self)"][ctx.choose(6, "form")]
    xpos = ["at-cursor", "after-cursor", "last", "before-cursor", "not-in-the-mro", "name-shadowed-in-the-module"][ctx.choose(6, "X")] if form == "super(X, self)" else "after-cursor"
    pos = {"at-cursor": idx, "after-cursor": idx + 1, "last": 3, "before-cursor": idx - 1, "not-in-the-mro": None, "name-shadowed-in-the-module": idx + 1}[xpos]
    if pos is not None and pos < 0:
        pos, xpos = None, "not-in-the-mro"
    xname = classes[pos].attrs["__name__"] if pos is not None else "Foreign"
    module = Rec("module", attrs={c.attrs["__name__"]: c for c in classes})
    if xpos == "name-shadowed-in-the-module":
        module.attrs[xname] = Rec("another object with that name")
    ctx.classes.add("Name", ["object"])
    ctx.classes.add("Call", ["object"])
    name = lambda s: Rec("Name", attrs={"id": s})  # noqa: E731
    args = {"super()": [], "super(X, self)": [name(xname), name("self")], "super(X, other)": [name(xname), name("other")], "super(X)": [name(xname)],
            "super(X, self, kw=1)": [name(xname), name("self")], "super(f(), self)": [Rec("Call"), name("self")]}[form]
    keywords = [Rec("keyword")] if form == "super(X, self, kw=1)" else []
    node = Rec("Call", attrs={"func": Rec("Attribute", attrs={"value": Rec("Call", attrs={"args": args, "keywords": keywords})})})
    cur = Cursor((classes, idx))
    logged = []
    from pyvc.engine import ClassRef as CR, Fn
    consts = {"current_mro": cur.rec(), "ast": Rec("module ast", attrs={"Name": CR("Name")})}
    calls = {"inspect.getmodule": lambda c, a, k: module, "ast_str": lambda c, a, k: "super(...)"}
    return Setup(env={"node": node, "self_name": "self", "log_debug": Fn(lambda c, a, k: logged.append(a[0]), "log_debug")}, calls=calls, consts=consts,
                 data=dict(classes=classes, idx=idx, form=form, xpos=xpos, pos=pos, cur=cur, logged=logged))


def ssc_post(ctx, st, result):
    d = st.data
    tag = f"[{d['form']},X:{d['xpos']},cursor:{d['idx']}]"
    cur = d["cur"].value
    if d["form"] == "super()":
        ctx.oblige("post", "plain-super()-is-supported-and-leaves-the-cursor-where-it-is" + tag, result is True and cur[0] is d["classes"] and cur[1] == d["idx"] and d["cur"].sets == 0)
        return
    supported = d["form"] == "super(X, self)" and d["xpos"] in ("at-cursor", "after-cursor", "last")
    ctx.oblige("post", "super(X, self)-is-supported-iff-X-is-a-class-of-the-MRO-at-or-after-the-cursor(the very class the module exposes under that name)" + tag, result is supported)
    if supported:
        ctx.oblige("post", "the-cursor-moves-to-X(an absolute position in the MRO):the-next-class-is-the-one-after-X" + tag, cur[0] is d["classes"] and cur[1] == d["pos"])
    else:
        ctx.oblige("post", "an-unsupported-call-leaves-the-cursor-alone-and-is-logged" + tag, cur[1] == d["idx"] and d["cur"].sets == 0 and len(d["logged"]) == 1)


def never13(ctx, st, exc):
    ctx.oblige("raises", f"never-raises(got {exc.cls}@{exc.origin})", False)


UNITS.append(Unit("C13", "jsonargparse._parameter_resolvers:ast_is_supported_super_call", ssc_setup, ssc_post, never13, max_paths=5000,
                  trusted=["inspect.getmodule(cls) is the module that defines the class; ast node shapes as produced by ast.parse"]))


def gmp_setup(ctx):
    classes, obj_init, _ = mro_classes()
    idx = ctx.choose(4, "cursor")
    # which classes define the method themselves (others inherit it from the next definer, at the end from object)
    defines = [ctx.choose(2, f"K{i}-defines-the-method") == 1 for i in range(4)]
    method_is_init = ctx.choose(2, "method") == 0
    # the list is the MRO of the class being resolved; a class that does not define the method inherits it along *its own* bases, which are
    # a sub-sequence of the classes after it (multiple inheritance: not necessarily the very next class of this list)
    meths = [None] * 4
    inherits = {}
    for i in reversed(range(4)):
        if defines[i]:
            meths[i] = Rec(f"K{i}.method")
        else:
            later = [j for j in range(i + 1, 4) if defines[j]]
            pick = ctx.choose(len(later) + 1, f"K{i}-inherits-it-from") if later else 0
            inherits[i] = later[pick] if pick < len(later) else None
            meths[i] = meths[later[pick]] if pick < len(later) else (obj_init if method_is_init else None)
    mname = "__init__" if method_is_init else "setup"
    for c, m in zip(classes, meths):
        if m is not None:
            c.attrs[mname] = m
    cur = Cursor((classes, idx))
    params = Rec("parameters of the class found")

    def get_parameters_fn(c, a, k):
        c.event("get-parameters", a[0], a[1], k.get("logger"))
        return params

    from pyvc.engine import Fn
    logger = Rec("logger")
    consts = {"current_mro": cur.rec(), "object": Rec("class object", attrs={"__init__": obj_init})}
    return Setup(env={"method_name": mname, "get_parameters_fn": Fn(get_parameters_fn, "get_parameters_fn"), "logger": logger}, consts=consts,
                 data=dict(classes=classes, idx=idx, defines=defines, meths=meths, cur=cur, params=params, logger=logger, method_is_init=method_is_init, inherits=inherits))


def gmp_post(ctx, st, result):
    d = st.data
    tag = f"[cursor:{d['idx']},definers:{[i for i in range(4) if d['defines'][i]]},inherited-from:{d['inherits']},{'__init__' if d['method_is_init'] else 'other method'}]"
    nxt = next((i for i in range(d["idx"] + 1, 4) if d["defines"][i]), None)
    ev = [e for e in ctx.events if e[0] == "get-parameters"]
    if nxt is None:
        ctx.oblige("post", "no-class-after-the-cursor-defines-the-method=>no-parameters,cursor-unchanged" + tag, result == [] and not ev and d["cur"].value[1] == d["idx"])
    else:
        ctx.oblige("post", "the-parameters-are-those-of-the-next-class-after-the-cursor-that-defines-the-method-itself(inherited definitions are skipped)" + tag,
                   result is d["params"] and len(ev) == 1 and ev[0][1] is d["classes"][nxt] and ev[0][2] is d["meths"][nxt] and ev[0][3] is d["logger"])
        ctx.oblige("post", "the-cursor-moves-to-that-class(so that its own super() continues from there)" + tag, d["cur"].value[0] is d["classes"] and d["cur"].value[1] == nxt)


UNITS.append(Unit("C13", "jsonargparse._parameter_resolvers:get_mro_parameters", gmp_setup, gmp_post, never13, max_paths=5000,
                  trusted=["getattr(cls, name) returns the class's own definition, else the one of the first definer among its own bases (a sub-sequence of the later classes; object's for __init__)"]))


def mc_setup(ctx):
    classes, _, _ = mro_classes()
    state = ["no-cursor-yet", "cursor-at-parent", "cursor-at-another-class", "no-parent"][ctx.choose(4, "state")]
    parent = None if state == "no-parent" else classes[0]
    other = [Rec("class Other"), classes[0]]
    init = {"no-cursor-yet": (None, None), "cursor-at-parent": (classes, 0), "cursor-at-another-class": (other, 0), "no-parent": (classes, 1)}[state]
    cur = Cursor(init)
    obj = Rec("class object")

    def at_yield(ctx_, interp, value, e):
        v = cur.value
        if state in ("no-cursor-yet", "cursor-at-another-class"):
            ctx_.oblige("yield", f"inside-the-body:the-cursor-is-at-the-start-of-the-parent's-MRO(without object)[{state}]", isinstance(v[0], list) and len(v[0]) == 4 and all(a is b for a, b in zip(v[0], classes)) and v[1] == 0)
        else:
            ctx_.oblige("yield", f"inside-the-body:a-cursor-that-already-stands-at-the-parent(or no parent)-is-kept[{state}]", v is init)

    calls = {"inspect.getmro": lambda c, a, k: tuple(classes) + (obj,)}
    return Setup(env={"parent": parent}, calls=calls, consts={"current_mro": cur.rec(), "object": obj}, hooks={"yield": at_yield}, data=dict(cur=cur, init=init, state=state))


def mc_post(ctx, st, result):
    d = st.data
    ctx.oblige("post", f"normal-exit:the-cursor-is-what-it-was-before[{d['state']}]", d["cur"].value is d["init"])


def mc_raises(ctx, st, exc):
    d = st.data
    if exc.cls == "<Any>":
        ctx.oblige("post", f"exception-from-the-body:the-cursor-is-what-it-was-before[{d['state']}]", d["cur"].value is d["init"])
    else:
        ctx.oblige("raises", f"no-own-exception(got {exc.cls}@{exc.origin})", False)


UNITS.append(Unit("C13", "jsonargparse._parameter_resolvers:mro_context", mc_setup, mc_post, mc_raises, expect_cover=("return", "raise:<Any>"),
                  trusted=["ContextVar get/set/reset with a token; inspect.getmro(parent) ends with object"]))


# ------------------------------------------------------------------------------------------------ get_signature_parameters (resolver order)
def gsp_setup(ctx):
    from pyvc.engine import ExcVal, PyRaise, Fn
    # each resolver: returns a list, returns None (does not apply), or raises
    fates = []
    names = ["get_parameters_from_pydantic_or_attrs", "get_parameters_from_ast", "get_parameters_from_stubs", "get_parameters_by_assumptions"]
    for nm in names:
        fates.append(["None", "params", "empty-list", "raises"][ctx.choose(4, nm)])
    results = {nm: [Rec(f"param from {nm}")] for nm in names}
    comp, logger = Rec("component"), Rec("logger", methods={"debug": lambda c, s_, a, k: c.event("logged", a[1] if len(a) > 1 else None)})

    def mk(nm, fate):
        def fn(c, a, k):
            c.event("resolver", nm, a[0], a[1], a[2])
            if fate == "raises":
                raise PyRaise(ExcVal("ValueError", args=("cannot resolve",), origin=nm))
            return {"None": None, "params": results[nm], "empty-list": []}[fate]
        return Fn(fn, nm)

    fns = {nm: mk(nm, f) for nm, f in zip(names, fates)}
    for nm in names:
        fns[nm].__name__ = nm
    consts = {nm: Rec(nm, attrs={"__name__": nm}, methods={"__call__": (lambda c, s_, a, k, _f=fns[nm]: _f.fn(c, a, k))}) for nm in names}

    def symcall(c, f, a, k):
        if isinstance(f, Rec) and "__call__" in f.methods:
            return f.methods["__call__"](c, f, a, k)
        return NotImplemented

    calls = {"get_component_and_parent": lambda c, a, k: c.event("input-verified", a[0], a[1]), "parse_logger": lambda c, a, k: logger}
    return Setup(env={"function_or_class": comp, "method_or_property": "run", "logger": True}, calls=calls, consts=consts, symcall=symcall,
                 data=dict(fates=fates, names=names, results=results, comp=comp, logger=logger))


def gsp_post(ctx, st, result):
    d = st.data
    tag = f"[{d['fates']}]"
    called = [e[1] for e in ctx.events if e[0] == "resolver"]
    # the first resolver that gives an answer (a list, possibly empty) decides; one that does not apply (None) or fails hands over to the next
    first = next((i for i, f in enumerate(d["fates"]) if f in ("params", "empty-list")), None)
    want_called = d["names"][: (first + 1) if first is not None else 4]
    ctx.oblige("post", "the-resolvers-are-tried-in-the-documented-order(pydantic/attrs, AST, stubs, assumptions)-until-one-answers;a-failing-one-is-logged-and-skipped" + tag, called == want_called)
    want = d["results"][d["names"][first]] if first is not None and d["fates"][first] == "params" else []
    ctx.oblige("post", "the-parameters-are-those-of-the-first-resolver-that-answers(none when nobody does)" + tag, (result is want) if want else result == [])
    ctx.oblige("post", "every-resolver-gets-the-component,the-method-and-the-logger" + tag, all(e[2] is d["comp"] and e[3] == "run" and e[4] is d["logger"] for e in ctx.events if e[0] == "resolver"))
    ctx.oblige("post", "the-input-is-verified-first" + tag, ctx.events[0][0] == "input-verified")


UNITS.append(Unit("C13", "jsonargparse._parameter_resolvers:get_signature_parameters", gsp_setup, gsp_post, never13, max_paths=5000,
                  trusted=["the four resolvers by contract: a list of parameters, None when they do not apply, or an exception (AST resolver: the other units of this property and the harness)"]))


# ------------------------------------------------------------------------------------------------ ParametersVisitor.get_parameters_args_and_kwargs
# The dispatcher of the AST resolver: every place where the function's **kwargs is used contributes the parameters that this use
# accepts - a kwargs.pop / kwargs.get names one parameter; a forwarding call contributes the parameters of what it calls (for
# super().m(**kwargs): of the next class in the MRO that defines m; otherwise of the component the call denotes) minus those the call
# hard-codes; `self.x = kwargs` contributes the parameters of the places where self.x is used - and forms that are not understood
# (kwargs given as a keyword argument, an unsupported super() call, a callee that cannot be determined, another kind of assignment)
# contribute nothing.  The contributions are grouped in the order of the uses; a name that some forwarding use hard-codes is not offered.
USES = ["pop-or-get", "super-call", "unsupported-super-call", "call-of-a-known-component", "call-of-an-unknown-callee", "kwargs-as-a-keyword-argument", "self.attr=kwargs", "other-assignment"]


def gpak_setup(ctx):
    n_uses = ctx.choose(3, "number-of-uses")
    has_kwargs = ctx.choose(2, "function-has-**kwargs") == 1 if n_uses == 0 else True
    has_parent = ctx.choose(2, "inside-a-class") == 1
    uses = []
    for i in range(n_uses):
        kind = USES[ctx.choose(len(USES), f"use{i}")]
        hard = ctx.choose(2, f"use{i}-hard-codes-h") == 1 if kind in ("super-call", "call-of-a-known-component") else False
        # the callee may have no parameter but the hard-coded one: the use then contributes nothing, yet the name is still hard-coded (another use must not offer it)
        only_h = ctx.choose(2, f"use{i}-callee-accepts-only-h") == 1 if (kind == "call-of-a-known-component" and hard) else False
        node = Rec("Call" if "assign" not in kind and "attr" not in kind else "Assign", attrs={"kind": kind, "hard": hard, "only_h": only_h, "i": i, "func": Rec("Attribute", attrs={"attr": "__init__"})})
        uses.append((kind, hard, node, Rec(f"source{i}")))
    for n in ("Call", "Assign", "AnnAssign"):
        ctx.classes.add(n, [])
    kw_load = Rec("Name(kwargs, Load)")
    comp_node = Rec("FunctionDef", attrs={"args": Rec("arguments", attrs={"vararg": None, "kwarg": Rec("arg", attrs={"arg": "kwargs"}) if has_kwargs else None})})
    logger = Rec("logger")
    gsp = Rec("get_signature_parameters")
    self = Rec("ParametersVisitor", attrs={"component_node": comp_node, "component": Rec("component"), "parent": Rec("parent class") if has_parent else None, "doc_params": Rec("doc_params"),
                                          "self_name": "self", "logger": logger})
    produced = {}

    def params_for(i, names):
        produced[i] = [P(f"{n}") for n in names]
        return list(produced[i])

    self.methods.update({
        "parse_source_tree": lambda c, s_, a, k: c.event("parse_source_tree"),
        "find_values_usage": lambda c, s_, a, k: (c.event("find", dict(a[0])), [("kwargs", node, src) for _, _, node, src in uses])[1],
        "get_kwargs_pop_or_get_parameter": lambda c, s_, a, k: (c.event("pop-param", a[0], a[1], a[2], a[3]), params_for(a[0].attrs["i"], ["popped%d" % a[0].attrs["i"]])[0])[1],
        "get_node_component": lambda c, s_, a, k: (c.event("node-component", a[0], a[1]), (("component-of", a[0].attrs["i"]),) if a[0].attrs["kind"] == "call-of-a-known-component" else None)[1],
        "add_node_origins": lambda c, s_, a, k: c.event("origins", list(a[0]), a[1]),
        "get_parameters_attr_use_in_members": lambda c, s_, a, k: (c.event("attr-use", a[0]), params_for(("attr", a[0]), ["a1", "a2"]))[1],
        "log_debug": lambda c, s_, a, k: None,
        # (its own unit) Class.method(instance, ...) of a known class: the first positional is the instance
        "is_unbound_method_call": lambda c, s_, a, k: (c.event("unbound?", a[0], a[1:]), a[0].attrs["i"] % 2 == 1)[1],
    })

    def remove_given(c, a, k):
        node, params, removed = a[:3]
        c.event("remove-given", node, list(params), removed)
        c.event("instance-flag", node, a[3] if len(a) > 3 else k.get("instance_given", False))
        if node.attrs["hard"] and any(p.attrs["name"] == "h" for p in params):
            removed.add("h")  # (its own unit: only names actually taken out of the list are recorded)
            return [p for p in params if p.attrs["name"] != "h"]
        return list(params)

    grouped_in = []

    def group(c, a, k):
        grouped_in.append([list(x) for x in a[0]])
        out = []
        for lst in a[0]:
            for p in lst:
                if p.attrs["name"] not in [q.attrs["name"] for q in out]:
                    out.append(p)
        return out

    calls = {"ast_variable_load": lambda c, a, k: kw_load, "ast.dump": lambda c, a, k: ("dump", a[0]),
             "ast_is_kwargs_pop_or_get": lambda c, a, k: a[0].attrs["kind"] == "pop-or-get" and a[1] == ("dump", kw_load),
             "ast_get_call_kwarg_with_value": lambda c, a, k: Rec("keyword", attrs={"arg": "cfg" if a[0].attrs["kind"] == "kwargs-as-a-keyword-argument" else None}),
             "ast_is_super_call": lambda c, a, k: a[0].attrs["kind"] in ("super-call", "unsupported-super-call"),
             "ast_is_supported_super_call": lambda c, a, k: a[0].attrs["kind"] == "super-call",
             "get_mro_parameters": lambda c, a, k: (c.event("mro", a[0], a[1], a[2]), params_for(("mro", len(produced)), ["m1", "h"]))[1],
             "get_signature_parameters": lambda c, a, k: (c.event("signature", list(a), k.get("logger")), params_for(("sig", len(produced)), ["h"] if (isinstance(a[0], tuple) and uses[a[0][1]][2].attrs["only_h"]) else ["c1", "h"]))[1],
             "remove_given_parameters": remove_given, "ast_is_attr_assign": lambda c, a, k: "stored" if a[0].attrs["kind"] == "self.attr=kwargs" else False,
             "group_parameters": group, "split_args_and_kwargs": lambda c, a, k: ("split", list(a[0]))}
    consts = {"ast": Rec("module ast", attrs={"Call": ClassRef("Call")}), "ast_assign_type": (ClassRef("Assign"), ClassRef("AnnAssign")), "get_signature_parameters": gsp}
    # `get_signature_parameters` is both called and handed over as a value (to get_mro_parameters)
    return Setup(env={"self": self}, calls=calls, consts=consts, data=dict(uses=uses, has_kwargs=has_kwargs, has_parent=has_parent, self_=self, grouped_in=grouped_in, produced=produced, gsp=gsp, logger=logger))


def gpak_post(ctx, st, result):
    d = st.data
    ev = ctx.events
    flags = {id(e[1]): e[2] for e in ev if e[0] == "instance-flag"}
    asked = {id(e[1]) for e in ev if e[0] == "unbound?"}
    known = [node for kind, _, node, _ in d["uses"] if kind == "call-of-a-known-component"]
    ctx.oblige("post", "for-a-call-of-a-known-component-the-hard-coded-positions-are-counted-after-the-instance-exactly-when-it-is-Class.method(instance, ...);for-super()-calls-never",
               all(id(n) in asked and flags.get(id(n)) is (n.attrs["i"] % 2 == 1) for n in known) and all(not f for i, f in flags.items() if i not in {id(n) for n in known}))
    tag = "[" + ",".join(f"{k}{'+h' if h else ''}" for k, h, _, _ in d["uses"]) + f";{'method' if d['has_parent'] else 'function'}]"
    if not d["uses"]:
        ctx.oblige("post", "**kwargs-is-not-used-anywhere(or there is none)=>nothing-is-offered" + tag, result == ([], []))
        return
    # the contribution expected from each use
    want, removed, origins = [], set(), []
    for kind, hard, node, src in d["uses"]:
        names = None
        if kind == "pop-or-get":
            want.append(["popped%d" % node.attrs["i"]])
            continue
        if kind == "super-call":
            names = ["m1", "h"] if d["has_parent"] else None   # outside a class a super() call is an ordinary call of an unknown callee
        elif kind == "call-of-a-known-component":
            names = ["h"] if node.attrs["only_h"] else ["c1", "h"]
        elif kind == "self.attr=kwargs":
            if d["has_parent"]:
                want.append(["a1", "a2"])
                origins.append(node)
            continue
        elif kind in ("other-assignment",):
            continue
        if names is not None:
            if hard:
                names = [n for n in names if n != "h"]
                removed.add("h")
            if names:
                want.append(names)
                origins.append(node)
    got = [[p.attrs["name"] for p in lst] for lst in (d["grouped_in"][0] if d["grouped_in"] else [])]
    ctx.oblige("post", "every-use-contributes-what-it-accepts,in-the-order-of-the-uses:pop/get->that-name;forwarding-call->the-callee's-parameters(next definer in the MRO for super(), the denoted component otherwise)-minus-what-the-call-hard-codes;self.attr=kwargs->the-uses-of-the-attribute;forms-not-understood->nothing" + tag,
               len(d["grouped_in"]) == 1 and got == want, note=f"want {want}, got {got}")
    flat = []
    for lst in want:
        for n in lst:
            if n not in flat:
                flat.append(n)
    final = [n for n in flat if n not in removed]
    ok = isinstance(result, tuple) and len(result) == 2 and result[0] == "split" and [p.attrs["name"] for p in result[1]] == final
    ctx.oblige("post", "the-result-is-the-grouped-parameters-without-any-name-that-a-forwarding-use-hard-codes(it would be passed twice when that use runs),split-into-positional-and-keyword" + tag, ok,
               note=f"want {final}")
    og = [e[2] for e in ev if e[0] == "origins"]
    ctx.oblige("post", "each-contribution-of-a-call-or-assignment-is-marked-with-the-node-it-came-from" + tag, len(og) == len(origins) and all(x is y for x, y in zip(og, origins)))
    mro = [e for e in ev if e[0] == "mro"]
    ctx.oblige("post", "a-super()-call-is-resolved-along-the-MRO-with(the called method's name,the signature resolver,the logger)" + tag,
               all(e[1] == "__init__" and e[2] is d["gsp"] and e[3] is d["logger"] for e in mro) and len(mro) == (len([1 for k, _, _, _ in d["uses"] if k == "super-call"]) if d["has_parent"] else 0))
    sig = [e for e in ev if e[0] == "signature"]
    ctx.oblige("post", "a-known-component-is-resolved-with-the-arguments-get_node_component-returned-and-the-logger" + tag,
               all(len(e[1]) == 1 and e[1][0][0] == "component-of" and e[2] is d["logger"] for e in sig) and len(sig) == len([1 for k, _, _, _ in d["uses"] if k == "call-of-a-known-component"]))


def um_setup(ctx):
    form = ["K.m(inst, ..)", "K.m(*a, ..)", "K.m()", "self.m(x)", "f(x)", "obj.attr.m(x)"][ctx.choose(6, "call-form")]
    member = ["instance-method", "staticmethod", "classmethod", "missing"][ctx.choose(4, "member-kind")]
    target = ["class", "function"][ctx.choose(2, "resolved-to")]
    with_method = ctx.choose(2, "method-name-known") == 1
    ctx.classes.add("Name", []); ctx.classes.add("Attribute", []); ctx.classes.add("Starred", []); ctx.classes.add("Call", [])
    name = lambda i: Rec("Name", attrs={"id": i})  # noqa: E731
    func = {"K.m(inst, ..)": Rec("Attribute", attrs={"value": name("K"), "attr": "m"}), "K.m(*a, ..)": Rec("Attribute", attrs={"value": name("K"), "attr": "m"}), "K.m()": Rec("Attribute", attrs={"value": name("K"), "attr": "m"}),
            "self.m(x)": Rec("Attribute", attrs={"value": name("self"), "attr": "m"}), "f(x)": name("f"), "obj.attr.m(x)": Rec("Attribute", attrs={"value": Rec("Attribute", attrs={"value": name("obj"), "attr": "attr"}), "attr": "m"})}[form]
    args = {"K.m(inst, ..)": [name("inst"), name("x")], "K.m(*a, ..)": [Rec("Starred")], "K.m()": []}.get(form, [name("x")])
    node = Rec("Call", attrs={"func": func, "args": args, "keywords": []})
    comp = Rec("class K") if target == "class" else Rec("function f")
    attr = {"instance-method": Rec("function"), "staticmethod": Rec("staticmethod"), "classmethod": Rec("classmethod"), "missing": None}[member]
    calls = {"inspect.isclass": lambda c, a, k: a[0] is comp and target == "class", "inspect.getattr_static": lambda c, a, k: attr if (a[0] is comp and a[1] == "m") else (a[2] if len(a) > 2 else None),
             "is_method": lambda c, a, k: isinstance(a[0], Rec) and a[0].cls == "function"}
    consts = {"ast": Rec("module ast", attrs={"Attribute": ClassRef("Attribute"), "Name": ClassRef("Name"), "Starred": ClassRef("Starred")})}
    return Setup(env={"self": Rec("ParametersVisitor", attrs={"self_name": "self"}), "node": node, "function_or_class": comp, "method_or_property": "m" if with_method else None}, calls=calls, consts=consts,
                 data=dict(form=form, member=member, target=target, with_method=with_method))


def um_post(ctx, st, result):
    d = st.data
    want = d["form"] == "K.m(inst, ..)" and d["member"] == "instance-method" and d["target"] == "class" and d["with_method"]
    ctx.oblige("post", f"the-instance-is-handed-over-explicitly-iff:a-known-class's-instance-method-called-through-the-class-name-with-a-plain-first-positional[{d['form']},{d['member']},{d['target']},method={d['with_method']}]", result is want or result == want)


UNITS.append(Unit("C13", MOD + ":ParametersVisitor.is_unbound_method_call", um_setup, um_post, never13, trusted=["inspect.isclass / inspect.getattr_static; is_method: its own unit (r2_resolver)"]))
UNITS.append(Unit("C13", MOD + ":ParametersVisitor.get_parameters_args_and_kwargs", gpak_setup, gpak_post, never13, max_paths=60000, expect_cover=("return",),
                  trusted=["find_values_usage lists the uses of *args / **kwargs in the function body in source order (static analysis; harness)", "get_mro_parameters, remove_given_parameters, group_parameters, split_args_and_kwargs, get_signature_parameters: their own units",
                           "get_node_component / get_parameters_attr_use_in_members / get_kwargs_pop_or_get_parameter by contract (the latter: its own unit)", "ast_is_* helpers classify the node shapes as their names say"]))


# ------------------------------------------------------------------------------------------------ ParametersVisitor.get_kwargs_pop_or_get_parameter
def pg_setup(ctx):
    dk = ["constant", "empty-literal(dict()/list()/...)", "expression"][ctx.choose(3, "default-expression")]
    name_node, dflt_node = Rec("Constant", attrs={"value": "size"}), Rec("default node", attrs={"kind": dk})
    node = Rec("Call", attrs={"args": [name_node, dflt_node]})
    literal_value = Rec("fresh empty container")
    unknown = []

    def unknown_default(c, a, k):
        r = Rec("UnknownDefault", attrs={"resolver": a[0] if a else k.get("resolver")})
        unknown.append(r)
        return r

    self = Rec("ParametersVisitor", methods={"log_debug": lambda c, s_, a, k: None, "get_node_origin": lambda c, s_, a, k: (c.event("origin-of", a[0]), ":L7")[1]})
    doc = Rec("doc_params", methods={"get": lambda c, s_, a, k: ("doc-of", a[0])})
    calls = {"ast_get_constant_value": lambda c, a, k: a[0].attrs["value"] if "value" in a[0].attrs else z3.Int("constant-default"),
             "ast_is_constant": lambda c, a, k: a[0].attrs.get("kind") == "constant", "ast.dump": lambda c, a, k: "dump-of-literal" if a[0].attrs["kind"].startswith("empty-literal") else "dump-of-expression",
             "UnknownDefault": unknown_default, "ParamData": lambda c, a, k: Rec("ParamData", attrs=dict(k)), "ast_str": lambda c, a, k: "text"}
    consts = {"ast_literals": {"dump-of-literal": __import__("pyvc.engine", fromlist=["Fn"]).Fn(lambda c, a, k: literal_value, "literal")}, "inspect": Rec("module inspect", attrs={"_empty": "<empty>"}),
              "kinds": KINDS, "param_kwargs_pop_or_get": "**.pop|get():"}
    comp, parent = Rec("component"), Rec("parent")
    return Setup(env={"self": self, "node": node, "component": comp, "parent": parent, "doc_params": doc}, calls=calls, consts=consts,
                 data=dict(dk=dk, node=node, comp=comp, parent=parent, literal_value=literal_value, unknown=unknown))


def pg_post(ctx, st, result):
    d = st.data
    a = result.attrs if isinstance(result, Rec) and result.cls == "ParamData" else {}
    ctx.oblige("post", f"kwargs.pop/get('size', d)-names-one-keyword-only-parameter-'size'-of-this-component-and-parent,without-annotation,documented-by-its-own-docstring-entry,origin-marked-as-pop/get-at-the-node[{d['dk']}]",
               a.get("name") == "size" and a.get("annotation") == "<empty>" and a.get("kind") == "KEYWORD_ONLY" and a.get("doc") == ("doc-of", "size") and a.get("parent") is d["parent"] and a.get("component") is d["comp"]
               and a.get("origin") == "**.pop|get():" + ":L7" and set(a) == {"name", "annotation", "default", "kind", "doc", "parent", "component", "origin"})
    dflt = a.get("default")
    if d["dk"] == "constant":
        ctx.oblige("post", "a-constant-default-is-that-constant", z3.is_expr(dflt) and str(dflt) == "constant-default")
    elif d["dk"].startswith("empty-literal"):
        ctx.oblige("post", "an-empty-container-literal-is-evaluated-to-a-fresh-container", dflt is d["literal_value"])
    else:
        ctx.oblige("post", "any-other-default-expression-is-marked-unknown(the parameter stays optional, its default is not invented)", len(d["unknown"]) == 1 and dflt is d["unknown"][0] and dflt.attrs["resolver"] == "ast-resolver")


UNITS.append(Unit("C13", MOD + ":ParametersVisitor.get_kwargs_pop_or_get_parameter", pg_setup, pg_post, never13, expect_cover=("return",),
                  trusted=["ast_get_constant_value / ast_is_constant / ast.dump read the node as their names say", "ast_literals maps the dumps of {}, [], dict(), list(), ... to constructors"]))


# ------------------------------------------------------------------------------------------------ ParametersVisitor.get_parameters / get_parameters_call_attr / get_parameters_attr_use_in_members / add_node_origins
def gp_setup(ctx):
    has_component = ctx.choose(2, "component-given") == 1
    args_idx = [-1, 0][ctx.choose(2, "signature-has-*args")] if has_component else -1
    kw = ["none", "**kwargs", "**kwargs: Unpack[TypedDict]"][ctx.choose(3, "signature-has-**kwargs")] if has_component else "none"
    sig_params = [P("x"), P("args", "VAR_POSITIONAL"), P("kwargs", "VAR_KEYWORD")]
    doc, stubs = Rec("doc_params"), Rec("stubs")
    comp, parent, logger = (Rec("component") if has_component else None), Rec("parent"), Rec("logger")
    open_cms = []
    resolved = (["resolved-args"], ["resolved-kwargs"])
    replaced, final = [P("x"), P("r1")], [P("x"), P("r1-final")]
    self = Rec("ParametersVisitor", attrs={"component": comp, "parent": parent, "logger": logger, "doc_params": None})
    self.methods.update({
        "replace_param_default_subclass_specs": lambda c, s_, a, k: c.event("default-specs", a[0]),
        "get_parameters_args_and_kwargs": lambda c, s_, a, k: (c.event("body-analysis", list(open_cms), s_.attrs["doc_params"]), resolved)[1],
        "remove_ignore_parameters": lambda c, s_, a, k: (c.event("ignore-list", a[0]), final)[1],
    })
    calls = {"get_signature_parameters_and_indexes": lambda c, a, k: (c.event("signature", list(a)), (sig_params, args_idx, 2 if kw != "none" else -1, doc, stubs))[1],
             "unpack_typed_dict_kwargs": lambda c, a, k: (c.event("unpack", a[0], a[1]), -1 if kw.endswith("TypedDict]") else a[1])[1],
             "replace_args_and_kwargs": lambda c, a, k: (c.event("replace", a[0], a[1], a[2]), replaced)[1],
             "add_stub_types": lambda c, a, k: c.event("stub-types", a[0], a[1], a[2])}
    cms = {"mro_context": (lambda c, a, k: open_cms.append(a[0]), lambda c, t, e: (open_cms.pop(), False)[1])}
    return Setup(env={"self": self}, calls=calls, cms=cms, data=dict(has_component=has_component, args_idx=args_idx, kw=kw, sig_params=sig_params, doc=doc, stubs=stubs, comp=comp, parent=parent, logger=logger,
                                                                    resolved=resolved, replaced=replaced, final=final, open_cms=open_cms, self_=self))


def gp_post(ctx, st, result):
    d = st.data
    ev = ctx.events
    tag = f"[*args:{d['args_idx'] >= 0},{d['kw']}]"
    if not d["has_component"]:
        ctx.oblige("post", "no-component=>no-parameters", result == [] and not ev)
        return
    sig = [e for e in ev if e[0] == "signature"]
    ctx.oblige("post", "the-signature-is-read-once-for(component,parent,logger)" + tag, len(sig) == 1 and sig[0][1][0] is d["comp"] and sig[0][1][1] is d["parent"] and sig[0][1][2] is d["logger"])
    needs_body = d["args_idx"] >= 0 or d["kw"] == "**kwargs"
    body = [e for e in ev if e[0] == "body-analysis"]
    rep = [e for e in ev if e[0] == "replace"]
    if needs_body:
        ctx.oblige("post", "a-signature-with-*args/**kwargs:the-body-is-analysed-once,with-the-MRO-cursor-at-the-parent-class-and-the-docstring-parameters-in-place,and-what-it-resolves-replaces-*args/**kwargs" + tag,
                   len(body) == 1 and len(body[0][1]) == 1 and body[0][1][0] is d["parent"] and body[0][2] is d["doc"] and len(rep) == 1 and rep[0][1] is d["sig_params"] and rep[0][2] is d["resolved"][0] and rep[0][3] is d["resolved"][1])
    else:
        ctx.oblige("post", "a-signature-without-*args/**kwargs(or whose **kwargs is an unpacked TypedDict)-is-taken-as-it-is:the-body-is-not-analysed" + tag, not body and not rep)
    params_then = d["replaced"] if needs_body else d["sig_params"]
    st_ = [e for e in ev if e[0] == "stub-types"]
    ig = [e for e in ev if e[0] == "ignore-list"]
    ctx.oblige("post", "then-stub-types-are-added-and-the-ignore-list-applied-to-that-list;its-result-is-returned" + tag,
               len(st_) == 1 and st_[0][1] is d["stubs"] and st_[0][2] is params_then and st_[0][3] is d["comp"] and len(ig) == 1 and ig[0][1] is params_then and result is d["final"])
    ctx.oblige("post", "defaults-that-are-class-instances-are-rewritten-on-the-signature's-parameters-first;the-MRO-cursor-is-released" + tag,
               [e[0] for e in ev][:2] == ["signature", "default-specs"] and ev[1][1] is d["sig_params"] and not d["open_cms"])
    un = [e for e in ev if e[0] == "unpack"]
    ctx.oblige("post", "a-**kwargs-annotation-is-offered-for-TypedDict-unpacking(with the list and its index)-exactly-when-there-is-a-**kwargs" + tag, (len(un) == 1 and un[0][1] is d["sig_params"] and un[0][2] == 2) if d["kw"] != "none" else not un)


UNITS.append(Unit("C13", MOD + ":ParametersVisitor.get_parameters", gp_setup, gp_post, never13, expect_cover=("return",),
                  trusted=["get_signature_parameters_and_indexes returns (parameters, index of *args, index of **kwargs, docstring parameters, stubs) of the signature (inspect)",
                           "get_parameters_args_and_kwargs, replace_args_and_kwargs, mro_context: their own units", "add_stub_types / remove_ignore_parameters / replace_param_default_subclass_specs by contract"]))


def ano_setup(ctx):
    n = ctx.choose(4, "n-params")
    pre = [ctx.choose(2, f"p{i}-already-has-an-origin") == 1 for i in range(n)]
    params = [Rec("ParamData", attrs={"name": f"p{i}", "origin": ("earlier", i) if pre[i] else None}) for i in range(n)]
    for p in params:
        p.methods["__setattr__"] = lambda c, s_, a, k: s_.attrs.__setitem__(a[0], a[1])
    node = Rec("node")
    self = Rec("ParametersVisitor", methods={"get_node_origin": lambda c, s_, a, k: (c.event("origin-of", a[0]), "mod.Cls.__init__:12")[1]})
    return Setup(env={"self": self, "params": params, "node": node}, data=dict(params=params, pre=pre, node=node))


def ano_post(ctx, st, result):
    d = st.data
    ok = all((p.attrs["origin"] == ("earlier", i)) if d["pre"][i] else (p.attrs["origin"] == "mod.Cls.__init__:12") for i, p in enumerate(d["params"]))
    ctx.oblige("post", "a-parameter-without-origin-gets-this-node's;one-that-has-an-origin(resolved deeper)-keeps-it", ok)
    ev = [e for e in ctx.events if e[0] == "origin-of"]
    ctx.oblige("post", "the-origin-is-computed-at-most-once,for-this-node,only-if-needed", len(ev) == (0 if all(d["pre"]) else 1) and all(e[1] is d["node"] for e in ev))


UNITS.append(Unit("C13", MOD + ":ParametersVisitor.add_node_origins", ano_setup, ano_post, never13, expect_cover=("return",)))


def gpca_setup(ctx):
    n_uses = ctx.choose(3, "uses-of-the-attribute")
    matches = [ctx.choose(2, f"use{i}-is-a-forwarding-call") == 1 for i in range(n_uses)]
    nodes = [Rec("node", attrs={"i": i}) for i in range(n_uses)]
    attr_value = Rec("Attribute(self.stored, Load)")
    produced = {i: [P(f"u{i}")] for i in range(n_uses)}
    grouped = Rec("grouped parameters", methods={"__bool__": lambda c, s_, a, k: True})
    self = Rec("ParametersVisitor", methods={
        "parse_source_tree": lambda c, s_, a, k: c.event("parse"), "find_values_usage": lambda c, s_, a, k: (c.event("find", dict(a[0])), [("stored", nd, Rec("source")) for nd in nodes])[1],
        "match_call_that_uses_attr": lambda c, s_, a, k: (c.event("match", a[0], a[2]), produced[a[0].attrs["i"]] if matches[a[0].attrs["i"]] else None)[1],
        "add_node_origins": lambda c, s_, a, k: c.event("origins", a[0], a[1])})
    group_in = []
    calls = {"group_parameters": lambda c, a, k: (group_in.append(list(a[0])), grouped if a[0] else [])[1]}  # (its own unit: nothing in, nothing out)
    return Setup(env={"self": self, "attr_name": "stored", "attr_value": attr_value}, calls=calls, data=dict(n_uses=n_uses, matches=matches, nodes=nodes, attr_value=attr_value, produced=produced, grouped=grouped, group_in=group_in))


def gpca_post(ctx, st, result):
    d = st.data
    ev = ctx.events
    tag = f"[{d['matches']}]"
    f = [e for e in ev if e[0] == "find"]
    ctx.oblige("post", "the-uses-of-exactly-self.<attr>-are-looked-up-in-this-member's-body" + tag, len(f) == 1 and list(f[0][1]) == ["stored"] and f[0][1]["stored"] is d["attr_value"] and ev[0][0] == "parse")
    want = [d["produced"][i] for i in range(d["n_uses"]) if d["matches"][i]]
    if d["n_uses"] == 0:
        ctx.oblige("post", "the-attribute-is-not-used-here=>None(the next member is tried)" + tag, result is None and not d["group_in"])
        return
    ctx.oblige("post", "every-use-that-is-a-forwarding-call-contributes-its-parameters(marked with its node),in-order;they-are-grouped" + tag,
               len(d["group_in"]) == 1 and len(d["group_in"][0]) == len(want) and all(x is y for x, y in zip(d["group_in"][0], want))
               and [e[2] for e in ev if e[0] == "origins"] == [d["nodes"][i] for i in range(d["n_uses"]) if d["matches"][i]])
    ctx.oblige("post", "the-grouped-parameters-are-the-result;no-forwarding-use=>None(the next member is tried)" + tag, result is (d["grouped"] if want else None))


UNITS.append(Unit("C13", MOD + ":ParametersVisitor.get_parameters_call_attr", gpca_setup, gpca_post, never13, expect_cover=("return",),
                  trusted=["find_values_usage / match_call_that_uses_attr: static analysis of the member's body (harness)", "group_parameters: its own unit (here: returns a non-empty list for a non-empty input)"]))

from contracts.share import carried as _carried  # noqa: E402
UNITS += _carried("C13")
