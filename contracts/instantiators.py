"""Custom instantiators (jsonargparse/_core.py, _common.py): C14's "constructed once with exactly the configured arguments" goes through
them when the user registers any.

add_instantiator: the registration for (class, subclasses) replaces an earlier one for the same pair, goes last - or first with
  prepend -, and keeps every other registration in its order.
_get_instantiators: the parser's own registrations win over the parent parser's and those over the ones of the surrounding context;
  nobody's table is written.
ClassInstantiator.__call__: the first registration, in table order, whose class is the class itself or - when registered for
  subclasses - a base of it, builds the object, with the class and exactly the arguments given; without a match the default
  instantiator does.
get_class_instantiator: the default instantiator when no registration is in effect.
"""
from pyvc.engine import ClassRef, Fn, Rec
from pyvc.units import Setup, Unit


def ai_setup(ctx):
    state = ["none-yet", "others-only", "same-key-first", "same-key-last"][ctx.choose(4, "registered-before")]
    prepend = ctx.choose(2, "prepend") == 1
    cls, sub = Rec("class A"), True
    other1, other2 = (Rec("class B"), True), (Rec("class A-as-exact"), False)
    old, o1, o2, new = Rec("old instantiator"), Rec("instantiator B"), Rec("instantiator C"), Rec("new instantiator")
    key = (cls, sub)
    table = {"none-yet": None, "others-only": {other1: o1, other2: o2}, "same-key-first": {key: old, other1: o1, other2: o2}, "same-key-last": {other1: o1, other2: o2, key: old}}[state]
    snapshot = None if table is None else dict(table)
    self = Rec("ArgumentParser", attrs={"_instantiators": table})
    self.methods["__setattr__"] = lambda c, s_, a, k: s_.attrs.__setitem__(a[0], a[1])
    return Setup(env={"self": self, "instantiator": new, "class_type": cls, "subclasses": sub, "prepend": prepend},
                 data=dict(state=state, prepend=prepend, key=key, other1=other1, other2=other2, o1=o1, o2=o2, new=new, table=table, snapshot=snapshot, self_=self))


def ai_post(ctx, st, result):
    d = st.data
    tag = f"[{d['state']},prepend={d['prepend']}]"
    got = d["self_"].attrs["_instantiators"]
    others = [] if d["state"] == "none-yet" else [(d["other1"], d["o1"]), (d["other2"], d["o2"])]
    want = ([(d["key"], d["new"])] + others) if d["prepend"] else (others + [(d["key"], d["new"])])
    ok = isinstance(got, dict) and len(got) == len(want) and all(k1 == k2 and v1 is v2 for (k1, v1), (k2, v2) in zip(got.items(), want))
    ctx.oblige("post", "the-registration-for(class,subclasses)-replaces-an-earlier-one-for-the-same-pair,stands-last(first with prepend),and-every-other-registration-keeps-its-place" + tag, ok,
               note=f"{[v.cls for v in got.values()] if isinstance(got, dict) else got}")
    if d["table"] is not None:
        ctx.oblige("frame", "the-table-that-was-there-is-not-written(a parser sharing it is unaffected)" + tag, d["table"] == d["snapshot"] and list(d["table"]) == list(d["snapshot"]))


def add_instantiator_unit(prop):
    return Unit(prop, "jsonargparse._core:ArgumentParser.add_instantiator", ai_setup, ai_post, None, expect_cover=("return",))


def gi2_setup(ctx):
    own = ["None", "empty", "has-A"][ctx.choose(3, "own-registrations")]
    parent = ["no-parent", "parent-has-A-and-B", "parent-has-none"][ctx.choose(3, "parent-parser")]
    context = ["none", "has-A-B-and-C"][ctx.choose(2, "context-registrations")]
    A, B, C = ("A", True), ("B", True), ("C", False)
    mine, theirs, ctxi = Rec("own inst A"), (Rec("parent inst A"), Rec("parent inst B")), (Rec("ctx inst A"), Rec("ctx inst B"), Rec("ctx inst C"))
    own_table = {"None": None, "empty": {}, "has-A": {A: mine}}[own]
    parent_table = {A: theirs[0], B: theirs[1]} if parent == "parent-has-A-and-B" else {}
    ctx_table = {A: ctxi[0], B: ctxi[1], C: ctxi[2]} if context != "none" else None
    snaps = (None if own_table is None else dict(own_table), dict(parent_table), None if ctx_table is None else dict(ctx_table))
    self = Rec("ArgumentParser", attrs={"_instantiators": own_table})
    if parent != "no-parent":
        self.attrs["parent_parser"] = Rec("ArgumentParser(parent)", methods={"_get_instantiators": lambda c, s_, a, k: parent_table})
    calls = {"class_instantiators.get": lambda c, a, k: ctx_table}
    return Setup(env={"self": self}, calls=calls, data=dict(own=own, parent=parent, context=context, A=A, B=B, C=C, mine=mine, theirs=theirs, ctxi=ctxi, own_table=own_table, parent_table=parent_table, ctx_table=ctx_table, snaps=snaps))


def gi2_post(ctx, st, result):
    d = st.data
    tag = f"[own={d['own']},{d['parent']},context={d['context']}]"
    want = {}
    if d["own"] == "has-A":
        want[d["A"]] = d["mine"]
    if d["parent"] == "parent-has-A-and-B":
        want.setdefault(d["A"], d["theirs"][0])
        want.setdefault(d["B"], d["theirs"][1])
    if d["context"] != "none":
        for k, v in zip((d["A"], d["B"], d["C"]), d["ctxi"]):
            want.setdefault(k, v)
    ok = isinstance(result, dict) and list(result) == list(want) and all(result[k] is want[k] for k in want)
    ctx.oblige("post", "the-parser's-own-registrations-win-over-the-parent-parser's,and-those-over-the-surrounding-context's;each-level-only-adds-pairs-not-yet-present(own first, then parent's, then the context's)" + tag, ok,
               note=f"{[v.cls for v in result.values()] if isinstance(result, dict) else result}")
    ctx.oblige("frame", "no-table-is-written(own, parent's, the context's)" + tag,
               (d["own_table"] is None or d["own_table"] == d["snaps"][0]) and d["parent_table"] == d["snaps"][1] and (d["ctx_table"] is None or d["ctx_table"] == d["snaps"][2]))


def get_instantiators_unit(prop):
    return Unit(prop, "jsonargparse._core:ArgumentParser._get_instantiators", gi2_setup, gi2_post, None, expect_cover=("return",),
                trusted=["the parent parser's _get_instantiators by this same contract", "class_instantiators is a ContextVar (set by instantiate_classes around the construction)"])


def ci_setup(ctx):
    asked = ["A", "SubOfA", "Unrelated"][ctx.choose(3, "class-asked-for")]
    n = ctx.choose(4, "table")
    classes = {n_: Rec("class " + n_, attrs={"name": n_}) for n_ in ("A", "SubOfA", "Unrelated", "B")}
    tables = [
        [],
        [(("A", True), "inst-A-with-subclasses")],
        [(("A", False), "inst-A-exact"), (("A", True), "inst-A-with-subclasses")],
        [(("B", True), "inst-B"), (("SubOfA", False), "inst-Sub-exact"), (("A", True), "inst-A-with-subclasses")],
    ]
    layout = tables[n]
    table = {(classes[c], sub): Fn(lambda c_, a, k, _nm=nm: (c_.event("built-by", _nm, list(a), dict(k)), ("object-from", _nm))[1], nm) for (c, sub), nm in layout}
    self = Rec("ClassInstantiator", attrs={"instantiators": table})
    args, kwargs = (Rec("positional"),), {"x": Rec("x-value")}
    calls = {"is_subclass": lambda c, a, k: (a[0].attrs["name"], a[1].attrs["name"]) in {("A", "A"), ("SubOfA", "A"), ("SubOfA", "SubOfA"), ("Unrelated", "Unrelated"), ("B", "B")},
             "default_class_instantiator": lambda c, a, k: (c.event("built-by", "default", list(a), dict(k)), ("object-from", "default"))[1]}
    return Setup(env={"self": self, "class_type": classes[asked], "args": args, "kwargs": kwargs}, calls=calls, data=dict(asked=asked, layout=layout, classes=classes, args=args, kwargs=kwargs))


def ci_post(ctx, st, result):
    d = st.data
    sub_of = {"A": {"A"}, "SubOfA": {"A", "SubOfA"}, "Unrelated": {"Unrelated"}}[d["asked"]]
    want = "default"
    for (c, sub), nm in d["layout"]:
        if c == d["asked"] or (sub and c in sub_of):
            want = nm
            break
    ev = [e for e in ctx.events if e[0] == "built-by"]
    tag = f"[{d['asked']};{[nm for _, nm in d['layout']]}]"
    ok = len(ev) == 1 and ev[0][1] == want and ev[0][2][0] is d["classes"][d["asked"]] and ev[0][2][1:] == list(d["args"]) and ev[0][3] == d["kwargs"] and all(ev[0][3][k] is d["kwargs"][k] for k in d["kwargs"])
    ctx.oblige("post", "the-object-is-built-exactly-once:by-the-first-registration(in table order)-for-the-class-itself-or,if-registered-for-subclasses,a-base-of-it;else-by-the-default-instantiator;with-the-class-asked-for-and-exactly-the-arguments-given" + tag,
               ok and result == ("object-from", want), note=f"built by {[e[1] for e in ev]}, expected {want}")


def class_instantiator_unit(prop):
    return Unit(prop, "jsonargparse._common:ClassInstantiator.__call__", ci_setup, ci_post, None, expect_cover=("return",),
                trusted=["is_subclass(c, base) as issubclass", "the registered instantiators are user functions (class_type, *args, **kwargs) -> object"])


def gci_setup(ctx):
    state = ["None", "empty", "some"][ctx.choose(3, "registrations-in-effect")]
    table = {"None": None, "empty": {}, "some": {("A", True): Rec("inst")}}[state]
    default = Rec("default_class_instantiator")
    made = []
    calls = {"class_instantiators.get": lambda c, a, k: table, "ClassInstantiator": lambda c, a, k: (made.append(a[0]), Rec("ClassInstantiator", attrs={"instantiators": a[0]}))[1]}
    return Setup(env={}, calls=calls, consts={"default_class_instantiator": default}, data=dict(state=state, table=table, default=default, made=made))


def gci_post(ctx, st, result):
    d = st.data
    if d["state"] == "some":
        ctx.oblige("post", "registrations-in-effect=>a-dispatcher-over-exactly-that-table", isinstance(result, Rec) and result.cls == "ClassInstantiator" and result.attrs["instantiators"] is d["table"])
    else:
        ctx.oblige("post", f"no-registration-in-effect=>the-default-instantiator(class_type(*args, **kwargs))[{d['state']}]", result is d["default"] and not d["made"])


def get_class_instantiator_unit(prop):
    return Unit(prop, "jsonargparse._common:get_class_instantiator", gci_setup, gci_post, None, expect_cover=("return",))


UNITS = [add_instantiator_unit("C14"), get_instantiators_unit("C14"), class_instantiator_unit("C14"), get_class_instantiator_unit("C14")]
