"""Smaller units shared by several properties."""
import z3

from contracts.adapt_arms import suppress_cm
from pyvc.engine import ClassRef, ExcVal, PyRaise, Rec, Unsupported, is_z3
from pyvc.units import Setup, Unit


# ============================================================================ DefaultHelpFormatter._expand_help
def eh_setup(ctx):
    default_kind = ["value", "None", "SUPPRESS", "namespace"][ctx.choose(4, "action.default")]
    cache = ["no-cache", "cache-with-value", "cache-with-None"][ctx.choose(3, "defaults_cache")]
    SUPPRESS = "==SUPPRESS=="
    declared = {"value": z3.Int("declared-default"), "None": None, "SUPPRESS": SUPPRESS, "namespace": Rec("Namespace", methods={"as_dict": lambda c, s_, a, k: {"x": 1}}), "absent": None}[default_kind]
    cached_val = z3.Int("default-from-config-files")
    attrs = {"dest": "lr", "choices": None, "type": None, "help": "the %(default)s"}
    if default_kind != "absent":
        attrs["default"] = declared
    action = Rec("Action", attrs=attrs)
    used = {}

    def substitute(c, s_, a, k):
        used.update(a[0])
        return z3.String("help-text")

    defaults = Rec("Namespace", methods={"get": lambda c, s_, a, k: cached_val if cache == "cache-with-value" else None})
    calls = {"vars": lambda c, a, k: dict(a[0].attrs), "defaults_cache.get": lambda c, a, k: None if cache == "no-cache" else defaults,
             "PercentTemplate": lambda c, a, k: Rec("Template", methods={"safe_substitute": substitute}), "dict": lambda c, a, k: dict(a[0], **k)}
    self = Rec("DefaultHelpFormatter", attrs={"_prog": "prog"}, methods={"_get_type_str": lambda c, s_, a, k: None, "_get_help_string": lambda c, s_, a, k: "the %(default)s"})
    consts = {"SUPPRESS": SUPPRESS, "Namespace": ClassRef("Namespace")}
    return Setup(env={"self": self, "action": action}, calls=calls, consts=consts, data=dict(action=action, declared=declared, default_kind=default_kind, cache=cache, cached_val=cached_val, used=used))


def eh_post(ctx, st, result):
    d = st.data
    a = d["action"]
    tag = f"[{d['default_kind']},{d['cache']}]"
    if d["default_kind"] == "absent":
        ctx.oblige("frame", "printing-help-leaves-the-action's-declared-default-as-it-was" + tag, a.attrs.get("default") is None)
    else:
        ctx.oblige("frame", "printing-help-leaves-the-action's-declared-default-as-it-was" + tag, a.attrs.get("default") is d["declared"])
    if d["default_kind"] in ("value", "None", "namespace") and d["cache"] == "cache-with-value":
        ctx.oblige("post", "the-help-text-shows-the-default-from-the-default-config-files" + tag, d["used"].get("default") is d["cached_val"])
    if d["default_kind"] == "SUPPRESS":
        ctx.oblige("post", "a-suppressed-default-is-not-shown" + tag, "default" not in d["used"])


def eh_raises(ctx, st, exc):
    ctx.oblige("raises", f"no-own-exception(got {exc.cls}@{exc.origin})", False)


def expand_help_unit(prop):
    return Unit(prop, "jsonargparse._formatters:DefaultHelpFormatter._expand_help", eh_setup, eh_post, eh_raises,
                trusted=["vars(action) is the action's attribute dict; PercentTemplate.safe_substitute does not raise", "defaults_cache holds the defaults computed from the default config files while help is printed"])


# ============================================================================ ArgumentParser._get_default_config_files
def gd_setup(ctx):
    with_parent = ctx.choose(2, "inside-a-subcommand-parser") == 1
    path_ok = ["all-readable", "one-match-is-not-a-readable-file(e.g. a directory matching the pattern)", "none-readable"][ctx.choose(3, "files-readable")]
    bad_file = "conf.d/20-site.yaml"
    globs = {"conf.d/*.yaml": ["conf.d/20-site.yaml", "conf.d/10-local.yaml"], "conf.d/10-local.yaml": ["conf.d/10-local.yaml"], "missing.yaml": [], "parent.yaml": ["parent.yaml"], "~/u.yaml": ["/home/u/u.yaml"]}
    own = [["conf.d/*.yaml", "conf.d/10-local.yaml"], ["conf.d/10-local.yaml", "missing.yaml", "conf.d/*.yaml", "~/u.yaml"], []][ctx.choose(3, "own-patterns")]
    parent = Rec("ArgumentParser", attrs={"default_config_files": ["parent.yaml"]})
    ctx.classes.add("TypeError", ["Exception"])

    def path_ctor(c, a, k):
        if path_ok == "none-readable" or (path_ok.startswith("one-match") and a[0] == bad_file):
            raise PyRaise(ExcVal("PathError", origin="Path()"))
        return Rec("Path", attrs={"file": a[0], "mode": k.get("mode")})

    calls = {"parent_parsers.get": lambda c, a, k: [("fit", parent)] if with_parent else [], "glob.glob": lambda c, a, k: list(globs[a[0]]), "os.path.expanduser": lambda c, a, k: a[0],
             "Path": path_ctor, "get_config_read_mode": lambda c, a, k: "fr"}
    self = Rec("ArgumentParser", attrs={"default_config_files": own})
    return Setup(env={"self": self}, calls=calls, cms={"suppress": suppress_cm()}, data=dict(with_parent=with_parent, own=own, globs=globs, path_ok=path_ok))


def gd_post(ctx, st, result):
    d = st.data
    want = ([("fit", "parent.yaml")] if d["with_parent"] else []) + [(None, f) for pat in d["own"] for f in sorted(d["globs"][pat])]
    # a match that is not a readable file is skipped; it does not switch the other default config files off
    if d["path_ok"] == "none-readable":
        want = []
    elif d["path_ok"].startswith("one-match"):
        want = [x for x in want if x[1] != "conf.d/20-site.yaml"]
    got = [(k, p.attrs["file"]) for k, p in result] if isinstance(result, list) and all(isinstance(x, tuple) and isinstance(x[1], Rec) for x in result) else None
    ctx.oblige("post", "files:parent-parsers'-first,then-each-own-pattern-in-the-listed-order,sorted-within-a-pattern,a-file-matched-twice-applies-twice;every-readable-match-is-used(an unreadable one is skipped alone)" + f"[{d['path_ok'].split('(')[0]}]", got == want, note=f"{got} vs {want}")
    ctx.oblige("post", "opened-with-the-config-read-mode", isinstance(result, list) and all(p.attrs["mode"] == "fr" for _, p in result))


def gd_raises(ctx, st, exc):
    ctx.oblige("raises", f"no-own-exception(got {exc.cls}@{exc.origin})", False)


def default_config_files_unit(prop):
    return Unit(prop, "jsonargparse._core:ArgumentParser._get_default_config_files", gd_setup, gd_post, gd_raises,
                trusted=["glob.glob(pattern) lists the matching files in file-system order; sorted() sorts them", "Path(file, mode) raises a TypeError subclass for an unreadable file"])


# ============================================================================ ActionLink.__init__ : the "replace target action" block
def rl_setup(ctx):
    n_opts = 1 + ctx.choose(3, "n-option-strings-of-the-target")
    opts = ["--size", "-s", "--sz"][:n_opts]
    target_action = Rec("Action", attrs={"option_strings": list(opts), "dest": "size"})
    other = Rec("Action", attrs={"option_strings": ["--other"], "dest": "other"})
    osa = {o: target_action for o in opts}
    osa["--other"] = other
    group = Rec("Group", attrs={"_group_actions": [other, target_action], "description": None})
    group2 = Rec("Group", attrs={"_group_actions": [other]})
    parser = Rec("ArgumentParser", attrs={"_option_string_actions": osa, "_actions": [other, target_action], "_action_groups": [group2, group]})
    self = Rec("ActionLink", attrs={"target": ("size", target_action)})
    env = {"self": self, "parser": parser, "is_target_subclass": False, "valid_target_leaf": False}
    return Setup(env=env, consts={"_ActionConfigLoad": ClassRef("_ActionConfigLoad")}, data=dict(opts=opts, target_action=target_action, other=other, osa=osa, parser=parser, self_rec=self, group=group))


def rl_post(ctx, st, result):
    d = st.data
    ctx.oblige("post", "every-option-string-of-the-target(short flags and aliases too)-now-leads-to-the-link-action(which rejects it)", all(d["osa"].get(o) is d["self_rec"] for o in d["opts"]))
    ctx.oblige("frame", "other-options-are-untouched", d["osa"].get("--other") is d["other"] and len(d["osa"]) == len(d["opts"]) + 1)
    ctx.oblige("post", "the-link-action-takes-the-target's-place-in-the-parser's-actions", d["parser"].attrs["_actions"][1] is d["self_rec"] and d["parser"].attrs["_actions"][0] is d["other"])
    ctx.oblige("post", "the-target-no-longer-shows-in-its-help-group", d["target_action"] not in d["group"].attrs["_group_actions"] and d["other"] in d["group"].attrs["_group_actions"])


def rl_raises(ctx, st, exc):
    ctx.oblige("raises", f"no-own-exception(got {exc.cls}@{exc.origin})", False)


def replace_target_unit(prop):
    return Unit(prop, "jsonargparse._link_arguments:ActionLink.__init__@if(not is_target_subclass or valid_target_leaf)", rl_setup, rl_post, rl_raises, label="replace-target-action",
                trusted=["the unit is the `Replace target action with link action` block of __init__ (plain-argument target)"])
