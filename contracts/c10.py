"""C10 - parse results are fixed points: re-parsing or validating changes nothing.

Proved here: the call-site obligation that a parse method validates exactly the configuration it returns
(_parse_common), and, for the Union arm of adapt_typehints (C02 unit), that an accepted value is the value of an
accepting member.  The fixed-point clause proper (adapt(adapt(v,T),T) == adapt(v,T) for every type constructor) lives in
adapt_typehints as a whole, which is outside the verifier's reach; it is checked by the bounded harness.
"""
import z3

from contracts.parse_models import cfg, expr_of, noop_cm
from pyvc.engine import ClassRef, ExcVal, PyRaise, Rec, Unsupported
from pyvc.units import Setup, Unit


def pc_setup(ctx):
    skip_validation = ctx.choose(2, "skip_validation") == 1
    env_arg = [None, True, False][ctx.choose(3, "env")]
    default_env = ctx.choose(2, "_default_env") == 1
    with_meta = [None, True, False][ctx.choose(3, "with_meta")]
    default_meta = ctx.choose(2, "_default_meta") == 1
    log = ctx.events
    the_cfg = Rec("Namespace", attrs={"expr": "CFG"})
    stripped = Rec("Namespace", attrs={"expr": "CFG-without-meta"})

    def validate(c, s_, a, k):
        c.event("validate", a[0], dict(k))
        if c.choose(2, "validate-raises") == 1:
            raise PyRaise(ExcVal("TypeError", origin="validate"))

    self = Rec("ArgumentParser", attrs={"_default_meta": default_meta, "_logger": Rec("Logger", methods={"debug": lambda c, s_, a, k: None}), "parser_mode": "yaml"},
               methods={"validate": validate})
    calls = {
        "_ActionSubCommands.handle_subcommands": lambda c, a, k: c.event("handle_subcommands", a[1], dict(k)),
        "ActionLink.apply_parsing_links": lambda c, a, k: c.event("apply_links", a[1]),
        "_ActionPrintConfig.print_config_if_requested": lambda c, a, k: c.event("print_config?", a[1]),
        "strip_meta": lambda c, a, k: (c.event("strip_meta", a[0]), stripped)[1],
        "ActionTypeHint.add_sub_defaults": lambda c, a, k: c.event("sub_defaults", a[1]),
        "lenient_check.get": lambda c, a, k: False,
    }
    self.attrs["_default_env"] = default_env
    self.methods["error"] = lambda c, s_, a, k: (_ for _ in ()).throw(PyRaise(ExcVal("ArgumentError", origin="self.error")))
    defaults = ctx.choose(2, "defaults") == 1
    skip_subcommands = ctx.choose(2, "skip_subcommands") == 1
    fail_no = z3.Bool("fail_no_subcommand")
    skip_required = z3.Bool("skip_required")
    env = {"self": self, "cfg": the_cfg, "skip_subcommands": skip_subcommands, "env": env_arg, "defaults": defaults, "with_meta": with_meta, "skip_validation": skip_validation, "skip_required": skip_required, "fail_no_subcommand": fail_no}
    return Setup(env=env, calls=calls, cms={"parser_context": noop_cm("parser_context")}, data=dict(defaults=defaults, skip_subcommands=skip_subcommands, fail_no=fail_no, skip_required=skip_required, self_=self, env_arg=env_arg, default_env=default_env, cfg=the_cfg, stripped=stripped, skip_validation=skip_validation, keep_meta=(with_meta is True or (with_meta is None and default_meta))))


def pc_post(ctx, st, result):
    d = st.data
    vals = [e for e in ctx.events if e[0] == "validate"]
    if not d["skip_validation"]:
        ctx.oblige("post", "the-configuration-that-is-returned-is-the-one-that-was-validated", len(vals) == 1 and vals[0][1] is d["cfg"])
    else:
        ctx.oblige("post", "skip_validation=>no-validation", not vals)
    ctx.oblige("post", "returns-that-configuration(meta stripped unless asked to keep it)", result is (d["cfg"] if d["keep_meta"] else d["stripped"]))
    hs = [e for e in ctx.events if e[0] == "handle_subcommands"]
    want_env = True if (d["env_arg"] is None and d["default_env"]) else d["env_arg"]
    if d["skip_subcommands"]:
        ctx.oblige("post", "skip_subcommands=>subcommands-are-left-alone", not hs)
    else:
        ctx.oblige("post", "subcommand-settings-are-completed-with-the-environment-exactly-when-it-is-enabled(argument, else the parser's default_env)", len(hs) == 1 and hs[0][1] is d["cfg"] and hs[0][2].get("env") is want_env
                   and hs[0][2].get("defaults") is d["defaults"] and hs[0][2].get("fail_no_subcommand") is d["fail_no"])
    order = [e[0] for e in ctx.events if e[0] in ("apply_links", "validate")]
    ctx.oblige("post", "links-are-applied-before-validation", order in (["apply_links", "validate"], ["apply_links"]))
    sd = [e for e in ctx.events if e[0] == "sub_defaults"]
    ctx.oblige("post", "defaults-of-selected-classes-are-added-exactly-when-defaults-are-asked-for", len(sd) == (1 if d["defaults"] else 0) and all(e[1] is d["cfg"] for e in sd))
    pc = [e for e in ctx.events if e[0] == "print_config?"]
    seq = [e[0] for e in ctx.events if e[0] in ("handle_subcommands", "sub_defaults", "print_config?", "apply_links", "validate")]
    ctx.oblige("post", "a-pending---print_config-request-is-served-once,on-this-configuration,after-subcommands-and-defaults-are-completed-and-before-links-and-validation", len(pc) == 1 and pc[0][1] is d["cfg"]
               and seq.index("print_config?") == len([x for x in seq if x in ("handle_subcommands", "sub_defaults")]))
    if vals:
        ctx.oblige("post", "validation-gets-the-caller's-skip_required", vals[0][2].get("skip_required") is d["skip_required"])


def pc_raises(ctx, st, exc):
    ctx.oblige("raises", f"only-validation-failures-propagate(got {exc.cls}@{exc.origin})", exc.origin in ("validate", "self.error"))


UNITS = [
    Unit("C10", "jsonargparse._core:ArgumentParser._parse_common", pc_setup, pc_post, pc_raises, expect_cover=("return", "raise:TypeError"),
         trusted=["validate(cfg) raises unless every key of cfg passes _check_value_key (C06 units)", "strip_meta returns a copy without meta keys (C08)"]),
]
from contracts.adapt_arms import arms_units  # noqa: E402
UNITS = UNITS + arms_units("C10")

VERIFIED_CALLEES = ()
LEVEL = "other"
TECHNIQUE = "contract-based deductive verification of the validate-what-you-return call site (VCs from the real AST, ghost events) + bounded run-time contract: validate(result), parse_object(result) == result, dump-reparse-dump byte identity"
LEVEL_TEXT = "Verified: _parse_common completes subcommands and class defaults, serves a pending print_config request, applies links and then validates exactly the configuration it returns; parse_object and validate/check_values re-check every key by its own action; every arm of adapt_typehints returns a value that already conforms as it is (fixpoint clauses of the leaf, Tuple/Set, List, Dict, Literal, Enum, registered-type arms; dispatch unit), RegisteredType.is_value_of_type; re-parsing a result goes through adapt_class_type / discard_init_args_on_class_path_change with the defaults as previous value without importing arguments of another class. The composition adapt(adapt(v,T),T) == adapt(v,T) for nested types end to end: bounded only (507 types x 8 channels: validate(result), parse_object(result) == result, dump-reparse-dump byte identity). Also: the static walk discard_init_args_on_class_path_change used by merge_config, the dataclass arm's frame (nothing of a parse is remembered in the action), normalize_default (a declared default is stored in config form once)."
LEVEL_NOTE = "under construction"
EXPLANATION = "under construction"
ASSUMPTIONS = []
TRUSTED = []
BOUNDED = [{"name": "fixed-point-of-parse-results", "script": "bounded/b10_fixedpoint.py"}]

# re-parsing a parse result goes through adapt_class_type with the defaults as previous value: dict_kwargs / init_args of another class must not leak in
from contracts.class_type import class_type_unit, discard_unit  # noqa: E402
UNITS += [class_type_unit("C10"), discard_unit("C10")]

from contracts.adapt_arms import dispatch_unit  # noqa: E402
UNITS.append(dispatch_unit("C10"))


from contracts.share import shared  # noqa: E402
UNITS += shared("C10", "contracts.c06", 'ArgumentParser.validate.<locals>.check_values')
UNITS += shared("C10", "contracts.c04", 'ArgumentParser.parse_object')
UNITS += shared("C10", "contracts.c20", "RegisteredType.is_value_of_type")


# merging a later source over an earlier one (merge_config) drops the init_args of a replaced class first: without it the merged result does not re-parse
from contracts.discard_walk import discard_walk_unit  # noqa: E402
UNITS.append(discard_walk_unit("C10"))
from contracts.adapt_arms import dataclass_unit  # noqa: E402
UNITS.append(dataclass_unit("C10"))

# a declared default is stored in its config form once (what the first parse returns is then already normal for lazy instances, dataclass instances, specs, Enum members)
from contracts.any_units import normalize_default_unit  # noqa: E402
UNITS.append(normalize_default_unit("C10"))

from contracts.share import carried as _carried  # noqa: E402
UNITS += _carried("C10")

# re-parsing a result: _check_type takes the __path__ entry of a mapping out for the type check and puts it back on what it returns (parse_object(r) == r)
from contracts.check_type import check_type_unit as _c10_check_type_unit  # noqa: E402
UNITS.append(_c10_check_type_unit("C10"))
from contracts.share import shared as _c10_shared  # noqa: E402
UNITS += _c10_shared("C10", "contracts.c19", ":parse_value_or_config")  # a text that the loader reads as (another) text stays the text given: normalisation is idempotent
