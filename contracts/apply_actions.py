"""ArgumentParser._apply_actions (jsonargparse/_core.py): the common path of the config-string, config-file, object and (per
value) environment channels (C05), where every given value meets the action declared for its key (C02, C06).

Contract: every key of the given configuration - at any depth, also below a subcommand name and inside a whole-group value that the
group's loader expands - that has an action is checked by *that* action exactly once (the loader and then the members for a
whole-group value), with the value given for it and the previous configuration, inside the parser's lenient context; the checked
value replaces the given one under the same key; keys without an action keep their value; nothing else is added or removed.
The configuration is a Namespace heap whose methods are the C11 contracts (contracts/ns_units.py).
"""
import z3

from contracts.ns_units import Branch, build, c_setitem, common as ns_common, ns_rec, rec_at, same_view, view, is_ns
from pyvc.engine import ClassRef, ExcVal, PyRaise, Rec
from pyvc.units import Setup, Unit

SCEN = ["flat", "nested-members", "dict-branch", "unknown-key", "whole-group-loader", "subcommand", "skip_fn", "parent_key", "given-as-dict", "check-fails", "prev_cfg",
        "method-name-keys", "method-name-keys-below-parent_key"]


def aa_setup(ctx):
    scen = SCEN[ctx.choose(len(SCEN), "configuration")]
    v = [z3.Int(f"given{i}") for i in range(4)]
    ctx.classes.add("_ActionConfigLoad", ["Action"])
    ctx.classes.add("_ActionSubCommands", ["Action"])
    ctx.classes.add("ActionJsonnet", ["Action"])
    A = lambda dest, cls="Action": Rec(cls, attrs={"dest": dest})  # noqa: E731
    acts = {}      # full key -> (action, subcommand)
    loaded = None  # what the whole-group loader returns
    tree = Branch(a=v[0], b=v[1])
    parent_key, given_as_dict, fails = "", False, None
    skip = None
    if scen == "flat":
        acts = {"a": (A("a"), None), "b": (A("b"), None)}
    elif scen == "nested-members":
        tree = Branch(g=Branch(x=v[0], h=Branch(y=v[1])), b=v[2])
        acts = {"g.x": (A("g.x"), None), "g.h.y": (A("g.h.y"), None), "b": (A("b"), None)}
    elif scen == "dict-branch":
        tree = Branch(g={"x": v[0]}, b=v[1])  # a plain dict where a group is declared: becomes a namespace and its members are checked
        acts = {"g.x": (A("g.x"), None), "b": (A("b"), None)}
    elif scen == "unknown-key":
        tree = Branch(a=v[0], zz=v[1], u=Branch(w=v[2]))
        acts = {"a": (A("a"), None)}
    elif scen == "whole-group-loader":
        tree = Branch(g=v[0], b=v[1])  # g given as one value (a path or a string) for the group's --g loader
        loaded = build(Branch(x=z3.Int("loaded.x"), y=z3.Int("loaded.y")))
        acts = {"g": (A("g", "_ActionConfigLoad"), None), "g.x": (A("g.x"), None), "g.y": (A("g.y"), None), "b": (A("b"), None)}
    elif scen == "subcommand":
        tree = Branch(subcommand=v[0], fit=Branch(lr=v[1]), a=v[2])
        sc = A("subcommand", "_ActionSubCommands")
        acts = {"subcommand": (sc, None), "fit": (sc, None), "fit.lr": (A("lr"), "fit"), "a": (A("a"), None)}
    elif scen == "skip_fn":
        acts = {"a": (A("a"), None), "b": (A("b"), None)}
        skip = v[1]
    elif scen == "parent_key":
        parent_key = "opt"
        acts = {"opt.a": (A("opt.a"), None), "opt.b": (A("opt.b"), None)}
    elif scen == "given-as-dict":
        given_as_dict = True
        acts = {"a": (A("a"), None), "b": (A("b"), None)}
    elif scen == "check-fails":
        acts = {"a": (A("a"), None), "b": (A("b"), None)}
        fails = "b"
    elif scen == "prev_cfg":
        acts = {"a": (A("a"), None), "b": (A("b"), None)}
    elif scen == "method-name-keys":
        # options named like Namespace's own methods are stored and returned like any other name (C11): they meet their actions like any other key
        tree = Branch(values=v[0], g=Branch(items=v[1], x=v[2]))
        acts = {"values": (A("values"), None), "g.items": (A("g.items"), None), "g.x": (A("g.x"), None)}
    elif scen == "method-name-keys-below-parent_key":
        tree = Branch(keys=v[0], b=v[1])
        parent_key = "opt"
        acts = {"opt.keys": (A("opt.keys"), None), "opt.b": (A("opt.b"), None)}
    cfg = build(tree) if not given_as_dict else {"a": v[0], "b": v[1]}
    cfg0 = cfg
    open_cms = []
    checked = {}

    def find(c, a, k):
        key = a[1]
        ent = acts.get(key)
        if ent is not None and k.get("exclude") is not None and ent[0].cls == k["exclude"].name:
            ent = None
        c.event("find", key, getattr(k.get("exclude"), "name", None))
        return ent if ent is not None else (None, None)

    def check_value_key(c, s_, a, k):
        action, value, key, prev = a
        c.event("check", action, value, key, prev, list(open_cms))
        if fails == key:
            raise PyRaise(ExcVal("TypeError", args=(f'Parser key "{key}"',), origin="_check_value_key"))
        out = loaded if action.cls == "_ActionConfigLoad" else Rec("checked value", attrs={"of": value, "key": key})
        checked[key] = out
        return out

    def new_namespace(c, a, k):
        rec = ns_rec({})
        if a:
            src = a[0]
            for kk, vv in (src.items() if isinstance(src, dict) else src.attrs["__dict__"].items()):
                c_setitem(c, rec, (kk, vv), {})
        return rec

    prev_clone = Rec("clone of prev_cfg")
    prev = Rec("Namespace(prev)", methods={"clone": lambda c, s_, a, k: prev_clone, "__bool__": lambda c, s_, a, k: True}) if scen == "prev_cfg" else None
    from pyvc.engine import Fn
    self = Rec("ArgumentParser", methods={"_check_value_key": check_value_key})
    consts, inline = ns_common(ctx)
    consts.update({"_ActionConfigLoad": ClassRef("_ActionConfigLoad"), "_ActionSubCommands": ClassRef("_ActionSubCommands"), "ActionJsonnet": ClassRef("ActionJsonnet")})
    calls = {"_find_action_and_subcommand": find, "Namespace": new_namespace}
    cms = {"parser_context": (lambda c, a, k: open_cms.append(dict(k)), lambda c, t, e: (open_cms.pop(), False)[1])}
    env = {"self": self, "cfg": cfg, "parent_key": parent_key, "prev_cfg": prev, "skip_fn": Fn(lambda c, a, k: a[0] is skip, "skip_fn") if skip is not None else None}
    return Setup(env=env, calls=calls, consts=consts, cms=cms, inline=inline,
                 data=dict(scen=scen, tree=tree, acts=acts, cfg0=cfg0, checked=checked, loaded=loaded, parent_key=parent_key, skip=skip, self_=self, prev=prev, prev_clone=prev_clone, open_cms=open_cms, v=v))


def expected_checks(d):
    """(full key, given value) pairs that must be checked, from the scenario (the statement: every key that has an action)"""
    scen, v = d["scen"], d["v"]
    return {
        "flat": [("a", v[0]), ("b", v[1])], "nested-members": [("g.x", v[0]), ("g.h.y", v[1]), ("b", v[2])], "dict-branch": [("g.x", v[0]), ("b", v[1])],
        "unknown-key": [("a", v[0])], "whole-group-loader": [("g", v[0]), ("b", v[1]), ("g.x", "loaded.x"), ("g.y", "loaded.y")], "subcommand": [("fit.lr", v[1]), ("a", v[2])],
        "skip_fn": [("a", v[0])], "parent_key": [("opt.a", v[0]), ("opt.b", v[1])], "given-as-dict": [("a", v[0]), ("b", v[1])], "prev_cfg": [("a", v[0]), ("b", v[1])],
        "method-name-keys": [("values", v[0]), ("g.items", v[1]), ("g.x", v[2])], "method-name-keys-below-parent_key": [("opt.keys", v[0]), ("opt.b", v[1])],
    }[scen]


def aa_post(ctx, st, result):
    d = st.data
    tag = f"[{d['scen']}]"
    want = expected_checks(d)
    checks = [e for e in ctx.events if e[0] == "check"]

    def same_value(given, expected):
        if isinstance(expected, str):
            return z3.is_expr(given) and str(given) == expected
        return given is expected

    got = {e[3]: e for e in checks}
    ok = len(checks) == len(want) and set(got) == {k for k, _ in want} and all(same_value(got[k][2], val) and got[k][1] is d["acts"][k][0] for k, val in want)
    ctx.oblige("post", "every-key-that-has-an-action(at any depth,below a subcommand,inside an expanded whole-group value)-is-checked-by-that-action-exactly-once-with-the-value-given-for-it" + tag, ok,
               note=str([(e[3], e[2]) for e in checks]))
    ctx.oblige("post", "each-check-runs-inside-this-parser's-lenient-context" + tag, all(e[5] == [{"parent_parser": d["self_"], "lenient_check": True}] for e in checks) and not d["open_cms"])
    prev_ok = all((e[4] is d["prev_clone"]) if d["prev"] is not None else (is_ns(e[4]) and not e[4].attrs["__dict__"]) for e in checks)
    ctx.oblige("post", "the-previous-configuration-handed-to-the-checks-is-a-copy-of-the-caller's(or empty),never-the-caller's-object" + tag, prev_ok)
    # the resulting configuration: checked values under their keys, everything else as given
    root = result
    if d["parent_key"]:
        holder = ns_rec({})
        c_setitem(ctx, holder, (d["parent_key"], result), {})
        root = holder
    ok_vals = is_ns(root) and all(k in d["checked"] and rec_at(root, k.split(".")) is d["checked"][k] for k, _ in want if not (d["scen"] == "whole-group-loader" and k == "g"))
    ctx.oblige("post", "the-checked-value-replaces-the-given-one-under-the-same-key" + tag, ok_vals)
    if d["scen"] == "unknown-key":
        ctx.oblige("post", "keys-without-an-action-keep-their-value" + tag, rec_at(root, ["zz"]) is d["v"][1] and rec_at(root, ["u", "w"]) is d["v"][2])
    if d["scen"] == "skip_fn":
        ctx.oblige("post", "a-value-the-caller-asks-to-skip-is-left-as-given" + tag, rec_at(root, ["b"]) is d["v"][1])
    if d["scen"] == "subcommand":
        ctx.oblige("post", "the-subcommand-name-is-left-to-the-subcommand-handling" + tag, rec_at(root, ["subcommand"]) is d["v"][0])
    shape = {
        "flat": ["a", "b"], "nested-members": ["g.x", "g.h.y", "b"], "dict-branch": ["g.x", "b"], "unknown-key": ["a", "zz", "u.w"], "whole-group-loader": ["g.x", "g.y", "b"],
        "subcommand": ["subcommand", "fit.lr", "a"], "skip_fn": ["a", "b"], "parent_key": ["opt.a", "opt.b"], "given-as-dict": ["a", "b"], "prev_cfg": ["a", "b"],
        "method-name-keys": ["values", "g.items", "g.x"], "method-name-keys-below-parent_key": ["opt.keys", "opt.b"],
    }[d["scen"]]
    from contracts.ns_units import m_leaves
    ctx.oblige("frame", "no-key-is-added-or-lost" + tag, is_ns(root) and sorted(k for k, _ in m_leaves(view(root))) == sorted(shape))


def aa_raises(ctx, st, exc):
    d = st.data
    ctx.oblige("raises", f"only-a-failing-check-propagates[{d['scen']}](got {exc.cls}@{exc.origin})", d["scen"] == "check-fails" and exc.origin == "_check_value_key" and not d["open_cms"])


def apply_actions_unit(prop):
    return Unit(prop, "jsonargparse._core:ArgumentParser._apply_actions", aa_setup, aa_post, aa_raises, expect_cover=("return", "raise:TypeError"), max_paths=5000,
                trusted=["_find_action_and_subcommand by contract (C06 unit)", "_check_value_key(action, value, key, prev_cfg) checks the value against the action's type (its own units: _check_type, the arms)",
                         "the configuration is a Namespace: every method by its contract (C11 units)", "no jsonnet ext_vars action in these scenarios"])
