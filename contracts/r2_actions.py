"""Round 2 - the remaining functions of jsonargparse/_actions.py and the action helpers of jsonargparse/_common.py.

Parsers and actions are records (Rec) whose class name is the real class name (isinstance follows the class table read from /repo).

C06 (a key is found iff an action with exactly that dest exists, at any nesting below subcommands)
  _find_action                 end to end: the real _find_action_and_subcommand, filter_default_actions and split_key_root are interpreted from their
                               own bodies over declared parser trees (flat with a group loader, three levels of subcommands with an alias, loader/plain
                               with one dest, empty), for ALL strings `dest` (symbolic): an action is returned only for one of its own full keys
                               (subcommand names joined with dots + its dest; a subcommands action for its dest and for each of its names), a group loader
                               only when no other action has that key, the help / print-config actions never, None only when no declared key equals dest;
                               the caller's exclude is honoured at every depth; nothing is modified
  _find_parent_action          end to end likewise (real _find_parent_action_and_subcommand and split_key too), for ALL strings with at most 3 dots:
                               the action of the key itself, else of its longest proper dotted prefix that is a declared key, else None
  filter_default_actions       exactly the members that are not help / class-help / print-config actions (subclasses included), order and keys kept,
                               list in -> new list, dict in -> new dict, the argument is not modified
  remove_actions               removes exactly the actions of the given types from _actions, from every group and from the option-string table;
                               every other action stays where it was, in order; actions themselves are not touched
C07
  ActionParser.__init__        accepts a jsonargparse ArgumentParser (or a subclass) and keeps it; anything else (None, argparse's parser, a string, a class)
                               is refused with ValueError
  ActionParser._is_valid_action_parser   True exactly for an ActionParser instance; the parser itself as its own sub-parser is refused with ValueError
  ActionYesNo._add_dest_prefix for ALL prefixes / names (symbolic): dest' = prefix.dest, options '--[yes_prefix]prefix.name' and '--[no_prefix]prefix.name'
C09 (actions write only namespace[dest]; the class-help action changes nothing)
  ActionYesNo.__call__         the yes option gives the explicit value (True without one), the no option its negation, for ALL option names / prefixes;
                               only namespace.<dest> is written; factory mode hands the configured prefixes to the real action
  ActionYesNo.__init__         declaration: option strings become [--[yes]name, --[no]name]; positional / wrong prefix / no_prefix=None with nargs != 1 refused
                               with ValueError; default False unless given; nargs absent -> 0, 1 -> None, '?' kept; type is the boolean checker
  ActionYesNo._boolean_type    true|yes -> True, false|no -> False (any case), a bool is itself, anything else TypeError (ALL strings through lower(x))
  ActionYesNo._check_type      is _boolean_type of exactly that value
  ActionConfigFile.__call__    hands (parser, cfg, own dest, value) to apply_config, nothing else
  _ActionPrintConfig.__init__  dest and default suppressed (the option never writes to the namespace), one value
  _ActionPrintConfig.is_print_config_requested   true exactly when the parser or one of its ancestors holds a pending request; nothing modified
  _ActionHelpClassPath.__init__/__call__/update_init_kwargs/get_args_after_opt   default suppressed, only self and the given kwargs are written;
                               factory mode builds a new action of the same class with the same type hint; get_args_after_opt returns exactly the
                               arguments after the option (and its separate value), for ALL argument strings, and does not modify parser.args
C03 (refusals are TypeError / ValueError)
  ActionConfigFile.__init__ / set_default_error / _ensure_single_config_argument / _add_print_config_argument
  _ActionConfigLoad.__init__ / check_type, Action._check_type_
C17
  _ActionSubCommands.add_parser          always NotImplementedError, registers nothing
  _ActionSubCommands.parse_kwargs_context   the context variable holds the keywords inside the body and is restored on every exit
C06 (positionals-as-optionals candidates)
  get_optionals_as_positionals_actions, supports_optionals_as_positionals
"""
import z3

from pyvc.engine import ClassRef, ExcVal, PyRaise, Rec, Unsupported, is_z3, lift
from pyvc.units import Setup, Unit

A = "jsonargparse._actions:"
CM = "jsonargparse._common:"
S_ = z3.StringVal


def _no_exc(ctx, st, exc):
    ctx.oblige("raises", f"never-raises(got {exc.cls}@{exc.origin})", False)


def _classes(ctx):
    """argparse classes the repo's sources refer to (the class table holds the repo's own classes only)."""
    ctx.classes.add("_HelpAction", ["Action"])
    ctx.classes.add("_StoreAction", ["Action"])
    ctx.classes.add("_SubParsersAction", ["Action"])
    ctx.classes.add("PrintConfigSub", ["_ActionPrintConfig"])  # a user subclass of the print-config action
    ctx.classes.add("MyConfigFile", ["ActionConfigFile"])
    ctx.classes.add("argparse:ArgumentParser", ["object"])
    ctx.classes.add("MyParser", ["ArgumentParser"])


# ================================================================================================ parser trees (C06)
class Node:
    """Declared parser: a list of (kind, dest, extra) - kinds: A plain, L group loader, H help, P print-config, S subcommands (extra: name -> Node)."""

    def __init__(self, *actions):
        self.actions = actions


def _trees():
    p3 = Node(("A", "n", None))
    p1 = Node(("H", "help", None), ("A", "lr", None), ("L", "data", None), ("A", "data.path", None))
    p2 = Node(("H", "help", None), ("A", "ckpt", None), ("S", "mode", {"fast": p3}))
    return [
        ("flat+group", Node(("H", "help", None), ("A", "lr", None), ("L", "model", None), ("A", "model.depth", None), ("P", "print_config", None), ("A", "opt", None))),
        ("subcommands-3-levels+alias", Node(("H", "help", None), ("A", "verbose", None), ("S", "subcommand", {"fit": p1, "test": p2, "t": p2}))),
        ("loader-then-plain-same-dest", Node(("L", "x", None), ("A", "x", None))),
        ("loader-alone", Node(("L", "x", None), ("A", "x.y", None))),
        ("empty", Node()),
    ]


KIND_CLASS = {"A": "ActionTypeHint", "L": "_ActionConfigLoad", "H": "_HelpAction", "P": "_ActionPrintConfig", "S": "_ActionSubCommands"}


def _symdict(d):
    """A dict with concrete string keys that can be asked about a symbolic key (membership: a disjunction; lookup: one fork per key)."""
    def contains(c, s_, a, k):
        return z3.Or(*[lift(a[0]) == S_(n) for n in d]) if is_z3(a[0]) else a[0] in d

    def getitem(c, s_, a, k):
        if not is_z3(a[0]):
            if a[0] in d:
                return d[a[0]]
            raise PyRaise(ExcVal("KeyError", (a[0],), origin="dict[]"))
        names = list(d)
        i = c.choose(len(names) + 1, "dict-lookup", [a[0] == S_(n) for n in names] + [z3.And(*[a[0] != S_(n) for n in names])])
        if i == len(names):
            raise PyRaise(ExcVal("KeyError", (a[0],), origin="dict[]"))
        return d[names[i]]

    return Rec("dict", attrs={"$d": d}, methods={"__contains__": contains, "__getitem__": getitem})


def _build(node, made, memo):
    """Node -> parser record; `made` collects (record, kind, node) of every action."""
    if id(node) in memo:
        return memo[id(node)]
    acts = []
    for kind, dest, extra in node.actions:
        attrs = {"dest": dest}
        if kind == "S":
            attrs["_name_parser_map"] = _symdict({name: _build(sub, made, memo) for name, sub in extra.items()})
        r = Rec(KIND_CLASS[kind], attrs=attrs)
        acts.append(r)
        made.append((r, kind))
    p = Rec("ArgumentParser", attrs={"_actions": acts})
    memo[id(node)] = p
    return p


def _keys_of(parser, prefix, exclude, out):
    """Reference (from the statement): every declared key with the action it names.  out: list of (full key, action record, kind)."""
    for a in parser.attrs["_actions"]:
        kind = {v: k for k, v in KIND_CLASS.items()}[a.cls]
        if kind in ("H", "P") or (exclude and kind == "L"):
            continue
        out.append((prefix + a.attrs["dest"], a, kind))
        if kind == "S":
            for name, sub in a.attrs["_name_parser_map"].attrs["$d"].items():
                out.append((prefix + name, a, "S"))
                _keys_of(sub, prefix + name + ".", exclude, out)
    return out


def _snapshot(parser, seen=None):
    seen = {} if seen is None else seen
    if id(parser) in seen:
        return seen[id(parser)]
    seen[id(parser)] = None
    snap = []
    for a in parser.attrs["_actions"]:
        snap.append((id(a), a.attrs["dest"], tuple(sorted(a.attrs)), tuple((n, id(s), _snapshot(s, seen)) for n, s in (a.attrs["_name_parser_map"].attrs["$d"] if "_name_parser_map" in a.attrs else {}).items())))
    return (tuple(parser.attrs), tuple(snap))


def fa_setup(ctx, parent=False):
    _classes(ctx)
    trees = _trees()
    name, node = trees[ctx.choose(len(trees), "declared-parser")]
    exclude = [None, "_ActionConfigLoad"][ctx.choose(2, "exclude")]
    made = []
    parser = _build(node, made, {})
    dest = z3.String("dest")
    if parent and name.startswith("subcommands"):
        # the parent walk below subcommands multiplies symbolic splits beyond what the solvers decide in seconds: a systematic family of concrete keys instead
        # (every declared key; below it by one and two segments; a proper string prefix; a longer name; trailing / leading / doubled dots; unknown roots)
        fam = []
        for k, _, _ in _keys_of(parser, "", None, []):
            fam += [k, k + ".zz", k + ".zz.w", k[:-1], k + "x", k + ".", "." + k, k.replace(".", "..", 1)]
        fam = sorted(set(fam + ["", ".", "zz", "zz.lr", "help", "fit.help"]))
        dest = fam[ctx.choose(len(fam), "key")]
    elif parent:
        ctx.split_limit = 3  # precondition of the unit: at most 3 dots in the key
    inline = {"_find_action_and_subcommand": A + "_find_action_and_subcommand", "filter_default_actions": A + "filter_default_actions", "split_key_root": "jsonargparse._namespace:split_key_root"}
    if parent:
        inline.update({"_find_parent_action_and_subcommand": A + "_find_parent_action_and_subcommand", "split_key": "jsonargparse._namespace:split_key"})
    ex = (ClassRef(exclude),) if exclude else None  # callers pass a class or a tuple of classes
    if exclude and ctx.choose(2, "exclude-given-as-a-class-or-a-tuple") == 1:
        ex = ClassRef(exclude)
    env = {"parser": parser, ("key" if parent else "dest"): dest, "exclude": ex}
    return Setup(env=env, inline=inline, data=dict(tree=name, parser=parser, dest=dest, exclude=exclude, snap=_snapshot(parser), keys=_keys_of(parser, "", exclude, [])), watch={"dest": dest} if is_z3(dest) else {})


def _owns(keys, action, parent):
    """dest is one of the keys of `action`; a group loader only counts where no other action has the key."""
    return [k for k, a, kind in keys if a is action and not (kind == "L" and any(k2 == k and a2 is not action and kind2 != "L" for k2, a2, kind2 in keys))]


def fa_post(ctx, st, result):
    d = st.data
    dest, keys = d["dest"], d["keys"]
    tag = f"[{d['tree']}{',loaders excluded' if d['exclude'] else ''}]"
    ctx.oblige("post", "returns-a-declared-(not excluded, not help/print-config)-action-or-None" + tag, result is None or any(result is a for _, a, _ in keys))
    if result is None:
        ctx.oblige("post", "None-only-when-no-declared-key-(at any depth below subcommands)-equals-the-key" + tag, z3.And(*[dest != S_(k) for k, _, _ in keys]) if keys else True, strings=True)
    elif any(result is a for _, a, _ in keys):
        own = _owns(keys, result, False)
        ctx.oblige("post", "an-action-is-returned-only-for-one-of-its-own-full-keys(subcommand names joined with dots + dest;a subcommands action for its dest and its names;a group loader only when nothing else has the key)" + tag,
                   z3.Or(*[dest == S_(k) for k in own]) if own else False, strings=True)
    ctx.oblige("frame", "the-parser-tree-is-not-modified" + tag, _snapshot(d["parser"]) == d["snap"] and not ctx.mutlog)


def fpa_post(ctx, st, result):
    d = st.data
    dest, keys = lift(d["dest"]), d["keys"]
    tag = f"[{d['tree']}{',loaders excluded' if d['exclude'] else ''}{'' if is_z3(d['dest']) else ',key ' + repr(d['dest'])}]"

    def at_or_below(k):
        return z3.Or(dest == S_(k), z3.PrefixOf(S_(k + "."), dest))

    ctx.oblige("post", "returns-a-declared-(not excluded, not help/print-config)-action-or-None" + tag, result is None or any(result is a for _, a, _ in keys))
    if result is None:
        ctx.oblige("post", "None-only-when-neither-the-key-nor-any-dotted-prefix-of-it-is-a-declared-key" + tag, z3.And(*[z3.Not(at_or_below(k)) for k, _, _ in keys]) if keys else True, strings=True)
    elif any(result is a for _, a, _ in keys):
        own = _owns(keys, result, True)
        # the key lies at or below one of the action's keys, and no longer declared key of another action lies between
        alts = []
        for k in own:
            longer = [k2 for k2, a2, _ in keys if a2 is not result and len(k2) > len(k) and k2.startswith(k + ".")]
            alts.append(z3.And(at_or_below(k), *[z3.Not(at_or_below(k2)) for k2 in longer]))
        ctx.oblige("post", "the-action-of-the-key-itself,else-of-its-longest-dotted-prefix-that-is-a-declared-key" + tag, z3.Or(*alts) if alts else False, strings=True)
    ctx.oblige("frame", "the-parser-tree-is-not-modified" + tag, _snapshot(d["parser"]) == d["snap"] and not ctx.mutlog)


# ================================================================================================ filter_default_actions / remove_actions
MEMBER_KINDS = ["ActionTypeHint", "_StoreAction", "_HelpAction", "_ActionHelpClassPath", "_ActionPrintConfig", "PrintConfigSub", "_ActionConfigLoad"]
DEFAULT_KINDS = ("_HelpAction", "_ActionHelpClassPath", "_ActionPrintConfig", "PrintConfigSub")


def fd_setup(ctx):
    _classes(ctx)
    as_dict = ctx.choose(2, "list-or-dict") == 1
    n = ctx.choose(4, "members")
    members = [Rec(MEMBER_KINDS[ctx.choose(len(MEMBER_KINDS), f"member[{i}]")], attrs={"dest": f"d{i}"}) for i in range(n)]
    arg = {f"--o{i}": m for i, m in enumerate(members)} if as_dict else list(members)
    return Setup(env={"actions": arg}, data=dict(arg=arg, members=members, as_dict=as_dict))


def fd_post(ctx, st, result):
    d = st.data
    tag = f"[{'dict' if d['as_dict'] else 'list'}:{','.join(m.cls for m in d['members']) or 'empty'}]"
    keep = [m for m in d["members"] if m.cls not in DEFAULT_KINDS]
    if d["as_dict"]:
        ok = isinstance(result, dict) and list(result.values()) == keep and all(d["arg"].get(k) is v for k, v in result.items())
    else:
        ok = isinstance(result, list) and len(result) == len(keep) and all(x is y for x, y in zip(result, keep))
    ctx.oblige("post", "exactly-the-members-that-are-not-help/class-help/print-config-actions(subclasses included),order-and-keys-kept,same-container-type" + tag, ok)
    same = list(d["arg"].values()) if d["as_dict"] else d["arg"]
    ctx.oblige("frame", "a-new-container-is-returned;the-one-given-is-not-modified" + tag, result is not d["arg"] and len(same) == len(d["members"]) and all(x is y for x, y in zip(same, d["members"])) and not ctx.mutlog)


REMOVE_TYPES = [("_HelpAction", "_ActionPrintConfig", "_ActionConfigLoad"), ("ActionConfigFile", "_ActionPrintConfig"), ("ShtabAction",), ()]
RM_KINDS = ["ActionTypeHint", "_HelpAction", "_ActionPrintConfig", "PrintConfigSub", "_ActionConfigLoad", "ActionConfigFile", "ShtabAction"]


def rm_setup(ctx):
    _classes(ctx)
    types = REMOVE_TYPES[ctx.choose(len(REMOVE_TYPES), "types")]
    single = ctx.choose(2, "types-given-as-one-class") == 1 if len(types) == 1 else False
    n = 1 + ctx.choose(3, "actions")
    acts = []
    for i in range(n):
        kind = RM_KINDS[ctx.choose(len(RM_KINDS), f"action[{i}]")]
        acts.append(Rec(kind, attrs={"dest": f"d{i}", "option_strings": [f"--d{i}", f"-{i}"] if i != 1 else []}))  # the second one is a positional
    layout = ctx.choose(3, "groups")  # 0: all in one group, 1: split over two groups (+ an empty one), 2: one action in no group
    if layout == 0:
        groups = [list(acts), []]
    elif layout == 1:
        groups = [acts[:1], acts[1:], []]
    else:
        groups = [acts[1:]]
    grecs = [Rec("_ArgumentGroup", attrs={"_group_actions": g, "title": f"g{i}"}) for i, g in enumerate(groups)]
    opts = {o: a for a in acts for o in a.attrs["option_strings"]}
    parser = Rec("ArgumentParser", attrs={"_actions": list(acts), "_action_groups": grecs, "_option_string_actions": opts, "required_args": {"d0"}, "_subcommands_action": None})
    tv = ClassRef(types[0]) if single else tuple(ClassRef(t) for t in types)
    asnap = [(a, dict(a.attrs), list(a.attrs["option_strings"])) for a in acts]
    return Setup(env={"parser": parser, "types": tv}, data=dict(types=types, acts=acts, groups=[list(g) for g in groups], grecs=grecs, parser=parser, opts=dict(opts), asnap=asnap, layout=layout))


def rm_post(ctx, st, result):
    d = st.data
    ct = ctx.classes
    gone = [a for a in d["acts"] if any(ct.is_subclass(a.cls, t) for t in d["types"])]
    tag = f"[{','.join(a.cls for a in d['acts'])};types:{','.join(d['types']) or 'none'};groups:{d['layout']}]"

    def same(lst, want):
        return isinstance(lst, list) and len(lst) == len(want) and all(x is y for x, y in zip(lst, want))

    p = d["parser"]
    ctx.oblige("post", "_actions-holds-exactly-the-actions-not-of-the-given-types,in-order" + tag, same(p.attrs["_actions"], [a for a in d["acts"] if a not in gone]))
    ctx.oblige("post", "every-group-holds-exactly-its-actions-not-of-the-given-types,in-order" + tag,
               same(p.attrs["_action_groups"], d["grecs"]) and all(same(g.attrs["_group_actions"], [a for a in old if a not in gone]) for g, old in zip(d["grecs"], d["groups"])))
    opts = p.attrs["_option_string_actions"]
    ctx.oblige("post", "no-option-string-of-a-removed-action-still-reaches-it(the option-string table holds exactly the options of the remaining actions)" + tag,
               isinstance(opts, dict) and set(opts) == {o for o, a in d["opts"].items() if a not in gone} and all(opts[o] is d["opts"][o] for o in opts),
               note="argparse resolves '--opt' through parser._option_string_actions: an action left there is still run when its option is given")
    ctx.oblige("frame", "the-actions-themselves-and-the-parser's-other-attributes-are-not-touched" + tag,
               all(a.attrs == at and a.attrs["option_strings"] == os_ for a, at, os_ in d["asnap"]) and p.attrs["required_args"] == {"d0"} and set(p.attrs) == {"_actions", "_action_groups", "_option_string_actions", "required_args", "_subcommands_action"})
    ctx.oblige("post", "returns-nothing", result is None)


def units(prop):
    out = [
        Unit(prop, A + "_find_action", fa_setup, fa_post, _no_exc, max_paths=20000,
             trusted=["str.split('.', 1) interpreted exactly by the engine", "_find_action_and_subcommand / filter_default_actions / split_key_root are interpreted from their real bodies (no contract assumed)",
                      "well-formed trees: no plain dest of a parser starts with one of its subcommand names + '.'"]),
        Unit(prop, A + "_find_parent_action", lambda ctx: fa_setup(ctx, parent=True), fpa_post, _no_exc, max_paths=20000,
             trusted=["keys with at most 3 dots", "str.split interpreted exactly by the engine", "all callees interpreted from their real bodies"]),
    ]
    out += [
        Unit(prop, A + "filter_default_actions", fd_setup, fd_post, _no_exc, trusted=["isinstance follows the class hierarchy of the sources"]),
        Unit(prop, A + "remove_actions", rm_setup, rm_post, _no_exc, max_paths=20000, trusted=["list.remove removes the first member equal to (here: identical with) the argument", "the nested remove() is interpreted as part of the unit"]),
    ]
    return out


CARRIES = {"C06": ["_find_action", "_find_parent_action"]}
